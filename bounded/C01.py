"""C01 bounded stand-in: every bundled widget class, alone and nested (depth <= 3), built with the option
combinations of the property's quantifier, rendered by the *real* urwid code at every small size that
is valid for a sizing mode the widget itself reports (`widget.sizing()`), with both focus values, under
the three encoding modes.  The oracle is written from the property statement and does not trust
urwid's own `validate_size`:

  render-succeeds      sizing(), rows(), pack(()) and render() raise nothing on a valid size
  size-as-requested    box: canvas = (cols, rows) asked; flow: cols asked x rows((cols,)) (asked before
                       *and* after the render); fixed: canvas = pack(())
  rows-rectangular     len(list(canvas.content())) == canvas.rows(); every content row is exactly
                       canvas.cols() screen columns wide, measured twice: with urwid's calc_width on each
                       text segment, and with this file's own width rule (decode in the target encoding;
                       East-Asian wide/fullwidth = 2, combining/format = 0, DEC/alternate charset segment =
                       one column per byte, control characters / half characters = undisplayable)
  cursor-inside        canvas.cursor is None or (x, y) with 0 <= x < cols and 0 <= y < rows
  pack-succeeds        (auxiliary) pack(size) on the flow/box sizes raises nothing
  depth3-sampled       all clauses above on a seeded sample of depth-3 trees (detail names the clause)
  aux-reported-mode-of-illformed-tree
                       (auxiliary, literal reading) modes that sizing() reports for trees that are ill-formed
                       by urwid's documentation -- see `demands` below; switch off with REPORT_ILLFORMED

Triage notes (what was changed after the first runs, and why):
  * check names: the five clause checks are reported per widget family, "C01/<clause>/<family>" (families = the
    generator's own groups: Text, Text-markup, Edit, ..., Pile, Pile3, Columns, ..., Overlay, ListBox); the oracle is
    the same for all of them.  Reason: the runner lists one known finding per check name and 20 failures per check.
  * `aux-reported-mode-of-illformed-tree` is INFORMATIONAL (a reading beyond the statement, see INFORMATIONAL below).
  * fill characters (Divider, SolidFill, LineBox lines, ScrollBar thumb) are generated one column wide only (see
    `one_column`): wider / zero-width ones are rejected by SolidCanvas by design and are outside the quantifier.
  * failure details carry identifier-named fields for the known-finding matcher: mode, root, classes, exc, at, step,
    msg, pack, rows_calc (next to expr, enc, size, focus, clause, why, sizing, canvas, cursor).
  * thorough tier (triage tC01): no oracle change was needed (one small family added, see below).  Every failure that only the thorough pool
    reaches (children `graph`, `bytes`, `editclip`; Overlay / Pile-with-a-given-box-item as inner trees of the depth-3
    sample) was replayed natively and is a real violation on a well-formed tree; each is a known finding: KF3 (a Filler
    that leaves 0 rows, now also for BarGraph bodies), KF6 (SO/SI bytes: an Overlay that trusts Text.pack raises), KF1
    (LineBox(BigText) drawn through Scrollable), KF4 / KF5 (cursor at x = -1 from a clipped Edit in a 0-column child),
    KF10 (fixed Columns with a weighted FIXED+BOX column), KF11 (fixed GridFlow takes the box path for a Pile cell that
    has a given-height box item).  To see *all* failure kinds of a run, not the first 20 per check, replace
    `Tally.failures` by a property returning every entry of `by_sig` (the depth-3 check has > 200 kinds in this tier).
    Family `Nested-extra` (all tiers) enumerates the shapes of KF10 .. KF13, which only the depth-3 sample reached
    (KF12 / KF13 only with samples other than seed 0's).

Strengthening notes (after seeded changes C01-a1 / C01-a2 went undetected; bounds added, oracle unchanged):
  * GraphVScale: labels that wrap onto several rows at the narrow widths of the scope (multi-word, multi-line, wide,
    zero-width, bytes, markup) at low / middle / high positions of the scale (`GRAPH_LABELS`), so that a label runs past
    the bottom edge or over the next label; family GraphScale: the scale beside its BarGraph in Columns at given
    widths 1..3 and at container-decided heights 2..7 (BoxAdapter, Pile, LineBox).
  * ('weight', 0, w) items in every tier (were thorough-only): families Pile-weight0 / Columns-weight0 -- every pool
    child in a zero-weight slot alone, before/after each SECOND item, between a weighted and a packed flow item; they
    also enter the depth-3 sample.  rows() vs render vs pack for flow / box / fixed Piles and Columns.
  * ProgressBar-text: the documented get_text() override with ASCII texts longer than the widths (builder
    `progress_text`); non-ASCII / multi-line ones are INFORMATIONAL (a subclass, beyond "bundled widgets").

A *tree* is a Python expression over the urwid namespace (plus four builders defined here:
`bar_graph`, `list_box`, `tree_list_box`, `progress_text`), so every failure detail carries a copy-and-paste reproduction.
Each evaluation builds a fresh widget (no history: ListBox/Scrollable/Edit keep scroll state), sets the
encoding, clears the canvas cache, and restores both afterwards.

Readings of the statement adopted (oracle decisions):
  * "valid for a sizing mode the widget reports": the modes are exactly `widget.sizing()`; a mode that is
    not reported is not exercised; all sizes >= 1 in the bound are valid for box/flow (the quantifier says
    "all sizes >= 1 including 1-column and 1-row"), so "the configured widths / paddings do not fit" is not
    an excuse: the canvas must still have the requested size.
  * "widget tree": every child sits in a slot whose sizing mode the child reports (documentation-derived
    rules in `demands`); `Pile([(2, Text('x'))])` ("always treat widget as a box widget") is a usage error.
    Reported modes of such trees are judged only by the auxiliary check.
  * A constructor that rejects an option combination produces no tree: such expressions are skipped and
    counted (`unbuildable`), never reported as failures.
  * flow: rows() is asked before and after the render; both must equal the canvas height ("the widget's own
    row calculation" is one number for a width).
  * a 0-row flow canvas / 0-column fixed canvas is accepted when rows()/pack() say so (content() is then
    not iterated: there is nothing to be rectangular).
  * `Terminal` (urwid.vterm) is excluded: it needs a pty and a child process.
  * bytes texts in the 'wide' mode stay inside JIS X 0208 (urwid documents "JISX 0208 only" for euc-jp).
The failure grouping (`_signature`, `failure_summary`) is diagnostics, not part of the oracle.
"""
from __future__ import annotations

import itertools
import multiprocessing
import os
import re
import time
import traceback
import unicodedata
import warnings

import urwid
from urwid.canvas import CanvasCache
from urwid.str_util import calc_width  # what urwid.util.calc_width forwards to (that alias is deprecated)
from urwid.util import get_encoding, set_encoding

from bounded.common import Check, rng

ENCODINGS = (("utf-8", "utf8"), ("euc-jp", "wide"), ("iso8859-1", "narrow"))
CLAUSES = {
    "render-succeeds": "sizing(), rows(size), pack(()) and render(size, focus) raise nothing for a size valid for a reported sizing mode",
    "size-as-requested": "box: canvas.cols()/rows() == request; flow: cols == request and rows == widget.rows((cols,), focus) (before and after render); fixed: (cols, rows) == widget.pack((), focus)",
    "rows-rectangular": "number of content rows == canvas.rows() and every content row is exactly canvas.cols() columns wide (urwid.util.calc_width per segment AND an independent width rule)",
    "cursor-inside": "canvas.cursor is None or 0 <= x < cols and 0 <= y < rows",
    "pack-succeeds": "auxiliary: pack(size, focus) on flow and box sizes raises nothing",
}


# ------------------------------------------------------------------------------------------------
# builders usable inside tree expressions (and by a human: `from bounded.C01 import *`)
# ------------------------------------------------------------------------------------------------
def bar_graph(data, top, hlines=None, bar_width=None, nseg=1, satt=None):
    g = urwid.BarGraph(["bg", *[f"s{i}" for i in range(nseg)]], hatt=["h0", "h1", "h2"][: nseg + 1], satt=satt)
    g.set_data(data, top, hlines)
    if bar_width is not None:
        g.set_bar_width(bar_width)
    return g


class _TextBar(urwid.ProgressBar):
    """ProgressBar with the documented extension point used: "get_text ... You can override this method to display
    custom text" (urwid/widget/progress_bar.py)."""

    def __init__(self, text, *args, **kwargs):
        self._custom_text = text
        super().__init__(*args, **kwargs)

    def get_text(self):
        return self._custom_text


def progress_text(text, current=50, done=100, satt=None, align="center"):
    bar = _TextBar(text, "n", "c", current, done, satt)
    bar.text_align = align  # public class attribute (Align.CENTER by default)
    return bar


def list_box(items, focus=None, valign=None, walker="focus"):
    body = urwid.SimpleFocusListWalker(items) if walker == "focus" else urwid.SimpleListWalker(items)
    lb = urwid.ListBox(body)
    if focus is not None and items:
        lb.set_focus(focus)
    if valign is not None:
        lb.set_focus_valign(valign)
    return lb


class _Node(urwid.ParentNode):
    def __init__(self, label, kids, depth, parent=None, key=None):
        self._label, self._kids, self._d = label, kids, depth
        super().__init__(label, key=key, parent=parent, depth=(parent.get_depth() + 1) if parent else 0)

    def load_widget(self):
        node = self

        class W(urwid.TreeWidget):
            def get_display_text(self):
                return node._label

        return W(self)

    def load_child_keys(self):
        return list(range(self._kids)) if self._d > 0 else []

    def load_child_node(self, key):
        return _Node(f"{self._label}{key}", self._kids, self._d - 1, parent=self, key=key)


def tree_list_box(label="r", kids=2, depth=1):
    return urwid.TreeListBox(urwid.TreeWalker(_Node(label, kids, depth)))


def _namespace():
    ns = {n: v for n, v in vars(urwid).items() if not n.startswith("_")}  # vars(): no deprecated lazy attributes
    from urwid.numedit import FloatEdit, IntegerEdit

    ns.update(FloatEdit=FloatEdit, IntegerEdit=IntegerEdit, bar_graph=bar_graph, list_box=list_box, tree_list_box=tree_list_box, progress_text=progress_text)
    return ns


NS = _namespace()


# ------------------------------------------------------------------------------------------------
# well-formed trees: which sizing mode a container asks of each child, from urwid's *documentation*
# (constructor docstrings and the "Rules:" lists in the sizing() docstrings), not from its code paths
# ------------------------------------------------------------------------------------------------
# Reading adopted: "every widget tree ... valid for a sizing mode the widget reports" ranges over trees
# in which every child sits in a slot whose sizing mode the child itself reports -- e.g. Pile's
# `(given_height, w)` "always treat[s] w as a box widget", so `Pile([(2, Text('x'))])` is a usage error,
# not a tree (urwid answers it with a PileWarning and a fallback sizing).  A (tree, mode) pair that the
# root reports but that is not well-formed by the rules below is NOT judged by the main checks; it is
# counted, and probed at one size, in the auxiliary check `C01/aux-reported-mode-of-illformed-tree`
# (the literal reading of the statement, kept apart for a decision).
# `demands(w, M)` -> list of (child, candidate modes) or None when the documentation gives the widget no
# mode M with these options.  When the documentation leaves open which of several modes the child is
# asked for (a fixed/flow Text in a 'pack' slot), every candidate must be reported by the child.
def _S(w):
    return {str(getattr(s, "value", s)) for s in w.sizing()}


def demands(w, M):
    t = type(w)
    U = urwid
    if t in (U.AttrMap, U.AttrWrap, U.WidgetPlaceholder, U.WidgetDisable, U.PopUpLauncher):
        return [(w.original_widget, [M])]
    if t is U.LineBox:
        # the child is the weighted middle column between the side lines: as a fixed widget it also has to say
        # how it fills a width ("WEIGHT FIXED -> Need also FLOW or/and BOX", Columns.sizing), whichever it reports
        c = w.original_widget
        return [(c, [M] + (sorted(_S(c) & {"flow", "box"}) if M == "fixed" else []))]
    if t is U.WidgetWrap:
        return [(w._w, [M])]
    if t is U.PopUpTarget:
        return [(w.original_widget, ["box"])] if M == "box" else None
    if t is U.BoxAdapter:
        return [(w.original_widget, ["box"])] if M == "flow" else None
    if t is U.Padding:
        c, wt = w.original_widget, str(w._width_type.value)
        if wt == "clip":  # "this padding widget will behave as a flow widget and original_widget will be treated as a fixed widget"
            return [(c, ["fixed"])] if M == "flow" else None
        if wt == "given":  # "FIXED is supported, and wrapped widget should support FLOW"
            return [(c, [{"box": "box", "flow": "flow", "fixed": "flow"}[M]])]
        if wt == "pack":  # "try to pack original_widget to its ideal size": pack((width,)) then render
            return [(c, {"box": ["box", "flow"], "flow": ["flow"], "fixed": ["fixed"]}[M])]
        return [(c, [M])]  # relative
    if t is U.Filler:
        c, ht = w.original_widget, str(w.height_type.value)
        if ht == "pack":  # "'pack' if body is a flow widget"
            return [(c, ["flow"])] if M in ("box", "flow") else None
        if ht == "given":
            return [(c, ["box"])] if M in ("box", "flow") else None
        return [(c, ["box"])] if M == "box" else None
    if t is U.Pile:
        out = []
        gives_width = False
        for c, (kind, amount) in w.contents:
            kind = str(getattr(kind, "value", kind))  # the options keep whatever the caller passed: the enum or its plain string
            S = _S(c)
            if kind == "given":  # "always treat widget as a box widget"
                out.append((c, ["box"]))
            elif kind == "pack":  # "treat it as a flow widget"; sizing(): PACK FIXED -> FIXED
                if M == "fixed":
                    out.append((c, sorted(S & {"fixed", "flow"})))
                    gives_width |= "fixed" in S
                else:
                    out.append((c, ["flow"] if "flow" in S else ["fixed"]))
            elif M == "box":  # weight: "if the pile is treated as a box widget then treat widget as a box widget"
                out.append((c, ["box"]))
            elif M == "flow":  # "otherwise treat the same as ('pack', widget)"; WEIGHT FIXED needs FLOW
                out.append((c, ["flow"]))
            else:  # fixed pile, weight slot: "WEIGHT FIXED -> Need also FLOW or/and BOX"
                if "fixed" in S:
                    out.append((c, ["fixed", *sorted(S & {"flow", "box"})] if S & {"flow", "box"} else []))
                    gives_width = True
                else:  # "WEIGHT FLOW -> FLOW": laid out at the width the fixed children give
                    out.append((c, ["flow"]))
        if M == "fixed" and not gives_width:
            return None
        weights = [amount for _c, (kind, amount) in w.contents if str(getattr(kind, "value", kind)) == "weight"]
        if M == "box" and weights and not any(weights):
            # "If the Pile is treated as a box widget there must be at least one 'weight' tuple": zero weights only
            # is answered by the deliberate PileError("No weighted widgets found ...")
            return None
        return out
    if t is U.Columns:
        out = []
        free = 0
        for c, (kind, amount, is_box) in w.contents:
            kind = str(getattr(kind, "value", kind))  # the options keep whatever the caller passed: the enum or its plain string
            S = _S(c)
            if kind == "pack" and not S & {"fixed", "flow"}:  # "PACK BOX -> Unsupported" (also inside box_columns)
                return None
            if M == "box":  # "BOX can be only if ALL widgets support BOX"; "PACK BOX -> Unsupported"
                if kind == "pack":
                    return None
                out.append((c, ["box"]))
            elif is_box:  # box_columns: rendered as a box as tall as the other columns
                out.append((c, ["box"]))
            elif M == "flow":
                free += 1
                if kind == "pack":  # "PACK FLOW -> FLOW", "PACK FIXED -> FIXED"
                    out.append((c, sorted(S & {"fixed", "flow"})))
                else:
                    out.append((c, ["flow"]))
            else:  # fixed
                free += 1
                if kind == "pack":
                    out.append((c, sorted(S & {"fixed", "flow"})))
                elif kind == "given":  # "GIVEN FLOW -> FIXED (known width and widget knows its height)"
                    out.append((c, ["flow"]))
                else:  # "WEIGHT FIXED -> Need also FLOW or/and BOX"
                    out.append((c, ["fixed", *sorted(S & {"flow", "box"})] if S & {"flow", "box"} else []))
        if M != "box" and w.contents and not free:
            return None
        return out
    if t is U.GridFlow:  # "cells: iterable of flow widgets"
        return [(c, ["flow"]) for c, _o in w.contents] if M in ("flow", "fixed") else None
    if t is U.Frame:
        if M != "box":
            return None
        return [(w.body, ["box"])] + [(x, ["flow"]) for x in (w.header, w.footer) if x is not None]
    if t is U.ListBox:
        return [(c, ["flow"]) for c in w.body] if M == "box" else None
    if t is U.Overlay:
        wt, ht = str(w.width_type.value), str(w.height_type.value)
        top = "fixed" if wt == "pack" else "flow" if ht == "pack" else "box"  # "'pack' if top_w is a fixed widget" / "a flow or fixed widget"
        return [(w.bottom_w, ["box"]), (w.top_w, [top])]
    if t is U.Scrollable:  # "makes a fixed or flow widget vertically scrollable"
        return [(w.original_widget, sorted(_S(w.original_widget) & {"fixed", "flow"}))] if M == "box" else None
    if t is U.ScrollBar:  # "widget must be a box widget"
        return [(w.original_widget, ["box"])] if M == "box" else None
    return []  # leaves (incl. the bundled composites Button/CheckBox/TreeListBox/..., whose inner trees are urwid's own)


def well_formed(w, M):
    """(ok, reason). ok iff M is reported by w and every child is asked only for modes it reports, recursively."""
    if M not in _S(w):
        return False, f"{type(w).__name__} does not report {M}"
    d = demands(w, M)
    if d is None:
        return False, f"{type(w).__name__} with these options has no documented {M} mode"
    for c, cands in d:
        if not cands:
            return False, f"{type(c).__name__} reports no mode usable in its slot of a {M} {type(w).__name__}"
        for m in cands:
            ok, why = well_formed(c, m)
            if not ok:
                return False, f"in a {M} {type(w).__name__}: {why}"
    return True, ""


# ------------------------------------------------------------------------------------------------
# the oracle
# ------------------------------------------------------------------------------------------------
def own_char_width(ch):
    """Column width of one decoded character by Unicode properties (never urwid's table)."""
    cat = unicodedata.category(ch)
    if cat in ("Mn", "Me", "Cf") or unicodedata.combining(ch):
        return 0
    if cat == "Cc":
        return None  # a control character has no place in a canvas
    return 2 if unicodedata.east_asian_width(ch) in ("W", "F") else 1


def own_segment_width(cs, bs, mode):
    """Independent width of one (attr, cs, bytes) content segment; None = not displayable as it stands
    (undecodable bytes, half of a double-byte character, a control character)."""
    if cs is not None:
        return len(bs) if all(0x20 <= b < 0x7F for b in bs) else None  # DEC special / alternate set: 1 byte = 1 column
    if mode == "utf8":
        try:
            s = bs.decode("utf-8")
        except UnicodeDecodeError:
            return None
        total = 0
        for ch in s:
            w = own_char_width(ch)
            if w is None:
                return None
            total += w
        return total
    if mode == "wide":
        total = i = 0
        while i < len(bs):
            if bs[i] < 0x20 or bs[i] == 0x7F:
                return None
            if bs[i] < 0x80:
                total += 1
                i += 1
            else:
                if i + 1 >= len(bs) or bs[i + 1] < 0x80:
                    return None  # dangling lead byte
                total += 2
                i += 2
        return total
    if any(b < 0x20 or b == 0x7F for b in bs):
        return None
    return len(bs)


def _short(e):
    """The exception text on one line without the (long, nested) widget repr of WidgetError ("Widget <...> rendered ...")
    and -- triage tC01 -- of ListBoxError ("Focus Widget <...> at position ..."), whose telling part used to be cut off."""
    return re.sub(r"Widget <(\w+).*> (rendered|at position)", r"Widget <\1 ...> \2", " ".join(str(e).split()))


def _exc(e):
    frames = [f for f in traceback.extract_tb(e.__traceback__) if "urwid" in f.filename]
    where = " <- ".join(f"{os.path.basename(f.filename)}:{f.lineno} {f.name}" for f in reversed(frames[-3:]))
    return f"{type(e).__name__}: {_short(e)[:160]} [at {where}]"


def _exc_fields(e, step):
    """Triage: identifier-named detail fields for the known-finding matcher (`case.exc`, `case.at`, `case.step`):
    exception class, innermost urwid frame as 'file.py:function' (no line number: stable across patches), and the
    call that raised ('sizing' / 'rows' / 'pack' / 'render' / 'content')."""
    frames = [f for f in traceback.extract_tb(e.__traceback__) if "urwid" in f.filename]
    at = f"{os.path.basename(frames[-1].filename)}:{frames[-1].name}" if frames else ""
    return {"exc": type(e).__name__, "at": at, "step": step.split("(", 1)[0], "msg": _short(e)[:160]}


def _mode_of(size):
    return ("fixed", "flow", "box")[len(size)]


def judge(code, mode, size, focus):
    """One evaluation on a fresh widget. Returns (results, obs): results maps clause -> (ok, why); clauses
    that could not be evaluated (because render raised) are absent. Must be called with the encoding set."""
    res, obs = {}, {}
    w = eval(code, NS)  # noqa: S307  -- expressions are generated by this file
    want_rows = want = None
    try:
        step = "sizing()"
        sizing = w.sizing()
        obs["sizing"] = sorted(str(s.value if hasattr(s, "value") else s) for s in sizing)
        if len(size) == 1:
            step = f"rows({size}, {focus})"
            want_rows = w.rows(size, focus)
        elif not size:
            step = f"pack((), {focus})"
            want = tuple(w.pack((), focus))
        step = f"render({size}, {focus})"
        canv = w.render(size, focus)
        if len(size) == 1:
            step = f"rows({size}, {focus}) after render"
            rows_after = w.rows(size, focus)
    except Exception as e:  # noqa: BLE001  -- the exception is the observation
        res["render-succeeds"] = (False, f"{step} raised {_exc(e)}")
        obs.update(_exc_fields(e, step))
        return res, obs
    res["render-succeeds"] = (True, "")

    cols, rows = canv.cols(), canv.rows()
    obs["canvas"] = [cols, rows]
    if len(size) == 2:
        ok, why = (cols, rows) == tuple(size), f"box size {size} gave a {cols} x {rows} canvas"
    elif len(size) == 1:
        obs["rows()"] = [want_rows, rows_after]
        ok = cols == size[0] and rows == want_rows == rows_after and isinstance(want_rows, int)
        why = f"flow width {size[0]}: rows() = {want_rows!r} before / {rows_after!r} after the render, canvas is {cols} x {rows}"
    else:
        obs["pack()"] = list(want)
        ok, why = (cols, rows) == want, f"fixed: pack(()) = {want}, canvas is {cols} x {rows}"
    res["size-as-requested"] = (ok, why)

    bad = []
    if rows > 0 and cols > 0:
        try:
            content = [list(r) for r in canv.content()]
        except Exception as e:  # noqa: BLE001
            content = None
            bad.append(f"canvas.content() raised {_exc(e)}")
            obs.update(_exc_fields(e, "content()"))
        if content is not None:
            if len(content) != rows:
                bad.append(f"{len(content)} content rows, canvas.rows() = {rows}")
            for i, row in enumerate(content):
                try:
                    uw = sum(calc_width(t, 0, len(t)) for _a, _c, t in row)
                except Exception as e:  # noqa: BLE001
                    uw = f"calc_width raised {type(e).__name__}"
                ow = 0
                for _a, cs, t in row:
                    sw = own_segment_width(cs, t, mode) if isinstance(t, bytes) else None
                    if sw is None:
                        ow = None
                        break
                    ow += sw
                if uw != cols or ow != cols:
                    bad.append(f"row {i} {[(c, t) for _a, c, t in row]!r}: calc_width {uw}, own width {ow if ow is not None else 'undisplayable bytes'}, canvas.cols() = {cols}")
                    if len(bad) >= 3:
                        break
    res["rows-rectangular"] = (not bad, "; ".join(bad))

    cur = canv.cursor
    obs["cursor"] = list(cur) if cur is not None else None
    if cur is None:
        res["cursor-inside"] = (True, "", False)
    else:
        try:
            x, y = cur
            ok = isinstance(x, int) and isinstance(y, int) and 0 <= x < cols and 0 <= y < rows
        except Exception:  # noqa: BLE001
            ok = False
        res["cursor-inside"] = (ok, f"cursor {cur!r} outside the {cols} x {rows} canvas", True)

    if size:
        try:
            w.pack(size, focus)
            res["pack-succeeds"] = (True, "")
        except Exception as e:  # noqa: BLE001
            res["pack-succeeds"] = (False, f"pack({size}, {focus}) raised {_exc(e)}")
    return res, obs


def _with_encoding(enc, fn):
    old = get_encoding()
    try:
        with warnings.catch_warnings():
            warnings.simplefilter("ignore")
            set_encoding(enc)
            CanvasCache.clear()
            return fn()
    finally:
        set_encoding(old)
        CanvasCache.clear()


def detail(expr, enc, size, focus, clause, why, obs):
    d = {"expr": expr, "enc": enc, "size": list(size), "focus": focus, "clause": clause, "why": why}
    d.update(obs)
    # Triage: fields for the known-finding matcher, which reaches the detail by attribute access only (so 'pack()'
    # and 'rows()' get identifier names) and needs the tree shape apart from the option values.
    names = re.findall(r"\b([A-Za-z_][A-Za-z0-9_]*)\(", expr)
    d.update(mode=_mode_of(size), root=names[0] if names else "", classes=names, pack=obs.get("pack()"), rows_calc=obs.get("rows()"))
    for k in ("exc", "at", "step", "msg", "canvas", "cursor"):
        d.setdefault(k, None)
    call = f"w.render({tuple(size)!r}, {focus})"
    d["repro"] = f"import urwid; from urwid import *; from bounded.C01 import *; urwid.set_encoding({enc!r}); w = {expr}; print(w.sizing()); c = {call}; print(c.cols(), c.rows(), c.cursor, list(c.content()))"
    return d


# ------------------------------------------------------------------------------------------------
# tallies (mergeable across processes; failures grouped by kind, smallest case of each kind kept)
# ------------------------------------------------------------------------------------------------
def _classes(expr):
    return ">".join(re.findall(r"\b([A-Za-z_][A-Za-z0-9_]*)\(", expr))


def _signature(d):
    why = d["why"]
    why = re.sub(r"b?'[^']*'|b?\"[^\"]*\"|[0-9]+", "#", why)
    why = re.sub(r"<[^>]*>", "<w>", why)
    why = re.sub(r", (True|False)\)", ", F)", why)
    return f"{d['clause']}|{_classes(d['expr'])}|{_mode_of(d['size'])}|{why[:90]}"


def _smallness(d):
    return (len(d["expr"]), sum(d["size"]), d["expr"], d["size"], d["focus"], d["enc"])


class Tally:
    def __init__(self):
        self.ev = 0
        self.nt = 0
        self.failed = 0
        self.by_sig = {}
        self.samples = []

    def case(self, ok, detail_fn, nontrivial=True, sample=None):
        self.ev += 1
        if nontrivial:
            self.nt += 1
            if sample is not None and len(self.samples) < 3:
                self.samples.append(sample)
        if not ok:
            self.failed += 1
            d = detail_fn()
            self._add(_signature(d), 1, d)

    def _add(self, sig, count, d):
        cur = self.by_sig.get(sig)
        if cur is None:
            if len(self.by_sig) < 3000:
                self.by_sig[sig] = [count, d]
            return
        cur[0] += count
        if _smallness(d) < _smallness(cur[1]):
            cur[1] = d

    def merge(self, other):
        self.ev += other.ev
        self.nt += other.nt
        self.failed += other.failed
        for sig, (count, d) in other.by_sig.items():
            self._add(sig, count, d)
        self.samples = (self.samples + other.samples)[:3]

    def _coarse(self):
        """(clause, innermost-to-outermost class at fault guess, reason shape) -> [count, smallest detail]."""
        agg = {}
        for sig, (count, d) in self.by_sig.items():
            clause, _classes_, mode, why = sig.split("|", 3)
            key = f"{clause} | {mode} | {why}"
            cur = agg.get(key)
            if cur is None:
                agg[key] = [count, d]
            else:
                cur[0] += count
                if _smallness(d) < _smallness(cur[1]):
                    cur[1] = d
        return agg

    @property
    def failures(self):
        """At most 20: the smallest case of each reason shape first, then further class combinations."""
        coarse = sorted(self._coarse().items(), key=lambda kv: _smallness(kv[1][1]))
        first = [dict(d, same_kind_failures=c) for _k, (c, d) in coarse]
        seen = {(d["expr"], tuple(d["size"]), d["focus"], d["enc"], d["clause"]) for d in first}
        rest = []
        for _sig, (c, d) in sorted(self.by_sig.items(), key=lambda kv: _smallness(kv[1][1])):
            k = (d["expr"], tuple(d["size"]), d["focus"], d["enc"], d["clause"])
            if k not in seen:
                seen.add(k)
                rest.append(dict(d, same_kind_failures=c))
        return (first + rest)[:20]

    @property
    def summary(self):
        """reason shape -> {count, smallest example} (all class combinations together; the 80 most frequent)."""
        out = {}
        for k, (c, d) in sorted(self._coarse().items(), key=lambda kv: -kv[1][0])[:80]:
            out[k] = {"count": c, "smallest": f"[{d['enc']}] {d['expr']} @ {tuple(d['size'])} focus={d['focus']}"}
        return out


class MergedCheck(Check):
    def __init__(self, name, rule, exhaustive, bound, tally, wall):
        super().__init__(name, rule, exhaustive, bound)
        self.tally = tally
        self.wall = wall

    def result(self):
        r = super().result()
        r.update(evaluations=self.tally.ev, distinct_nontrivial=self.tally.nt, failures=self.tally.failures, samples=self.tally.samples, wall_s=round(self.wall, 2), failed_evaluations=self.tally.failed, failure_kinds=len(self.tally.by_sig), failure_summary=self.tally.summary)
        return r


# ------------------------------------------------------------------------------------------------
# tree enumeration: expressions, generated per encoding mode (bytes texts are encoding-specific)
# ------------------------------------------------------------------------------------------------
def _kw(**domains):
    """Full product of keyword options; a value of `...` means 'leave the default'. Yields ', k=v' strings."""
    keys = list(domains)
    for combo in itertools.product(*(domains[k] for k in keys)):
        yield "".join(f", {k}={v!r}" for k, v in zip(keys, combo) if v is not ...)


def lit(s):
    """Python literal for a text, with zero-width characters escaped (readable in reports)."""
    if isinstance(s, bytes):
        return repr(s)
    out = []
    for ch in s:
        if ch in "'\\":
            out.append("\\" + ch)
        elif ch.isprintable() and not unicodedata.combining(ch):
            out.append(ch)
        else:
            out.append(ch.encode("unicode_escape").decode("ascii"))
    return "'" + "".join(out) + "'"


TRAILING_NL = ["ab\n", "a\nb\n\n", "\n", "中\n"]


def trailing_newline_trees():
    """Depth-2 family `Trailing-newline` (seed C01-e2): decorations / containers that size a FIXED (or 'pack'ed) child by
    its pack(), over Text whose content ends in one / two line breaks (str, wide, bytes, lone newline)."""
    out = []
    for t in ("'ab\\n'", "'a\\nb\\n\\n'", "'\\n'", "'中\\n'", "b'ab\\n'", "b'a\\n\\n'"):
        T = f"Text({t})"
        out += [
            f"Padding({T}, 'left', 'pack')",
            f"Padding({T}, 'center', 'clip')",
            f"AttrMap({T}, 'a')",
            f"WidgetWrap({T})",
            f"Columns([('pack', {T}), Text('x\\n')])",
            f"Pile([('pack', {T}), ('pack', Text('-'))])",
            f"Pile([{T}, Text('-')])",
            f"LineBox({T})",
            f"Filler({T}, 'top', 'pack')",
            f"Button({t})",
            f"SelectableIcon({t}, 1)",
        ]
        # (a lone line break packs to 0 columns x 2 rows: as a 'pack' column of a fixed Columns it is the hidden
        # zero-width column of C01-KF2 -- pack(()) counts its 2 rows, render(()) hides it: matched by that known finding)
        out.append(f"Columns([('pack', {T}), ('pack', Text('|'))])")
    return out


def texts(enc, mode, thorough):
    """Text literals (python source) for the mode: ASCII, double-width CJK, zero-width combining, DEC
    line-drawing, str and bytes; str texts that the target encoding cannot represent are kept (they are
    rendered with replacement characters)."""
    strs = ["", "a", "ab cd", "中", "a中b", "e\u0301x", "\u0301", "a\nbc", "┌─┐x"]
    # Strengthened (seed C01-e2): texts ENDING in one and in two line breaks and a lone line break, str and bytes -- the
    # last display row is then empty and FIXED sizing (pack(())) has to count it like render(()) does; no text of the
    # first alphabet ended in a newline (quick had "a\nbc" only)
    strs += TRAILING_NL
    if thorough:
        strs += ["abcdefgh", "中文字", " a ", "a\u0301\u0302中 b\n\u0301", "中\n\n\n", "\n\n"]
    out = [lit(s) for s in strs]
    byt = [b"a", b"ab cd", b"\x0eqx\x0fy", b"ab\n", b"a\n\n", b"\n"]
    for s in ("中", "a中b", "e\u0301x", "\u0301", "\xe9t\xe9") + (("中文字", "a\u0301\u0302中 b\n\u0301") if thorough else ()):
        try:
            b = s.encode(enc)
        except UnicodeEncodeError:
            continue
        if mode == "wide" and (b"\x8e" in b or b"\x8f" in b):
            continue  # EUC-JP single-shift sequences (3-byte JIS X 0212, half-width kana): urwid documents "JISX 0208 only"
        byt.append(b)
    out += [repr(b) for b in byt]
    return out


def one_column(ch):
    """Triage (generator false alarm): Divider's div_char, SolidFill's fill_char, LineBox's line characters and
    ScrollBar's thumb/trough characters are *fill characters*: urwid repeats them once per column and SolidCanvas
    documents-by-rejection ("Invalid fill_char") anything that is not exactly one screen column wide.  The first
    version generated '\u4e2d' (two columns) and '\u0301' (zero columns) for them and reported the deliberate ValueError
    as a render failure; such arguments are outside the statement's quantifier ("the bundled widgets' documented
    option values").  Wide and zero-width characters stay covered everywhere a *text* is accepted (Text, Edit,
    labels, titles, LineBox corners, BigText, GraphVScale labels ...)."""
    if isinstance(ch, bytes):
        return len(ch) == 1 and 0x20 <= ch[0] < 0x7F
    return len(ch) == 1 and own_char_width(ch) == 1


GRAPH_LABELS = (
    "[]",
    "[(1, 'a')]",
    "[(5, '5'), (2, '中'), (0, '0')]",
    "[(9, 'toolong')]",
    "[(1, 'ab cd ef')]",  # wraps at widths < 8, drawn in the last rows
    "[(8, 'top'), (1, 'ten percent')]",
    "[(4, 'a\\nb\\nc'), (3, 'x'), (1, 'yz')]",  # a multi-line label covering the positions of the next ones
    "[(2, '中文字'), (1, 'x')]",
    "[(3, 'e\\u0301e\\u0301 x'), (0.5, b'ab cd')]",
    "[(1, [('x', 'ab'), ' cd'])]",
    "[(4, 'abcdefgh'), (2, 'ab cd')]",
)
WRAPS = ("space", "any", "clip", "ellipsis")
ALIGNS = ("left", "center", "right")
FONTS = ("Thin3x3Font", "Thin4x3Font", "Thin6x6Font", "HalfBlock5x4Font", "HalfBlock6x5Font", "HalfBlockHeavy6x5Font", "HalfBlock7x7Font", "Sextant2x2Font", "Sextant3x3Font")


def leaves(enc, mode, thorough):
    """family name -> list of leaf expressions (depth 1)."""
    T = texts(enc, mode, thorough)
    fam = {}
    fam["Text"] = [f"Text({t}, align={a!r}, wrap={w!r})" for t in T for w in WRAPS for a in ALIGNS]
    fam["Text-markup"] = [f"Text([('x', {t}), {u}], wrap={w!r})" for t, u in (("'a'", "'中b'"), ("'中'", "'\\u0301'"), ("''", "'a b'")) for w in WRAPS]
    caps = ["''", "'c'", "'中'"] + (["'e\\u0301'", "'a\\n'"] if thorough else [])
    etexts = ["''", "'ab'", "'a中'", "'a\\nb'", "'e\\u0301'"] + (["'ab cd ef'", "'中文'", "'\\u0301'"] if thorough else [])
    ed = []
    for c in caps:
        for t in etexts:
            n = len(eval(t))  # noqa: S307
            for pos in sorted({0, n, n // 2}):
                for opts in _kw(multiline=(..., True), wrap=WRAPS, align=ALIGNS if thorough else ("left", "right"), mask=(..., "*") if thorough else (...,)):
                    ed.append(f"Edit({c}, {t}, edit_pos={pos}{opts})")
    ed += [f"Edit('', {t}, mask='*', wrap={w!r})" for t in etexts for w in WRAPS]
    ed += [f"Edit('', b'ab', wrap={w!r})" for w in WRAPS]
    fam["Edit"] = ed
    fam["NumEdit"] = [f"{c}({cap}, {d})" for c in ("IntEdit", "IntegerEdit", "FloatEdit") for cap in ("''", "'n:'", "'中'") for d in ("None", "0", "123456")] + ["FloatEdit('f', '1.5', preserveSignificance=True, decimalSeparator=',')", "IntegerEdit('h', 255, base=16)"]
    fam["Divider"] = [f"Divider({lit(ch)}{o})" for ch in (" ", "-", "─", "中", "\u0301", b"-") if one_column(ch) for o in _kw(top=(..., 1, 2), bottom=(..., 1))] + ["Divider()"]
    fam["SolidFill"] = [f"SolidFill({lit(ch)})" for ch in (" ", "x", "─", "中", "\u0301") if one_column(ch)] + ["SolidFill()"]
    fam["SelectableIcon"] = [f"SelectableIcon({t}, {p}{o})" for t in T[: 9 if not thorough else len(T)] for p in (0, 1, 5) for o in _kw(align=(..., "right"), wrap=(..., "clip", "any"))]
    labels = ["''", "'ok'", "'a中b'", "'e\\u0301'", "'ab cd ef'", "b'by'"]
    fam["Button"] = [f"Button({t}{o})" for t in labels for o in _kw(align=ALIGNS, wrap=WRAPS)]
    fam["CheckBox"] = [f"CheckBox({t}, {s}, has_mixed=True)" for t in labels for s in ("False", "True", "'mixed'")] + [f"RadioButton([], {t}, {s})" for t in labels for s in ("False", "True", "'first True'")]
    fam["BigText"] = [f"BigText({t}, {f}())" for f in FONTS for t in ("''", "'1'", "'ab'", "'中'", "'a\\nb'", "' '", "[('x', 'a'), 'b']")]
    fam["ProgressBar"] = [f"ProgressBar('n', 'c', {cur}, {done}{o})" for cur in (0, 1, 33, 50, 99, 100, 150, -5) for done in (100, 3) for o in _kw(satt=(..., "s"))] + ["ProgressBar(None, None)"]
    datas = ["[]", "[[1]]", "[[1], [2], [3]]", "[[0], [5], [2], [9], [4], [4], [1]]", "[[4, 2], [3, 1]]"]
    fam["BarGraph"] = [
        f"bar_graph({d}, {top}{o}{', nseg=2' if '4, 2' in d else ''})"
        for d in datas
        for top in (1, 5, 9)
        for o in _kw(hlines=(..., [1], [4, 2]) if thorough else (..., [4, 2]), bar_width=(..., 1, 2, 7) if thorough else (..., 1, 2), satt=(..., {(1, 0): "x"}))
    ]
    # Strengthened (seed C01-a1): labels are Text widgets rendered at the scale's width, so a label *wraps* at the narrow
    # widths of the scope; a label near the bottom then runs past the last row (render must cut it), a label in the
    # middle runs over the positions of the labels below it (they are skipped).  Added: multi-word, multi-line, wide,
    # zero-width, bytes and markup labels at low / middle / high positions (the documented range is 0 < position < top;
    # the first generator only had one-row labels inside the range, and 'toolong' sat at position == top, never drawn).
    fam["GraphVScale"] = [f"GraphVScale({lab}, {top})" for lab in GRAPH_LABELS for top in (1, 5, 9)]
    # ProgressBar's text is "NN %" unless get_text() is overridden ("You can override this method to display custom
    # text"): ASCII custom texts longer than the narrow widths (clipped) here; non-ASCII / multi-line ones in their own
    # family, see INFORMATIONAL
    fam["ProgressBar-text"] = [f"progress_text({t}, {cur}, 100{o})" for t in ("''", "'Did 3 of 10'", "'ab'") for cur in (0, 33, 100) for o in _kw(satt=(..., "s"), align=(..., "left"))]
    fam["ProgressBar-text-nonascii"] = [f"progress_text({t}, {cur}, 100{o})" for t in ("'中文字'", "'e\\u0301x'", "'a\\nb'") for cur in (0, 33, 100) for o in _kw(satt=(..., "s"))]
    fam["TreeListBox"] = [f"tree_list_box({lab}, {k}, {d})" for lab in ("'r'", "'中'", "'abcdefg'") for k in (0, 1, 3) for d in (0, 1, 2) if thorough or not (k == 3 and d == 2 and lab != "'r'")]  # triage: the 13-node trees once per quick run (run time)
    return fam


# representative children (name -> expression); chosen to cover flow / box / fixed / selectable /
# cursor / wide / zero-width / empty / nested-container-inside (Button and CheckBox are Columns inside)
def child_pool(mode, thorough):
    pool = {
        "text": "Text('ab cd')",
        "wide": "Text('a中b', wrap='any')",
        "zw": "Text('\\u0301', wrap='clip')",
        "empty": "Text('')",
        "edit": "Edit('c', 'ab')",
        "div": "Divider('─')",
        "solid": "SolidFill('x')",
        "big": "BigText('1', Thin3x3Font())",
        "button": "Button('ok')",
        "pbar": "ProgressBar('n', 'c', 50)",
        "lbox": "list_box([Text('a'), Edit('', 'b')])",
    }
    if thorough:
        pool.update(
            {
                "right": "Text('ab\\ncdefgh', align='right', wrap='ellipsis')",
                "bytes": "Text(b'a\\x0eq\\x0f')",
                "editclip": "Edit('', 'abcdefgh', wrap='clip', edit_pos=8)",
                "check": "CheckBox('中', True)",
                "graph": "bar_graph([[1], [2]], 3)",
                "icon": "SelectableIcon('ab', 5)",
            }
        )
    return pool


FLOWISH = ("text", "wide", "zw", "empty", "edit", "div", "button", "pbar", "right", "bytes", "editclip", "check", "icon")
BOXISH = ("solid", "lbox", "graph")


def _diag(*domains, extra=()):
    """A covering (not full) combination of option domains: every value of every domain appears, and every
    pair of values of the first two domains appears; used by the quick tier only."""
    a, b, *rest = domains
    out = []
    n = 0
    for x in a:
        for y in b:
            out.append((x, y, *(d[n % len(d)] for d in rest)))
            n += 1
    return out


def _six(C):
    """text, wide text, Edit (cursor), SolidFill (box), BigText (fixed), ListBox -- see child_pool's order."""
    return [C[i] for i in (0, 1, 4, 6, 7, 10)]


def decorations(children, lvl):
    """family -> expressions wrapping each of `children` (expressions).
    lvl 0: a few option sets (outer level of the depth-3 sample); 1: quick (covering sets); 2: thorough (full product)."""
    fam = {}
    C = list(children)
    fam["AttrMap"] = [f"AttrMap({c}, 'a', 'f')" for c in C] + [f"AttrMap({c}, {{None: 'a'}})" for c in C[:3]]
    fam["AttrWrap"] = [f"AttrWrap({c}, 'a')" for c in C]
    fam["Placeholder"] = [f"{k}({c})" for k in ("WidgetPlaceholder", "WidgetDisable", "WidgetWrap", "PopUpLauncher", "PopUpTarget") for c in C]
    fam["BoxAdapter"] = [f"BoxAdapter({c}, {h})" for c in C for h in ((1, 2, 3, 5) if lvl else (2,))]
    aligns = ("left", "center", "right", ("relative", 30))
    widths = (3, "pack", ("relative", 50), "clip")
    if lvl == 0:
        pad = ["", ", 'center', 3", ", 'right', 'pack'", ", ('relative', 30), ('relative', 50), 2, 1, 1", ", 'left', 'clip'"]
    pad_cov = [""] + [f", {a!r}, {w!r}{o}" for a, w, o in _diag(aligns, widths, ("", ", min_width=2", ", left=1, right=1", ", left=2", ", min_width=2, left=2, right=1"))]
    pad_cov += [f", {a!r}, {w!r}, left=7" for a, w in (("left", 3), ("center", "pack"), ("right", ("relative", 50)))]
    if lvl == 1:
        pad = pad_cov
    if lvl < 2:
        fam["Padding"] = [f"Padding({c}{p})" for c in C for p in pad]
    else:  # full product on six children (flow/wide/cursor/box/fixed/listbox), the covering set on all
        pad = [f", {a!r}, {w!r}{o}" for a in (*aligns, ("relative", 100)) for w in (*widths, 1, 8) for o in _kw(min_width=(..., 2), left=(..., 1, 7), right=(..., 1))]
        fam["Padding"] = [f"Padding({c}{p})" for c in _six(C) for p in pad] + [f"Padding({c}{p})" for c in C for p in pad_cov]
    valigns = ("top", "middle", "bottom", ("relative", 30))
    heights = ("pack", None, 2, ("relative", 50))
    if lvl == 0:
        fil = ["", ", 'top'", ", 'bottom', 2", ", ('relative', 30), ('relative', 50), 2, 1, 1", ", 'middle', None"]
    fil_cov = [""] + [f", {v!r}, {h!r}{o}" for v, h, o in _diag(valigns, heights, ("", ", min_height=2", ", top=1, bottom=1", ", top=1", ", min_height=2, bottom=1"))]
    fil_cov += [f", {v!r}, {h!r}, top=5" for v, h in (("top", 2), ("middle", "pack"), ("bottom", ("relative", 50)))]
    if lvl == 1:
        fil = fil_cov
    if lvl < 2:
        fam["Filler"] = [f"Filler({c}{f})" for c in C for f in fil]
    else:
        fil = [f", {v!r}, {h!r}{o}" for v in (*valigns, ("relative", 100)) for h in ("pack", 2, ("relative", 50), 1, 7, ("relative", 100)) for o in _kw(min_height=(..., 2), top=(..., 1, 5), bottom=(..., 1))]
        fam["Filler"] = [f"Filler({c}{f})" for c in _six(C) for f in fil] + [f"Filler({c}{f})" for c in C for f in fil_cov]
    if lvl == 0:
        lb = ["", ", 'T'", ", tline='', lline=''"]
    else:
        # Triage (run time only, quick tier must stay < 45 s on a busy machine): the covering level pairs every title with one
        # alignment (every title and every alignment still appear); the full product stays in the thorough tier
        lb = [""] + [f", {t!r}, {a!r}" for i, t in enumerate(("T", "中", "long title")) for j, a in enumerate(ALIGNS) if lvl == 2 or i == j]
        lb += [", tline=''", ", bline=''", ", lline=''", ", rline=''", ", tline='', bline=''", ", lline='', rline=''", ", tline='', bline='', lline='', rline=''", ", 'T', tline=''", ", 'T', lline='', rline=''"]
        # corners are Text widgets (any text); tline/bline/lline/rline are fill characters (see `one_column`): a wide
        # character is generated for the corners only, a one-column non-ASCII one for the lines
        lb += [", tlcorner='中', trcorner='中', blcorner='中', brcorner='中'", ", tline='═', lline='║', rline='║', bline='═'"]
    fam["LineBox"] = [f"LineBox({c}{o})" for c in C for o in lb]
    sb = ("", ", side='left'", ", width=2", ", thumb_char='#'") if lvl else ("",)  # thumb_char is a fill character (see `one_column`); was '中'
    fam["Scrollable"] = [f"Scrollable({c})" for c in C] + [f"ScrollBar(Scrollable({c}){o})" for c in C for o in sb]
    fam["ScrollBar"] = [f"ScrollBar({c}{o})" for c in C for o in (("", ", side='left', width=3") if lvl else ("",))]
    return fam


def pile_items(children, given=(2,), weights=(2,), zero_weight=False):
    """Every way of putting a child into a Pile/Columns: bare (= weight 1), pack, given, weight."""
    out = []
    for c in children:
        out.append(c)
        out.append(f"('pack', {c})")
        for g in given:
            out.append(f"({g}, {c})")
        for wt in weights:
            out.append(f"('weight', {wt}, {c})")
        if zero_weight:
            out.append(f"('weight', 0, {c})")
    return out


SECOND = ("Text('ab cd')", "('pack', Text('ab cd'))", "(2, SolidFill('x'))", "('weight', 2, SolidFill('x'))", "('pack', BigText('1', Thin3x3Font()))", "Edit('c', 'ab')")


def containers(children, flow_children, box_children, lvl):
    """family -> container expressions over `children` (expressions); lvl as in `decorations`."""
    fam = {}
    C = list(children)
    copts = ("", ", dividechars=1", ", box_columns=[0]", ", dividechars=1, box_columns=[1], focus_column=1", ", min_width=3")
    if lvl < 2:
        items = pile_items(C)
        second = SECOND if lvl else SECOND[:4]
        pairs = [(a, b) for a in items for b in second]
        fam["Pile"] = ["Pile([])"] + [f"Pile([{a}])" for a in items] + [f"Pile([{a}, {b}])" for a, b in pairs] + [f"Pile([{b}, {a}], focus_item=1)" for a, b in pairs[:: 2 if lvl else 3]]
        fam["Columns"] = ["Columns([])"] + [f"Columns([{a}]{o})" for a in items for o in (("", ", box_columns=[0]") if lvl else ("",))]
        fam["Columns"] += [f"Columns([{a}, {b}]{copts[(i + j) % len(copts)]})" for i, (a, b) in enumerate(pairs) for j in ((0, 3) if lvl else (1,))]  # triage: was (0, 1, 3); every option set still meets every slot kind (i varies), run time only
        fam["Columns"] += [f"Columns([{b}, {a}]{copts[i % len(copts)]})" for i, (a, b) in enumerate(pairs[:: 2 if lvl else 3])]
        if lvl:
            triples = [(a, b, c) for a in items[::4] for b in items[1::7] for c in items[::13]]  # triage: was [::9]; run time of the quick tier only
            fam["Pile3"] = [f"Pile([{a}, {b}, {c}])" for a, b, c in triples]
            fam["Columns3"] = [f"Columns([{a}, {b}, {c}], dividechars={i % 2})" for i, (a, b, c) in enumerate(triples)]
    else:
        # every ordered pair of (slot kind x child) over the 11 core children (5 slot kinds incl. weight 0); the 6 extra
        # children paired with SECOND in both orders; Columns options cycled over all pairs and in full product with SECOND
        items = pile_items(C[:11], zero_weight=True)
        extra = pile_items(C[11:])
        xpairs = [(a, b) for a in extra for b in SECOND]
        fam["Pile"] = ["Pile([])"] + [f"Pile([{a}])" for a in items + extra] + [f"Pile([{a}, {b}])" for a in items for b in items]
        fam["Pile"] += [f"Pile([{b}, {a}], focus_item=1)" for a in items for b in SECOND] + [f"Pile([{a}, {b}])" for a, b in xpairs] + [f"Pile([{b}, {a}], focus_item=1)" for a, b in xpairs]
        triples = [(a, b, c) for a in items[::3] for b in items[1::5] for c in items[::11]]
        fam["Pile3"] = [f"Pile([{a}, {b}, {c}])" for a, b, c in triples]
        fam["Columns"] = ["Columns([])"] + [f"Columns([{a}]{o})" for a in items + extra for o in _kw(box_columns=(..., [0]), min_width=(..., 3))]
        fam["Columns"] += [f"Columns([{a}, {b}]{copts[(i + i // 55) % len(copts)]})" for i, (a, b) in enumerate((a, b) for a in items for b in items)]
        fam["Columns"] += [f"Columns([{a}, {b}]{o})" for a in items for b in SECOND for o in _kw(dividechars=(..., 1), box_columns=(..., [0], [1], [0, 1]))]
        fam["Columns"] += [f"Columns([{b}, {a}]{o}, focus_column=1)" for a in items for b in SECOND for o in _kw(dividechars=(..., 3), box_columns=(..., [1]), min_width=(..., 3))]
        fam["Columns"] += [f"Columns([{a}, {b}]{copts[i % len(copts)]})" for i, (a, b) in enumerate(xpairs)] + [f"Columns([{b}, {a}]{copts[i % len(copts)]})" for i, (a, b) in enumerate(xpairs)]
        fam["Columns3"] = [f"Columns([{a}, {b}, {c}], dividechars={i % 2})" for i, (a, b, c) in enumerate(triples)]
    # Strengthened (seed C01-a2): ('weight', 0, w) items.  The first generator had them in the thorough tier only (inside
    # the Pile/Columns products); they are the option value for which Pile and Columns have separately coded paths
    # (rows()/get_item_rows vs get_rows_sizes/render vs the fixed-size calculations: "zero-weighted items treated as
    # ('given', 0)" in a box Pile, "the same as ('pack', widget)" in a flow Pile, a hidden column in Columns), so every
    # tier now has its own families: every pool child in a zero-weight slot, alone, before and after each SECOND
    # item (pack / given / weight / fixed / cursor neighbours), and between a weighted and a packed flow item.
    Z = [f"('weight', 0, {c})" for c in (C if lvl else C[:2] + C[4:7])]
    second = SECOND if lvl else SECOND[:3]
    zpairs = [(a, b) for a in Z for b in second]
    fam["Pile-weight0"] = [f"Pile([{a}])" for a in Z] + [f"Pile([{a}, {b}])" for a, b in zpairs] + [f"Pile([{b}, {a}], focus_item=1)" for a, b in zpairs[:: 2 if lvl else 3]]
    fam["Columns-weight0"] = [f"Columns([{a}])" for a in Z] + [f"Columns([{a}, {b}]{copts[i % len(copts)]})" for i, (a, b) in enumerate(zpairs)]
    fam["Columns-weight0"] += [f"Columns([{b}, {a}]{copts[(i + 1) % len(copts)]})" for i, (a, b) in enumerate(zpairs[:: 2 if lvl else 3])]
    if lvl:
        fam["Pile-weight0"] += [f"Pile([('weight', 2, Text('ab cd')), {a}, ('pack', Edit('c', 'ab'))])" for a in Z] + [f"Pile([{a}, ('weight', 0, Text('ab cd')), Text('a中b', wrap='any')])" for a in Z]
        fam["Columns-weight0"] += [f"Columns([('weight', 2, Text('ab cd')), {a}, ('pack', Edit('c', 'ab'))], dividechars={i % 2})" for i, a in enumerate(Z)]
    # GraphVScale next to the BarGraph it belongs to and at heights its container decides (beyond the leaf sizes):
    # wrapping labels at the narrow given widths, scale heights 1..7
    if lvl:
        gl = GRAPH_LABELS[4:] if lvl == 1 else GRAPH_LABELS
        fam["GraphScale"] = [f"Columns([({w}, GraphVScale({lab}, 9)), bar_graph([[1], [5], [9]], 9, [4, 2])]{o})" for lab in gl for w, o in ((1, ""), (2, ", dividechars=1"), (3, ""))]
        fam["GraphScale"] += [f"BoxAdapter(GraphVScale({lab}, {top}), {h})" for lab in gl for top, h in ((9, 5), (5, 7), (9, 6) if lvl == 2 else (1, 2))]
        fam["GraphScale"] += [f"Pile([({h}, GraphVScale({lab}, 9)), Text('ab cd')])" for lab in gl for h in (2, 5)] + [f"LineBox(GraphVScale({lab}, 5))" for lab in gl]
    # Triage (thorough tier, tC01): three shapes that only the depth-3 *sample* reached (and only behind the 20 failures the
    # depth-3 check lists), made part of the enumerated bound in every tier so that what they show (known findings
    # C01-KF10 .. C01-KF13) is reproduced by every run instead of depending on the sample: a widget that reports
    # FIXED and BOX but not FLOW (an Overlay with 'pack' width) in a weighted column of a fixed-size Columns / LineBox; a
    # flow cell of a GridFlow that is a Pile with a given-height box item (such a Pile reports BOX, FLOW and FIXED); a
    # ListBox whose focus widget clips its child (Padding 'clip', a too-wide Overlay) so that the child's cursor is cut off.
    if lvl:
        ovp = ("'center', 'pack', 'middle', 'pack'", "'left', 'pack', 'top', 2", "('relative', 30), 'pack', 'bottom', ('relative', 50)")
        fam["Nested-extra"] = [f"Columns([Overlay({t}, SolidFill('.'), {o})])" for t in ("Text('ab')", "Edit('c', 'ab')") for o in ovp]
        fam["Nested-extra"] += [f"Columns([Overlay(Text('ab'), SolidFill('.'), {ovp[0]}), {b}], dividechars=1)" for b in ("('pack', Text('ab cd'))", "(2, Text('ab cd'))", "Text('ab cd')")]
        fam["Nested-extra"] += [f"LineBox(Overlay(Text('a中b', wrap='any'), SolidFill('.'), {o}))" for o in ovp[:2]]
        gp = ("Pile([Text('a'), (2, SolidFill('x'))])", "Pile([Edit('c', 'ab'), (2, SolidFill('x'))])", "Pile([('pack', Text('ab cd')), (2, SolidFill('x'))])")
        fam["Nested-extra"] += [f"GridFlow([{a}], 3, 1, 1, 'left')" for a in gp] + [f"GridFlow([{gp[0]}, {b}], 3, 1, 0, 'center')" for b in (*gp, "Text('ab cd')")]
        clipped = ("Padding(CheckBox('ab', True), 'right', 'clip')", "Padding(CheckBox('中', True), 'right', 'clip', min_width=2)", "Padding(Button('ok'), 'left', 'clip', left=2)", "Overlay(Edit('c', 'ab'), SolidFill('.'), 'center', 3, ('relative', 30), 'pack')")
        fam["Nested-extra"] += [f"list_box([{c}])" for c in clipped] + [f"list_box([Text('ab cd'), {c}], focus=1)" for c in clipped]
        # ... a ListBox whose focus widget is a Columns too narrow for its focus column (the column is hidden; repaired by the
        # fix "Columns.get_cursor_coords reports no cursor when the focus column is hidden", found by thorough seed 6 / quick seed 29)
        fam["Nested-extra"] += ["list_box([Columns([(2, Edit('c', 'ab'))])])", "list_box([Text('ab cd'), Columns([Edit('c', 'ab'), Edit('c', 'ab')], min_width=3)], focus=1)", "list_box([Columns([(2, Edit('c', 'ab')), ('pack', Text('ab cd'))], min_width=3), Text('ab cd')])"]
        # ... and (KF13) an Overlay with 'pack' width over a fixed widget that packs to 0 rows (a Pile of zero-weight items only)
        fam["Nested-extra"] += [f"Overlay(Pile([('weight', 0, Text('ab cd'))]), SolidFill('.'), {o})" for o in ovp[:2]]
    F = list(flow_children)
    cells = [[]] + [[a] for a in F] + [[a, b] for a in F for b in F[: 2 if lvl == 2 else 1]] + [[F[0], a, F[0], a, F[0]] for a in F[:4]]
    galign = ("left", "center", "right", ("relative", 30))
    if lvl == 0:
        fam["GridFlow"] = [f"GridFlow([{', '.join(cs)}], {cw}, 1, 1, 'center')" for cs in cells[::2] for cw in (1, 3)]
    elif lvl == 1:
        fam["GridFlow"] = [f"GridFlow([{', '.join(cs)}], {cw}, {hs}, {vs}, {al!r})" for cs in cells for cw, hs, vs, al in _diag((1, 3, 7), (0, 1), (0, 1, 1), galign)]
    else:
        fam["GridFlow"] = [f"GridFlow([{', '.join(cs)}], {cw}, {hs}, {(i + j) % 2}, {al!r})" for cs in cells for i, cw in enumerate((1, 3, 7, 10)) for hs in (0, 1) for j, al in enumerate(galign)]
        fam["GridFlow"] += [f"GridFlow([{', '.join(cs)}], 2, 3, 1, 'center')" for cs in cells]
    B = list(box_children)
    hf = ["None"] + F[: (4 if lvl < 2 else 6)]
    if lvl == 0:
        fam["Frame"] = [f"Frame({b}, {h}, {f})" for b in B for h in hf[:3] for f in hf[:2]]
    else:
        fam["Frame"] = [f"Frame({b}, {h}, {f}, {fp!r})" for b in B for h in hf for f in hf for fp in ("body", "header", "footer") if not (fp == "header" and h == "None") and not (fp == "footer" and f == "None")]
    oa = ("left", "center", "right", ("relative", 30))
    ow = (3, "pack", ("relative", 50), None)
    ovl = ("top", "middle", "bottom", ("relative", 30))
    oh = (2, "pack", ("relative", 50), None)
    if lvl == 0:
        ov = ["'center', 3, 'middle', 2", "'left', 'pack', 'top', 'pack'", "('relative', 30), ('relative', 50), ('relative', 30), ('relative', 50)", "'right', None, 'bottom', None"]
    else:
        ov = [f"{a!r}, {w!r}, {v!r}, {h!r}" for a in oa for w in ow for v in ovl for h in oh]
        ov += [f"{a!r}, 8, {v!r}, {h!r}" for a, v, h in _diag(oa, ovl, oh)] + [f"{a!r}, {w!r}, {v!r}, 7" for a, v, w in _diag(oa, ovl, ow)]
    ox = ("", "", ", min_width=2, min_height=2", "", ", left=2, right=1, top=1, bottom=2")
    ov_cov = [f"{a!r}, {w!r}, {v!r}, {h!r}{o}" for w, h, a, v, o in _diag(ow, oh, oa, ovl, ox)] + [f"{a!r}, {w!r}, {v!r}, {h!r}{o}" for a, v, w, h, o in _diag(oa, ovl, ow[1:] + ow[:1], oh[2:] + oh[:2], ox[1:] + ox[:1])]
    if lvl == 1:
        ov = ov_cov
    if lvl < 2:
        fam["Overlay"] = [f"Overlay({t}, SolidFill('.'), {o})" for t in C for o in ov]
    else:
        fam["Overlay"] = [f"Overlay({t}, SolidFill('.'), {o})" for t in C[:11] for o in ov] + [f"Overlay({t}, SolidFill('.'), {o})" for t in C[11:] for o in ov_cov]
        ovx = [f"{a!r}, {w!r}, {v!r}, {h!r}{o}" for w, h, a, v in _diag(ow, oh, oa, ovl) for o in _kw(min_width=(..., 2), min_height=(..., 2), left=(..., 2), bottom=(..., 2))]
        fam["Overlay"] += [f"Overlay({t}, SolidFill('.'), {o})" for t in _six(C) for o in ovx]
        fam["Overlay"] += [f"Overlay({t}, {b}, {o})" for t in C[:11] for b in ("Filler(Text('bottom'))", "list_box([Text('b')])") for o in ov_cov[::2]]
    lists = [[]] + [[a] for a in F] + [[a, b] for a in F[:5] for b in F[:5]] + [[F[0], a, F[0], a, F[0], a] for a in F[:4]]
    if lvl == 0:
        fam["ListBox"] = [f"list_box([{', '.join(ls)}])" for ls in lists[::2]]
    else:
        fam["ListBox"] = [
            f"list_box([{', '.join(ls)}]{o})"
            for ls in lists
            for o in _kw(focus=(..., *range(1, len(ls), 2)) if ls else (...,), valign=(..., "bottom", ("relative", 50)), walker=(..., "plain") if lvl == 2 else (...,))
        ]
    return fam


def _pools(mode, thorough):
    pool = child_pool(mode, thorough)
    return list(pool.values()), [pool[k] for k in FLOWISH if k in pool], [pool[k] for k in BOXISH if k in pool]


def enumerate_trees(enc, mode, tier):
    """-> (depth-1 families, depth-2 families): {family: [expression]}."""
    thorough = tier != "quick"
    d1 = leaves(enc, mode, thorough)
    C, F, B = _pools(mode, thorough)
    d2 = {}
    d2.update(decorations(C, 2 if thorough else 1))
    d2.update(containers(C, F, B, 2 if thorough else 1))
    d2["Trailing-newline"] = trailing_newline_trees()
    return d1, d2


def depth3_sample(enc, mode, tier, seed, count):
    """Seeded sample of depth-3 trees: a decoration or container (few option sets, lvl 0) whose first child is a
    depth-2 tree (quick: lvl-0 option sets, thorough: the quick tier's covering sets)."""
    thorough = tier != "quick"
    r = rng(seed)
    C, F, B = _pools(mode, thorough)
    inner = {}
    inner.update(decorations(C, 1 if thorough else 0))
    inner.update(containers(C, F, B, 1 if thorough else 0))
    inner.pop("Nested-extra", None)  # those trees are depth 3 already (and the sample stays what it was before the family existed)
    inner_all = sorted(e for v in inner.values() for e in v)
    out = []
    seen = set()
    fams = None
    tries = 0
    while len(out) < count and tries < count * 20:
        tries += 1
        kids = [inner_all[r.randrange(len(inner_all))] for _ in range(3)]
        outer = {}
        outer.update(decorations(kids[:1], 0))
        outer.update(containers([kids[0], kids[1]], [kids[0], kids[1], "Text('ab cd')"], [kids[0], kids[2], "SolidFill('x')"], 0))
        if fams is None:
            fams = sorted(outer)
        f = fams[r.randrange(len(fams))]
        cands = [e for e in outer[f] if kids[0] in e]
        if not cands:
            continue
        e = cands[r.randrange(len(cands))]
        if e not in seen:
            seen.add(e)
            out.append(e)
    return out


# ------------------------------------------------------------------------------------------------
# running
# ------------------------------------------------------------------------------------------------
AUX = "aux-reported-mode-of-illformed-tree"
PROBE = {"fixed": (), "flow": (3,), "box": (3, 2)}
# Triage: the auxiliary check is a reading beyond the statement.  The statement ranges over widget trees and over
# "the bundled widgets' documented option values"; a child put into a slot whose sizing mode it does not report
# (`Pile([(2, Text('x'))])`: "always treat widget as a box widget"; a flow Text as the box body of a Filler; a
# box widget in a 'pack' column ...) is a usage error by urwid's own documentation -- urwid answers most of them
# with a PileWarning/ColumnsWarning/OverlayWarning and a fall-back sizing() -- so what render() does with such a
# tree is outside the quantifier.  The probes are kept (reported as observations, never as violations) because a
# container that *silently* reports a mode it cannot render is still worth watching.
INFORMATIONAL = {
    f"C01/{AUX}": "literal reading beyond the statement: modes sizing() reports for trees that are ill-formed by urwid's documentation "
    "(a child in a slot whose sizing mode it does not report -- a usage error, mostly answered with a Pile/Columns/OverlayWarning); "
    "the statement quantifies over documented option values only",
}
# Strengthening (sC01): a ProgressBar *subclass* overriding get_text() with non-ASCII / multi-line text is beyond "widget
# trees built from the bundled widgets" (the bundled text is always "NN %"); what it shows on the unchanged tree
# (attribute runs counted in columns against text in bytes; a two-row canvas from a flow widget whose rows() is 1) is
# reported as an observation.  The ASCII custom texts (family ProgressBar-text) are judged by the main checks.
INFORMATIONAL.update({f"C01/{c}/ProgressBar-text-nonascii": "a ProgressBar subclass (get_text overridden) with non-ASCII / multi-line text: beyond the statement's 'bundled widgets'" for c in CLAUSES})
REPORT_ILLFORMED = True  # set to False to drop the auxiliary (literal-reading) check from the results


def sizes_for(M, maxc, maxr):
    if M == "fixed":
        return [()]
    if M == "flow":
        return [(c,) for c in range(1, maxc + 1)]
    return [(c, r) for c in range(1, maxc + 1) for r in range(1, maxr + 1)]


def run_tree(expr, enc, mode, maxc, maxr, tallies, single=False, stats=None, both_focus=True):
    """All sizes x focus for one tree under one encoding (must be called with the encoding set).
    `tallies`: clause -> Tally (+ AUX); when `single` (depth-3) the clauses go to tallies['d3'], first failing clause."""
    stats = stats if stats is not None else {}

    def bump(k):
        stats[k] = stats.get(k, 0) + 1

    try:
        code = compile(expr, "<tree>", "eval")
        w = eval(code, NS)  # noqa: S307
    except Exception as e:  # noqa: BLE001  -- constructor refused: not a tree
        bump("unbuildable")
        stats.setdefault("unbuildable_samples", [])
        if len(stats["unbuildable_samples"]) < 5:
            stats["unbuildable_samples"].append(f"{expr}: {type(e).__name__}: {str(e)[:80]}")
        return
    try:
        verdicts = [(M, *well_formed(w, M)) for M in ("fixed", "flow", "box") if M in _S(w)]
    except Exception as e:  # noqa: BLE001
        why = f"sizing() raised {_exc(e)}"
        t = tallies["d3"] if single else tallies["render-succeeds"]
        t.case(False, lambda: detail(expr, enc, (), False, "render-succeeds", why, {}), True, None)
        return
    bump("trees")
    if not any(ok for _M, ok, _why in verdicts):
        bump("trees_without_wellformed_mode")
    for M, ok, ill in verdicts:
        if not ok:
            bump("illformed_tree_modes")
            if REPORT_ILLFORMED:
                for focus in (False, True):
                    CanvasCache.clear()
                    res, obs = judge(code, mode, PROBE[M], focus)
                    bad = [(c, r[1]) for c, r in res.items() if not r[0]]
                    tallies[AUX].case(not bad, lambda: detail(expr, enc, PROBE[M], focus, bad[0][0], f"[{ill}] {bad[0][1]}", obs), True, {"expr": expr, "enc": enc, "mode": M})  # noqa: B023
            continue
        bump("wellformed_tree_modes")
        # quick tier: focus=True only where it can matter to geometry (a selectable widget in the tree)
        foci = (False, True) if both_focus or w.selectable() else (False,)
        for size in sizes_for(M, maxc, maxr):
            for focus in foci:
                CanvasCache.clear()
                res, obs = judge(code, mode, size, focus)
                sample = {"expr": expr, "enc": enc, "size": list(size), "focus": focus}
                if single:
                    bad = [(c, r[1]) for c, r in res.items() if not r[0]]
                    tallies["d3"].case(not bad, lambda: detail(expr, enc, size, focus, bad[0][0], bad[0][1], obs), True, sample)  # noqa: B023
                    continue
                for clause, r in res.items():
                    nontrivial = r[2] if len(r) > 2 else True
                    tallies[clause].case(r[0], lambda: detail(expr, enc, size, focus, clause, r[1], obs), nontrivial, sample)  # noqa: B023


def _task(args):
    kind, fam, ei, exprs, maxc, maxr, both_focus = args
    enc, mode = ENCODINGS[ei]
    stats = {}
    tallies = {c: Tally() for c in (*CLAUSES, AUX, "d3")}

    def body():
        for e in exprs:
            run_tree(e, enc, mode, maxc, maxr, tallies, single=(kind == "d3"), stats=stats, both_focus=both_focus)

    _with_encoding(enc, body)
    return kind, fam, tallies, stats


# Triage: Frame, Scrollable and TreeListBox added (run time of the quick tier only: they are the next most expensive families and,
# like the others, are built from ASCII children whose rendering does not depend on the encoding; UTF-8 stays complete)
BIG = ("Pile", "Pile3", "Columns", "Columns3", "Pile-weight0", "Columns-weight0", "Overlay", "Padding", "Filler", "GridFlow", "ListBox", "LineBox", "BarGraph", "Edit", "Frame", "Scrollable", "TreeListBox")


def _bounds(tier):
    """(leaf max cols, rows), (nested max cols, rows), depth-3 sample per encoding, stride of the big families
    in the two non-UTF-8 encodings (quick: every third tree, thorough: every second, offset by the encoding;
    all leaf families except -- in quick -- Edit and BarGraph are complete in all three encodings)."""
    if tier == "quick":
        return (6, 4), (5, 3), 60, 3
    return (6, 4), (6, 4), 1000, 2


def _plan(tier, seed):
    leaf_sz, nest_sz, n3, stride = _bounds(tier)
    tasks = []
    counts = {"d1": 0, "d2": 0, "d3": 0}
    fams = {"d1": set(), "d2": set()}
    for ei, (enc, mode) in enumerate(ENCODINGS):
        d1, d2 = enumerate_trees(enc, mode, tier)
        for kind, group in (("d1", d1), ("d2", d2)):
            for fam, exprs in group.items():
                fams[kind].add(fam)
                exprs = list(dict.fromkeys(exprs))
                if ei and stride > 1 and fam in BIG and (kind == "d2" or tier == "quick"):
                    exprs = exprs[ei % stride :: stride]
                counts[kind] += len(exprs)
                step = 40 if kind == "d1" else 12
                sz = leaf_sz if kind == "d1" else nest_sz
                for i in range(0, len(exprs), step):
                    tasks.append((kind, fam, ei, exprs[i : i + step], *sz, tier != "quick"))
        d3 = depth3_sample(enc, mode, tier, seed * 10 + ei, n3)
        counts["d3"] += len(d3)
        for i in range(0, len(d3), 8):
            tasks.append(("d3", "depth3", ei, d3[i : i + 8], *nest_sz, tier != "quick"))
    return tasks, counts, fams, (leaf_sz, nest_sz, n3, stride)


def run(tier="quick", seed=0):
    t0 = time.time()
    tasks, counts, fams, (leaf_sz, nest_sz, n3, stride) = _plan(tier, seed)
    # interleave heavy and light tasks deterministically; results are merged in task order
    procs = max(1, min(16, os.cpu_count() or 1))
    ctx = multiprocessing.get_context("fork")
    with ctx.Pool(procs) as pool:
        parts = pool.map(_task, tasks, chunksize=1)
    # Triage: the clause checks are reported per widget family ("C01/<clause>/<family>", the generator's own families)
    # instead of one check per clause over all trees.  Nothing in the oracle changes; the runner records one known
    # finding per check *name* and shows at most 20 failures per check, so with one check per clause a second defect
    # class in the same clause (a LineBox and a Filler defect are both "render-succeeds") could be neither listed nor
    # told apart from a new violation hidden behind the first 20.
    total = {AUX: Tally(), "d3": Tally()}
    trees_of = {}
    stats = {}
    for (kind, fam, _ei, exprs, *_rest), (_kind, _fam, tallies, st) in zip(tasks, parts):
        if kind != "d3":
            trees_of[fam] = trees_of.get(fam, 0) + len(exprs)
        for c, t in tallies.items():
            key = c if c in (AUX, "d3") else (c, fam)
            if key not in total:
                total[key] = Tally()
            total[key].merge(t)
        for k, v in st.items():
            if isinstance(v, list):
                stats[k] = (stats.get(k, []) + v)[:5]
            else:
                stats[k] = stats.get(k, 0) + v
    wall = time.time() - t0
    quick = tier == "quick"
    strided = f" (the big families {', '.join(BIG)}: every {stride}{'rd' if stride == 3 else 'nd'} tree in the two non-UTF-8 encodings)" if stride > 1 else ""
    bound = (
        f"{counts['d1']} leaf trees (families {', '.join(sorted(fams['d1']))}) and {counts['d2']} depth-2 trees "
        f"(every decoration/container family {', '.join(sorted(fams['d2']))} over {len(child_pool('utf8', not quick))} representative children; "
        f"{'covering option sets (every option value, every pair of the two main options)' if quick else 'full products of the option sets on the core children, covering sets on the rest'}, see `decorations`/`containers`), "
        f"counted per encoding and summed over utf-8, euc-jp, iso8859-1{strided}; "
        f"sizes: fixed (), flow 1..{leaf_sz[0]}, box 1..{leaf_sz[0]} x 1..{leaf_sz[1]} for leaves, flow 1..{nest_sz[0]}, box 1..{nest_sz[0]} x 1..{nest_sz[1]} for nested trees, among the modes sizing() reports; {'focus False, and True for trees with a selectable widget' if quick else 'both focus values'}; "
        f"fresh widget per evaluation; judged: the {stats.get('wellformed_tree_modes', 0)} (tree, encoding, mode) triples that are well-formed (every child asked only for modes it reports, per urwid's documentation), "
        f"{stats.get('illformed_tree_modes', 0)} reported-but-ill-formed triples go to the auxiliary check; {stats.get('unbuildable', 0)} expressions refused by a constructor and skipped"
    )
    checks = []
    for c, rule in CLAUSES.items():
        for fam in sorted(trees_of):
            t = total.get((c, fam))
            if t is None or not t.ev:  # e.g. pack-succeeds for a family with fixed sizing only
                continue
            fbound = f"family {fam}: {trees_of[fam]} trees (counted per encoding, summed over the three encodings); sizes, focus values and well-formedness filter as in the run's bound"
            checks.append(MergedCheck(f"C01/{c}/{fam}", rule, True, fbound, t, wall).result())
    checks.append(
        MergedCheck(
            "C01/depth3-sampled",
            "all clauses above on depth-3 trees (a decoration/container with a few option sets over a depth-2 tree); failure detail names the clause",
            False,
            f"{counts['d3']} seeded depth-3 trees ({n3} per encoding), same sizes/focus/encodings",
            total["d3"],
            wall,
        ).result()
    )
    if REPORT_ILLFORMED:
        checks.append(
            MergedCheck(
                f"C01/{AUX}",
                "auxiliary, literal reading: a mode the root's sizing() reports although a child sits in a slot whose mode the child does not report (ill-formed by urwid's documentation); all clauses probed at one size per mode",
                True,
                f"every (tree, reported mode) of the trees above that is not well-formed ({stats.get('illformed_tree_modes', 0)} pairs), probed at {PROBE}, both focus values",
                total[AUX],
                wall,
            ).result()
        )
    return {"checks": checks, "bound": bound, "stats": stats}


def replay(check_name, case):
    enc = case["enc"]
    mode = dict(ENCODINGS)[enc]
    size = tuple(case["size"])
    clause = case.get("clause") or check_name.split("/")[1]  # "C01/<clause>/<family>"

    def body():
        code = compile(case["expr"], "<tree>", "eval")
        return judge(code, mode, size, bool(case["focus"]))

    try:
        res, obs = _with_encoding(enc, body)
    except Exception as e:  # noqa: BLE001  -- the expression does not even build: nothing to confirm
        return {"outcome": "not-reproduced", "detail": {"expr": case["expr"], "why": f"building the tree raised {_exc(e)}"}}
    if clause in res:
        ok, why = res[clause][0], res[clause][1]
    else:
        bad = [(c, r[1]) for c, r in res.items() if not r[0]]
        ok, why = (not bad), (f"{bad[0][0]}: {bad[0][1]}" if bad else "clause not evaluated and no other clause failed")
    return {"outcome": "not-reproduced" if ok else "confirmed", "detail": detail(case["expr"], enc, size, bool(case["focus"]), clause, why, obs)}
