"""C17 bounded stand-in: display attributes travel from markup to the terminal unchanged.

The real urwid code (`decompose_tagmarkup`, `Text.render` -> `apply_text_layout` -> `TextCanvas.content`,
`AttrMap`/`AttrWrap`/`Padding` -> `CompositeCanvas.fill_attr_apply`, `raw.Screen.register_palette*`,
`set_terminal_properties`, `_attrspec_to_escape`, `draw_screen`) is run on small enumerated scopes and
judged by references written from the property statement:

  * markup: `ref_flatten` (a recursive walk giving each character the attribute of the innermost tuple
    enclosing it);
  * cells: every character of a text is *unique* in that text (spaces apart), so a rendered row tells
    which source character each byte belongs to without asking urwid's layout; the row is cut into
    characters on its bytes, never on its attribute runs, so an attribute boundary that falls inside a
    multi-byte character, or one column late, is seen;
  * maps: `apply(m, a) = m[a] if a in m else a`, folded inner-to-outer over the per-byte attributes of
    the innermost widget;
  * terminal: `spec.sgr.sgr_decode` (ECMA-48 / xterm SGR) applied to what `_attrspec_to_escape` returns
    and to everything `draw_screen` writes; the intended rendition is read from the AttrSpec *fields*
    (foreground_basic/high/true, foreground_number, ..., bold, ...) of the palette entry that an
    independent palette resolver (`ref_palette`) selects for the colour depth, and, where the palette
    string names the colour outright (basic names, 'default', 'hN', '#rrggbb' at 2**24, the setting
    words), also from the string itself (`direct_state`), without AttrSpec.

Checks (one per clause, so that one red clause does not hide the others):
  C17/markup-decompose              decompose_tagmarkup == ref_flatten on markup trees (no empty parts)
  C17/markup-decompose-empty-parts  the same on trees that contain '' / b'' / [] parts
  C17/text-cell-attrs               Text(markup) x size x wrap x align x encoding x str/bytes: per-cell oracle
  C17/text-cell-attrs-empty-parts   the same for markup containing an empty string part
  C17/canvas-clip-attrs             every column window of a rendered text row, reached through TextCanvas.content(trim_left,
                                    cols), CompositeCanvas.pad_trim_left_right, the parts of a widget beside an Overlay and a
                                    Padding in 'clip' mode: column-grid oracle (incl. the blank of a cut double-width character)
  C17/attr-map-compose              chains of AttrMap / AttrWrap / Padding, focus on/off, hashable names
  C17/raw-attrspec-escape           _attrspec_to_escape decoded == AttrSpec fields (all colours per depth)
  C17/raw-palette-draw              palette (all tuple forms) x depth x bright_is_bold x call order, observed in
                                    the bytes draw_screen writes; undefined names / None -> default
  C17/raw-palette-draw-aliases      the same for names registered as (name, like_other_name)

Readings of the statement fixed here (see also the comments next to each oracle):
  * bright_is_bold=True is *defined* (set_terminal_properties docstring) as "this terminal uses the bold
    setting to create bright colors (numbers 8-15)": for a basic bright foreground the intended rendition
    on such a terminal is (index n-8, bold); every other rendition is compared literally.
  * a blank that replaces a double-width character cut by the clip window / ellipsis is neither
    "padding" nor a character: it may carry None or an attribute of the cut cluster, i.e. of the character
    or of a zero-width character attached to it (C02's grid model gives it the character's attribute; the
    layout addresses the blank by an offset inside the cluster -- first false alarm corrected: '中' + U+0300
    + 'a' clipped to 2 columns, right aligned, gives the blank the attribute of the U+0300).
  * the ellipsis mark is not a character of the text and the statement does not say what it carries: None
    or the attribute of a character within two positions of the cut is accepted (second false alarm
    corrected: with a source space before the mark the position of the cut was computed from the
    identified characters only).  What IS held: no neighbouring character changes its attribute.
  * a leading/trailing blank of a row can be alignment padding or a source space; the oracle accepts a
    row iff SOME split into "source spaces next to the shown text, then at most one blank of a cut
    double-width character, then padding (None)" explains it (texts without spaces and double-width
    characters have no such freedom: every blank must be None).
  * which characters are shown where is C03's subject.  A case is skipped (tallied in the check's `bound`
    note, not failed) iff the SAME TEXT WITHOUT MARKUP raises the same exception type -- attributes then
    play no part (on this tree: a double-width character in a 1-column clip/ellipsis window and
    render(()) of an empty text, both ValueError; cf. DESIGN.md 7-n).  Any other exception is a failure.
    That the marked-up text shows the same bytes as the unmarked text IS checked here.
  * ellipsis mode is exercised in UTF-8 only: in 8-bit and CJK encodings the mark is '...' cut to fit
    or a two-column character and the layout's own column counts for it are off (iso8859-1:
    Text('\xe9xabc', wrap='ellipsis', align='center').get_line_translation(4) ->
    [[(-1, None), (3, 0, 1), (3, 1, b'...'), (0, 1)]], rendered b' .. '; align='right' raises ValueError;
    euc-jp raises CanvasError) -- reported to C03, not judged here.
  * 88 colours with 'hN', N > 15, in a high-colour slot: urwid documents (code comment in
    register_palette_entry) that the basic entry is used, since slot numbers above 15 mean different
    colours in the 88 and 256 tables; the oracle follows that.
  * "undefined names falling back to the default" = the terminal's default foreground/background and no
    style (the palette entry None is left at its initial default/default in these scopes).
  * an AttrSpec object used directly as a canvas attribute is drawn as its own fields say, at any depth.
"""
from __future__ import annotations

import ast
import contextlib
import io
import itertools
import os
import time
import warnings

from urwid import AttrMap, AttrWrap, Filler, Overlay, Padding, SolidFill, Text
from urwid.canvas import CanvasCache, CompositeCanvas
from urwid.display.common import AttrSpec
from urwid.util import decompose_tagmarkup, get_encoding, set_encoding

from bounded.common import Check, rng
from spec.sgr import BASIC_NAMES, DEFAULT, SgrError, SgrState, scan, sgr_apply, sgr_decode

# ======================================================================================================
# character model (independent of urwid's width tables)

POOLS = {
    "n": "abcdefgh",  # ASCII letters that are not DEC line-drawing codes (q x l k m j t u)
    "e": "\xe9\xe8\xe7\xf1\xfc\xf6\xe4\xee",  # narrow, 2 bytes in UTF-8, 1 byte in latin-1
    "w": "中文字漢語言日本",  # double width; 3 bytes in UTF-8, 2 in EUC-JP
    "z": "".join(chr(c) for c in range(0x0300, 0x0308)),  # zero width, combining
    "d": "─│┌┐└┘├┤",  # narrow; sent as DEC special graphics (cs "0") in non-UTF-8 encodings
}
DEC = dict(zip("─│┌┐└┘├┤", "qxlkmjtu"))  # VT100 special graphics set
CLASS_OF = {c: k for k, pool in POOLS.items() for c in pool}
CLASS_OF[" "] = "s"
CLASS_OF["\n"] = "l"
WIDTH = {"n": 1, "e": 1, "w": 2, "z": 0, "d": 1, "s": 1, "l": 0}
ENC_CLASSES = {"utf-8": "newzdsl", "iso8859-1": "nedsl", "euc-jp": "nwsl"}
WRAPS = ("any", "space", "clip", "ellipsis")
ALIGNS = ("left", "center", "right")


def text_of(classes):
    cnt = {}
    out = []
    for k in classes:
        if k == "s":
            out.append(" ")
        elif k == "l":
            out.append("\n")
        else:
            i = cnt.get(k, 0)
            cnt[k] = i + 1
            out.append(POOLS[k][i])
    return "".join(out)


def well_formed(classes):
    """zero-width characters only directly after a character they can combine with (a line made only of
    zero-width characters is C03's finding n, not this property's subject)."""
    return all(not (k == "z" and (i == 0 or classes[i - 1] not in "newd")) for i, k in enumerate(classes))


def form_of(ch, enc, as_bytes):
    """(bytes, cs) a source character is shown as."""
    if enc != "utf-8" and not as_bytes and ch in DEC:
        return DEC[ch].encode("ascii"), "0"
    return ch.encode(enc), None


def same(a, b):
    return type(a) is type(b) and a == b


# ======================================================================================================
# reference: markup -> per-unit attribute


def ref_flatten(markup, attr=None):
    """[(unit, attr)] with unit = one character (str markup) or one byte (bytes markup): each carries the
    attribute of the innermost (attr, markup) tuple enclosing it, None outside every tuple."""
    if isinstance(markup, list):
        out = []
        for m in markup:
            out += ref_flatten(m, attr)
        return out
    if isinstance(markup, tuple):
        a, m = markup
        return ref_flatten(m, a)
    return [(markup[i : i + 1], attr) for i in range(len(markup))]


def has_empty_part(markup):
    if isinstance(markup, list):
        return not markup or any(has_empty_part(m) for m in markup)
    if isinstance(markup, tuple):
        return has_empty_part(markup[1])
    return len(markup) == 0


# ======================================================================================================
# C17/markup-decompose


def judge_decompose(markup):
    flat = ref_flatten(markup)
    detail = {"markup": repr(markup)}
    try:
        text, al = decompose_tagmarkup(markup)
    except Exception as e:  # noqa: BLE001
        return False, detail | {"why": f"raised {type(e).__name__}: {e}"}
    detail |= {"text": repr(text), "attrs": repr(al)}
    want_text = (b"" if flat and isinstance(flat[0][0], bytes) else "").join(u for u, _ in flat)
    # oracle correction (triage): a markup whose parts are all empty has no unit in `flat`, so the reference
    # cannot know whether the parts were str or bytes and demanded '' where urwid returns b'' for
    # ('x', b'').  The statement speaks of characters and their attributes; an empty text of either type
    # has none, so it is accepted (the attribute runs are still judged below: none may exceed the text).
    if not flat and isinstance(text, (str, bytes)) and len(text) == 0:
        want_text = text
    if text != want_text:
        return False, detail | {"why": f"text should be {want_text!r}"}
    got = []
    for a, r in al:
        if not isinstance(r, int) or r < 0:
            return False, detail | {"why": f"bad run length {r!r}"}
        got += [a] * r
    if len(got) > len(flat):
        return False, detail | {"why": "attribute runs longer than the text"}
    got += [None] * (len(flat) - len(got))  # a trailing untagged part may be left off the list
    for i, ((_u, want), g) in enumerate(zip(flat, got)):
        if not same(want, g):
            return False, detail | {"why": f"unit {i} should carry {want!r}, carries {g!r}"}
    return True, detail


TAGS = ("x", "y", None)


def trees(height, leaves=(0, 1), max_children=3):
    """All markup shapes of height <= `height`: leaf | (tag, T) | [T * 0..max_children]; leaves are the
    placeholders 0/1 (non-empty / possibly empty piece) replaced by `fill`."""
    if height == 0:
        return [("L",)]
    sub = trees(height - 1, leaves, max_children)
    out = [("L",)]
    out += [("T", t, s) for t in TAGS for s in sub]
    for k in range(max_children + 1):
        out += [("S", *c) for c in itertools.product(sub, repeat=k)]
    return out


def fill(shape, pieces, pos):
    """Replace the leaves of a shape by pieces[pos[0]], pieces[pos[0]+1], ... (cyclically)."""
    if shape[0] == "L":
        p = pieces[pos[0] % len(pieces)]
        pos[0] += 1
        return p
    if shape[0] == "T":
        return (shape[1], fill(shape[2], pieces, pos))
    return [fill(s, pieces, pos) for s in shape[1:]]


def random_shape(r, height):
    if height == 0:
        return ("L",)
    k = r.random()
    if k < 0.25:
        return ("L",)
    if k < 0.6:
        return ("T", r.choice(TAGS + ("x", 0, "")), random_shape(r, height - 1))
    return ("S", *[random_shape(r, height - 1) for _ in range(r.choice((0, 1, 2, 2, 3, 3)))])


def decompose_cases(tier, r):
    piece_sets = [
        ["ab", "中", "c\xe9", "\n", "d e"],
        ["a", "", "bc", "", "中"],
        [b"ab", b"\xe4\xb8\xad", b"", b"c"],
    ]
    shapes = trees(2)
    for sh in shapes:
        for ps in piece_sets:
            yield fill(sh, ps, [0])
    n_rand = 4000 if tier == "quick" else 60000
    for _ in range(n_rand):
        sh = random_shape(r, r.choice((3, 3, 4)))
        yield fill(sh, r.choice(piece_sets), [r.randrange(5)])
    # tag chains of depth 1..3 around a list with an inner tagged part
    for depth in (1, 2, 3):
        for tags in itertools.product(TAGS, repeat=depth):
            for inner in TAGS:
                m = ["a", (inner, "中b"), "c"]
                for t in reversed(tags):
                    m = (t, m)
                yield m
                yield ["p", m, ("y", "q")]


# ======================================================================================================
# C17/text-cell-attrs


def parse_row(row, by_bytes, ell):
    """Cut a content() row into units on its *bytes*.  Returns (units, None) or (None, why).
    unit = dict(kind='char'|'space'|'ellipsis', src, attr, cs, start, end)."""
    data = b"".join(seg for _a, _cs, seg in row)
    attrs, css = [], []
    for a, cs, seg in row:
        if not isinstance(seg, bytes):
            return None, f"run text is {type(seg).__name__}, not bytes"
        attrs += [a] * len(seg)
        css += [cs] * len(seg)
    units = []
    pos = 0
    while pos < len(data):
        kind = src = None
        end = pos
        if data[pos : pos + 1] == b" " and css[pos] is None:
            kind, end = "space", pos + 1
        else:
            for ln in (1, 2, 3, 4):
                hit = by_bytes.get((data[pos : pos + ln], css[pos]))
                if hit is not None and pos + ln <= len(data):
                    kind, src, end = "char", hit, pos + ln
                    break
            if kind is None and ell and data.startswith(ell, pos) and css[pos] is None:
                kind, end = "ellipsis", pos + len(ell)
                while ell == b"." and data[end : end + 1] == b".":  # the ASCII stand-in "..." (cut to fit) of 8-bit encodings
                    end += 1
        if kind is None:
            return None, f"bytes at offset {pos} of the row ({data[pos:pos + 4]!r}, cs {css[pos]!r}) are no character of the text"
        a0, c0 = attrs[pos], css[pos]
        for p in range(pos + 1, end):
            if not same(attrs[p], a0):
                return None, f"an attribute boundary ({a0!r} | {attrs[p]!r}) falls inside the character at byte {pos}"
            if css[p] != c0:
                return None, f"a character-set boundary falls inside the character at byte {pos}"
        units.append({"kind": kind, "src": src, "attr": a0, "cs": c0, "start": pos, "end": end})
        pos = end
    return units, None


def cut_cluster(chars, k):
    """Source indices of the double-width character k together with the zero-width characters attached to it."""
    out = [k]
    j = k + 1
    while j < len(chars) and CLASS_OF.get(chars[j]) == "z":
        out.append(j)
        j += 1
    return out


def edge_ok(cells, src_out, chars, ref, allow_spaces):
    """cells: attributes of a run of blanks, ordered moving AWAY from the shown text; src_out: source
    indices in the same direction.  True iff: t >= 0 source spaces (with their attributes), then at most
    one blank left by a cut double-width character, then padding (None).  The blank of a cut character
    may carry None or an attribute of the cut cluster (the character or a zero-width character attached
    to it: the layout addresses the blank by an offset inside the cluster)."""
    t = 0
    while True:
        rest = cells[t:]
        if all(c is None for c in rest):
            return True
        nxt = None
        for k in src_out[t:]:
            if CLASS_OF.get(chars[k]) == "z":
                continue
            nxt = k
            break
        if nxt is not None and CLASS_OF.get(chars[nxt]) == "w" and all(c is None for c in rest[1:]):
            if any(same(rest[0], ref[k]) for k in cut_cluster(chars, nxt)):
                return True
        if not allow_spaces or t >= len(cells) or t >= len(src_out):
            return False
        k = src_out[t]
        if chars[k] != " " or not same(cells[t], ref[k]):
            return False
        t += 1


def judge_rows(rows, chars, ref, forms, maxcol, wrap, ell):
    """The per-cell oracle.  rows: list(canvas.content()); chars/ref: source characters and the attribute
    each must carry; forms[i] = (bytes, cs) of source character i.  Returns None or a why-string."""
    n = len(chars)
    by_bytes = {}
    for i, (b, cs) in enumerate(forms):
        if chars[i] not in " \n":
            by_bytes[(b, cs)] = i
    line_starts = [0] + [i + 1 for i, c in enumerate(chars) if c == "\n"]
    for y, row in enumerate(rows):
        units, why = parse_row(row, by_bytes, ell)
        if units is None:
            return f"row {y}: {why}"
        cols = 0
        for u in units:
            cols += WIDTH[CLASS_OF[chars[u["src"]]]] if u["kind"] == "char" else ((u["end"] - u["start"] if ell == b"." else 1) if u["kind"] == "ellipsis" else 1)
        if cols != maxcol:
            return f"row {y}: the runs cover {cols} columns of a {maxcol}-column canvas"
        for u in units:
            if u["kind"] == "char":
                i = u["src"]
                if not same(u["attr"], ref[i]):
                    return f"row {y}: character {chars[i]!r} (source index {i}) should carry {ref[i]!r}, carries {u['attr']!r}"
                if u["cs"] != forms[i][1]:
                    return f"row {y}: character {chars[i]!r} has character set {u['cs']!r}"
        shown = [u["src"] for u in units if u["kind"] == "char"]
        if shown != sorted(shown):
            return f"row {y}: characters out of source order"
        # blanks
        i = 0
        while i < len(units):
            if units[i]["kind"] != "space":
                i += 1
                continue
            j = i
            while j < len(units) and units[j]["kind"] == "space":
                j += 1
            cells = [u["attr"] for u in units[i:j]]
            left = units[i - 1] if i > 0 else None
            right = units[j] if j < len(units) else None
            lch = left is not None and left["kind"] == "char"
            rch = right is not None and right["kind"] == "char"
            if lch and rch:
                between = list(range(left["src"] + 1, right["src"]))
                if len(between) != len(cells) or any(chars[k] != " " for k in between):
                    return f"row {y}: {len(cells)} blanks between source characters {left['src']} and {right['src']} are not the source spaces between them"
                for k, c in zip(between, cells):
                    if not same(c, ref[k]):
                        return f"row {y}: the space at source index {k} should carry {ref[k]!r}, carries {c!r}"
            elif rch:  # leading blanks (row start or an ellipsis on the left)
                if not edge_ok(cells[::-1], list(range(right["src"] - 1, -1, -1)), chars, ref, left is None):
                    return f"row {y}: leading blanks {cells!r} are neither padding (None) nor the source spaces before index {right['src']}"
            elif lch:  # trailing blanks
                if not edge_ok(cells, list(range(left["src"] + 1, n)), chars, ref, True):
                    return f"row {y}: trailing blanks {cells!r} are neither padding (None) nor the source spaces after index {left['src']}"
            elif left is not None and left["kind"] == "ellipsis":
                # after the mark: padding, or the one blank left by a double-width character that did not fit
                pos = (line_starts[y] if y < len(line_starts) else n) + (i - 1)
                cand = [ref[k] for b in range(max(0, pos - 1), n) if CLASS_OF.get(chars[b]) == "w" for k in cut_cluster(chars, b)]
                if not (all(c is None for c in cells) or (any(same(cells[0], a) for a in cand) and all(c is None for c in cells[1:]))):
                    return f"row {y}: blanks {cells!r} after the ellipsis mark are neither padding nor the blank of a cut double-width character"
            else:  # nothing but blanks (and possibly an ellipsis to the right)
                okset = [ref[k] for k in range(n) if chars[k] == " " or CLASS_OF.get(chars[k]) == "w" or (CLASS_OF.get(chars[k]) == "z" and any(CLASS_OF.get(chars[j]) == "w" and k in cut_cluster(chars, j) for j in range(k)))]
                for c in cells:
                    if c is not None and not any(same(c, o) for o in okset):
                        return f"row {y}: a blank row carries {c!r}, which no source space carries"
            i = j
        for idx, u in enumerate(units):
            if u["kind"] == "ellipsis":
                # the mark stands where the hidden rest of the line begins; the statement does not say what it
                # carries: None or the attribute of a character next to the cut (two either side) is accepted
                pos = (line_starts[y] if y < len(line_starts) else n) + idx
                allowed = [None] + [ref[k] for k in range(max(0, pos - 2), min(n, pos + 3))]
                if not any(same(u["attr"], a) for a in allowed):
                    return f"row {y}: the ellipsis mark carries {u['attr']!r}, an attribute of no character near the cut"
    return None


_plain_cache = {}


def _plain_rows(plain, enc, width, wrap, align):
    """What the same text shows without any markup: list of row bytes, or the exception as a string."""
    key = (plain, enc, width, wrap, align)
    if key not in _plain_cache:
        if len(_plain_cache) > 100000:
            _plain_cache.clear()
        try:
            _plain_cache[key] = [bytes(t) for t in Text(plain, align=align, wrap=wrap).render((width,) if width else ()).text]
        except Exception as e:  # noqa: BLE001
            _plain_cache[key] = f"{type(e).__name__}: {e}"
    return _plain_cache[key]


def eval_text_case(markup, enc, width, wrap, align):
    """One rendering of Text(markup).  Encoding must already be set by the caller.  Returns (ok, detail),
    or (None, detail) when the same text WITHOUT markup cannot be rendered either (then attributes play no
    part in the failure: it belongs to C03/C01, e.g. DESIGN.md 7-n)."""
    flat = ref_flatten(markup)
    as_bytes = bool(flat) and isinstance(flat[0][0], bytes)
    if as_bytes:
        raw = b"".join(u for u, _ in flat)
        chars = list(raw.decode(enc))
        ref = []
        pos = 0
        for ch in chars:
            ref.append(flat[pos][1])
            pos += len(ch.encode(enc))
        plain = raw
    else:
        chars = [u for u, _ in flat]
        ref = [a for _, a in flat]
        plain = "".join(chars)
    forms = [form_of(ch, enc, as_bytes) for ch in chars]
    size = (width,) if width else ()
    detail = {"markup": repr(markup), "encoding": enc, "size": list(size), "wrap": wrap, "align": align}
    want = _plain_rows(plain, enc, width, wrap, align)
    try:
        canv = Text(markup, align=align, wrap=wrap).render(size)
        rows = [list(r) for r in canv.content()]
        maxcol = canv.cols()
    except Exception as e:  # noqa: BLE001
        got_exc = f"{type(e).__name__}: {e}"
        if isinstance(want, str) and want.split(":")[0] == got_exc.split(":")[0]:
            return None, detail | {"why": f"unmarked text raises too: {type(e).__name__}"}
        return False, detail | {"why": f"render raised {got_exc} (the same text without markup: {want!r})"}
    detail["rows"] = repr(rows)
    if width and maxcol != width:
        return False, detail | {"why": f"canvas is {maxcol} columns wide, not {width}"}
    ell = ("…".encode("utf-8") if enc == "utf-8" else b".") if wrap == "ellipsis" else None  # 8-bit encodings show "..."
    why = judge_rows(rows, chars, ref, forms, maxcol, wrap, ell)
    if why:
        return False, detail | {"why": why}
    # markup must not change what is displayed
    got = [b"".join(seg for _a, _cs, seg in row) for row in rows]
    if got != want:
        return False, detail | {"why": f"the marked-up text shows {got!r}, the same text without markup shows {want!r}"}
    return True, detail


QUICK_FAMILIES = ("distinct", "alternate-untagged", "tail-untagged", "nested-3", "inner-None", "falsy-names", "empty-tagged-middle")
LONG_FAMILIES = ("distinct", "alternate-untagged", "nested-3", "empty-tagged-middle")


def markups_for(chars, as_bytes, enc):
    """Markup families over one character sequence (the reference is ref_flatten of the markup itself, so
    any tree is admissible).  Yields (family, markup)."""
    enc_ = (lambda s: s.encode(enc)) if as_bytes else (lambda s: s)
    n = len(chars)
    e = enc_("")
    if n == 0:
        yield "empty", e
        yield "empty-tagged", ("A", e)
        yield "empty-list", []
        return
    P = [enc_(c) for c in chars]
    whole = enc_("".join(chars))
    yield "distinct", [(f"a{i}", p) for i, p in enumerate(P)]
    yield "alternate-untagged", [(f"a{i}", p) if i % 2 == 0 else p for i, p in enumerate(P)]
    yield "alternate-untagged-odd", [(f"a{i}", p) if i % 2 == 1 else p for i, p in enumerate(P)]
    for k in range(1, n):
        yield f"two-runs@{k}", [("A", enc_("".join(chars[:k]))), ("B", enc_("".join(chars[k:])))]
        yield f"tail-untagged@{k}", [("A", enc_("".join(chars[:k]))), enc_("".join(chars[k:]))]
        yield f"head-untagged@{k}", [enc_("".join(chars[:k])), ("B", enc_("".join(chars[k:])))]
    yield "one-tag", ("A", whole)
    if n >= 3:
        mid = P[1 : n - 1]
        yield "nested-2", ("o", [P[0], ("i", mid[0] if len(mid) == 1 else list(mid)), P[-1]])
        yield "nested-3", ("o", [P[0], ("m", [*mid[:1], ("i", list(mid[1:]) + [P[-1]])])]) if len(mid) > 1 else ("o", ("m", [P[0], ("i", mid[0]), P[-1]]))
        yield "inner-None", ("o", [P[0], (None, list(mid)), P[-1]])
        yield "falsy-names", [(0, P[0]), ("", enc_("".join(chars[1 : n - 1]))), ((), P[-1])]
    if n >= 2:
        yield "adjacent-equal", [("A", P[0]), ("A", enc_("".join(chars[1:])))]
    # families with empty parts (judged in a separate check)
    if n >= 2:
        k = n // 2
        yield "empty-tagged-middle", [("A", enc_("".join(chars[:k]))), ("E", e), ("B", enc_("".join(chars[k:])))]
        yield "empty-tagged-middle-untagged-tail", [("A", enc_("".join(chars[:k]))), ("E", e), enc_("".join(chars[k:]))]
        yield "empty-untagged-middle", [("A", P[0]), e, ("B", enc_("".join(chars[1:])))]
    yield "empty-tagged-first", [("E", e), ("A", whole)]
    yield "empty-tagged-last", [("A", whole), ("E", e)]


def class_strings(alphabet, maxlen):
    for ln in range(0, maxlen + 1):
        for cs in itertools.product(alphabet, repeat=ln):
            s = "".join(cs)
            if well_formed(s) and all(s.count(k) <= 8 for k in "newzd"):
                yield s


def text_plan(tier):
    """(encoding, bytes text?, exhaustive length, all-families length, number of seeded longer texts)"""
    if tier == "quick":
        return [("utf-8", False, 3, 3, 40), ("utf-8", True, 2, 2, 15), ("iso8859-1", False, 2, 2, 15), ("euc-jp", False, 2, 2, 10)]
    return [("utf-8", False, 4, 3, 1200), ("utf-8", True, 3, 3, 400), ("iso8859-1", False, 4, 3, 400), ("euc-jp", False, 4, 3, 250)]


def text_scope(tier, r):
    """Yields (enc, as_bytes, classes, reduced) in a deterministic order."""
    for enc, as_bytes, full_len, fam_len, n_rand in text_plan(tier):
        alphabet = ENC_CLASSES[enc]
        if as_bytes and enc != "utf-8":
            alphabet = alphabet.replace("d", "")
        # quick tier: in UTF-8 a line-drawing character is just one more 3-byte narrow character (class e has
        # the 2-byte ones), so the exhaustive part leaves it to the seeded texts and to iso8859-1
        full_alphabet = alphabet.replace("d", "") if (tier == "quick" and enc == "utf-8") else alphabet
        seen = set()
        for s in class_strings(full_alphabet, full_len):
            seen.add(s)
            yield enc, as_bytes, s, len(s) > fam_len
        cnt = 0
        while cnt < n_rand:
            ln = r.randint(full_len + 1, 7)
            s = "".join(r.choice(alphabet) for _ in range(ln))
            if s in seen or not well_formed(s) or any(s.count(k) > 8 for k in "newzd"):
                continue
            seen.add(s)
            cnt += 1
            yield enc, as_bytes, s, True


SIZES = (1, 2, 3, 4, 5, 6, 0)  # 0 = fixed sizing, render(())
FAIL_CAP = 20  # failures kept per text check (the Check collector's own cap); raised only by triage scripts


def _text_task(args):
    """Worker: all cases of a batch of texts in one encoding.  Returns two tallies and the skip counts."""
    enc, as_bytes, batch, quick = args
    tallies = [{"n": 0, "failures": [], "samples": []}, {"n": 0, "failures": [], "samples": []}]
    skipped = {}
    old = get_encoding()
    try:
        set_encoding(enc)
        CanvasCache.clear()
        for classes, reduced in batch:
            chars = list(text_of(classes))
            for fam, markup in markups_for(chars, as_bytes, enc):
                base = fam.split("@")[0]
                if reduced and base not in LONG_FAMILIES:
                    continue
                if quick and chars and base not in QUICK_FAMILIES:
                    continue
                t = tallies[1 if has_empty_part(markup) else 0]
                for width in SIZES:
                    for wrap in WRAPS:
                        if wrap == "ellipsis" and enc != "utf-8":
                            # outside UTF-8 the mark is the encoding's own ('...' cut to fit, or a two-column
                            # character) and the layout's column counts for it are off (C03's subject): the row
                            # is then not "text + mark + padding" and the cell oracle has nothing to hold on to
                            continue
                        for align in ALIGNS:
                            ok, detail = eval_text_case(markup, enc, width, wrap, align)
                            if ok is None:
                                k = detail["why"]
                                skipped[k] = skipped.get(k, 0) + 1
                                continue
                            t["n"] += 1
                            if len(t["samples"]) < 3:
                                t["samples"].append({"classes": classes, "enc": enc, "bytes": as_bytes, "family": fam, "size": width, "wrap": wrap, "align": align})
                            if not ok and len(t["failures"]) < FAIL_CAP:
                                t["failures"].append(detail | {"classes": classes, "family": fam})
    finally:
        set_encoding(old)
        CanvasCache.clear()
        _plain_cache.clear()
    return tallies, skipped


def run_text_checks(tier, r):
    import multiprocessing

    quick = tier == "quick"
    t0 = time.time()
    groups = {}
    texts = 0
    for enc, as_bytes, classes, reduced in text_scope(tier, r):
        groups.setdefault((enc, as_bytes), []).append((classes, reduced))
        texts += 1
    tasks = []
    for (enc, as_bytes), items in groups.items():
        step = 8 if quick else 40
        for i in range(0, len(items), step):
            tasks.append((enc, as_bytes, items[i : i + step], quick))
    procs = max(1, min(16, os.cpu_count() or 1))
    if procs > 1:
        with multiprocessing.get_context("fork").Pool(procs) as pool:
            parts = pool.map(_text_task, tasks, chunksize=1)
    else:
        parts = [_text_task(t) for t in tasks]
    plan = "; ".join(f"{e} {'bytes' if b else 'str'}: all class strings of length <= {fl} (all markup families up to length {ml}) + {nr} seeded of length <= 7" for e, b, fl, ml, nr in text_plan(tier))
    if quick:
        plan += " (quick tier: class d only in the seeded UTF-8 texts and in iso8859-1; 7 of the 16 markup families)"
    skipped = {}
    for _t, sk in parts:
        for k, v in sk.items():
            skipped[k] = skipped.get(k, 0) + v
    note = f"{texts} texts over the character classes n(arrow) e(2-byte narrow) w(ide) z(ero-width after a base) d(line drawing, DEC graphics outside UTF-8) s(pace) l(newline); {plan}; markup families: one attribute per character, alternate/leading/trailing untagged, two runs, nesting depth 2 and 3, inner (None, ..) tag, falsy names 0/''/(), adjacent equal tags; sizes (1,)..(6,) and (); 4 wrap modes x 3 alignments; cases skipped because the same text without markup cannot be rendered either (C03/C01): {skipped or 'none'}"
    out = []
    names = [
        ("C17/text-cell-attrs", "Text(markup).render(size).content(): every shown character carries the attribute of its innermost tag and is not split by an attribute boundary, padding carries None (source spaces their own attribute), the runs of every row cover the canvas width, and the bytes shown equal those of the same text without markup; characters are identified by their uniqueness on the row's bytes"),
        ("C17/text-cell-attrs-empty-parts", "the same oracle for markup that contains an empty string / empty list part"),
    ]
    for idx, (name, rule) in enumerate(names):
        chk = Check(name, rule, False, note)  # exhaustive up to the stated lengths, plus seeded longer texts
        chk.t0 = t0
        for tallies, _sk in parts:  # deterministic task order
            t = tallies[idx]
            chk.evaluations += t["n"]
            chk.failures += t["failures"][: FAIL_CAP - len(chk.failures)]
            chk.samples += t["samples"][: 3 - len(chk.samples)]
        chk.nontrivial = range(chk.evaluations)  # every case key (text, family, size, wrap, align) is distinct by construction
        out.append(chk.result())
    return out


# ======================================================================================================
# C17/canvas-clip-attrs
#
# "clipping ... never shift[s] an attribute onto a neighbouring character", for the clipping done on CANVASES (the text
# checks above clip in the layout only).  One text row is rendered once; then every view [L, R) of its columns is taken
# through each route that cuts a text canvas (all of them end in TextCanvas.content(trim_left, cols) ->
# util.trim_text_attr_cs) and judged against a column grid written from the markup alone:
#   column c of the unclipped row belongs to source character k(c) (WIDTH model above) or is padding;
#   a view shows, column for column, the same characters: a character that is wholly inside carries the attribute of its
#   innermost tag; a source space its own; padding None; a double-width character with only ONE of its two columns in
#   the view is shown as one blank that still belongs to it: it carries an attribute of the cut cluster (the character
#   or a zero-width character attached to it, the reading fixed in the module docstring) -- never a neighbour's;
#   zero-width characters that are shown carry their own attribute.
# Routes: 'content' canv.content(trim_left=L, cols=R-L); 'composite' CompositeCanvas(canv).pad_trim_left_right(-L, R-W);
# 'overlay' a `t`-column SolidFill laid over columns [l, l+t) of the row (both remaining parts are views of the bottom
# canvas); 'padding-clip' Padding(Text, width='clip', align=a) rendered narrower than the text (the window is
# [0, m) for 'left', [width-m, width) for 'right'; for 'center' any window of m columns is accepted).

CLIP_ROUTES = ("content", "composite", "overlay", "padding-clip")
TOP_MARK = b"X"  # the Overlay's top widget: no character of POOLS


def clip_grid(chars):
    """owner[c] = source index of the character occupying column c; first[k] = first column of character k."""
    owner, first = [], []
    for k, ch in enumerate(chars):
        first.append(len(owner))
        owner += [k] * WIDTH[CLASS_OF[ch]]
    return owner, first


def judge_clip_row(row, plan, chars, ref, forms, owner, first):
    """row: one content() row; plan[i] = source column shown at column i of the row, -1 for a padding column of the
    unclipped row (beyond the text), None for a column of the Overlay's top widget.  Returns None or a why-string."""
    by_bytes = {(TOP_MARK, None): -1}
    for i, (b, cs) in enumerate(forms):
        if chars[i] != " ":
            by_bytes[(b, cs)] = i
    units, why = parse_row(row, by_bytes, None)
    if units is None:
        return why

    def src_at(i):
        return plan[i] if 0 <= i < len(plan) else None

    c = 0
    for u in units:
        if c >= len(plan) and not (u["kind"] == "char" and u["src"] >= 0 and WIDTH[CLASS_OF[chars[u["src"]]]] == 0):
            return f"the row is wider than the {len(plan)} columns of the view"
        if u["kind"] == "char" and u["src"] == -1:
            if src_at(c) is not None:
                return f"column {c} shows the top widget where the bottom widget should be seen"
            if not same(u["attr"], "top"):
                return f"column {c}: the top widget carries {u['attr']!r}"
            c += 1
            continue
        if u["kind"] == "char":
            k = u["src"]
            w = WIDTH[CLASS_OF[chars[k]]]
            if not same(u["attr"], ref[k]):
                return f"column {c}: character {chars[k]!r} (source index {k}) should carry {ref[k]!r}, carries {u['attr']!r}"
            if u["cs"] != forms[k][1]:
                return f"column {c}: character {chars[k]!r} has character set {u['cs']!r}"
            if w and [src_at(c + d) for d in range(w)] != [first[k] + d for d in range(w)]:
                return f"column {c}: character {chars[k]!r} (source columns {first[k]}..{first[k] + w - 1}) is shown where source columns {[src_at(c + d) for d in range(w)]} belong"
            c += w
            continue
        # a blank
        sc = src_at(c)
        if sc is None:
            return f"column {c} is blank where the top widget should be seen"
        if sc == -1 or sc >= len(owner):
            if u["attr"] is not None:
                return f"column {c}: padding carries {u['attr']!r}"
        else:
            k = owner[sc]
            if chars[k] == " ":
                if not same(u["attr"], ref[k]):
                    return f"column {c}: the space at source index {k} should carry {ref[k]!r}, carries {u['attr']!r}"
            elif CLASS_OF[chars[k]] == "w":
                whole = (src_at(c + 1) == sc + 1) if sc == first[k] else (src_at(c - 1) == sc - 1)
                if whole:
                    return f"column {c}: a blank stands where the double-width character {chars[k]!r} is wholly visible"
                allowed = [ref[j] for j in cut_cluster(chars, k)]
                if not any(same(u["attr"], a) for a in allowed):
                    return f"column {c}: the blank standing for the cut double-width character {chars[k]!r} (source index {k}) carries {u['attr']!r}, not an attribute of that character ({allowed!r})"
            else:
                return f"column {c}: a blank stands where character {chars[k]!r} should be seen"
        c += 1
    if c != len(plan):
        return f"the runs cover {c} columns of a {len(plan)}-column view"
    return None


def clip_views(route, markup, width, total, param):
    """The rows to judge for one route and parameter: yields (row, plan).  `width` = columns of the text, `total` =
    columns of the rendered canvas (text + padding)."""
    def window(lo, hi):
        return [c if c < width else -1 for c in range(lo, hi)]

    if route == "content":
        lo, hi = param
        canv = Text(markup).render((total,))
        (row,) = list(canv.content(trim_left=lo, cols=hi - lo))
        yield list(row), window(lo, hi)
    elif route == "composite":
        lo, hi = param
        cc = CompositeCanvas(Text(markup).render((total,)))
        cc.pad_trim_left_right(-lo, hi - total)
        (row,) = list(cc.content())
        yield list(row), window(lo, hi)
    elif route == "overlay":
        left, t = param
        top = AttrMap(SolidFill(TOP_MARK.decode()), "top")
        ov = Overlay(top, Filler(Text(markup), valign="top"), align="left", width=t, valign="top", height=1, left=left)
        (row,) = list(ov.render((total, 1)).content())
        yield list(row), window(0, left) + [None] * t + window(left + t, total)
    elif route == "padding-clip":
        align, m = param
        canv = Padding(Text(markup), align=align, width="clip").render((m,))
        (row,) = list(canv.content())
        yield list(row), {"left": [window(0, m)], "right": [window(width - m, width)], "center": [window(lo, lo + m) for lo in range(0, width - m + 1)]}[align]


def clip_params(route, width, total):
    if route in ("content", "composite"):
        return [(lo, hi) for lo in range(0, total) for hi in range(lo + 1, total + 1)]
    if route == "overlay":
        return [(left, t) for t in (1, 2) for left in range(0, total - t + 1)]
    return [(align, m) for align in ALIGNS for m in range(1, width)]


def eval_clip_case(markup, enc, route, param):
    """One view of one text row (encoding set by the caller).  Returns (ok, detail)."""
    flat = ref_flatten(markup)
    chars = [u for u, _ in flat]
    ref = [a for _, a in flat]
    forms = [form_of(ch, enc, False) for ch in chars]
    owner, first = clip_grid(chars)
    width = len(owner)
    total = width + 1
    detail = {"markup": repr(markup), "encoding": enc, "route": route, "param": repr(param)}
    try:
        views = list(clip_views(route, markup, width, total, param))
    except Exception as e:  # noqa: BLE001
        return False, detail | {"why": f"raised {type(e).__name__}: {e}"}
    for row, plan in views:
        plans = plan if plan and isinstance(plan[0], list) else [plan]
        whys = [judge_clip_row(row, p, chars, ref, forms, owner, first) for p in plans]
        if all(w is not None for w in whys):
            return False, detail | {"row": repr(row), "why": whys[0] if len(whys) == 1 else f"no window of the text explains the row: {whys}"}
    return True, detail


CLIP_FAMILIES = ("distinct", "alternate-untagged", "alternate-untagged-odd", "two-runs")


def clip_plan(tier):
    """(encoding, alphabet, exhaustive length, number of seeded longer texts)"""
    if tier == "quick":
        return [("utf-8", "nwezs", 3, 30), ("euc-jp", "nws", 3, 10)]
    return [("utf-8", "nwezs", 4, 400), ("euc-jp", "nws", 4, 100)]


def _clip_task(args):
    enc, batch = args
    out = {"n": 0, "cut": 0, "failures": [], "samples": []}
    old = get_encoding()
    try:
        set_encoding(enc)
        CanvasCache.clear()
        for classes in batch:
            chars = list(text_of(classes))
            owner, _first = clip_grid(chars)
            width = len(owner)
            if not width:
                continue
            for fam, markup in markups_for(chars, False, enc):
                if fam.split("@")[0] not in CLIP_FAMILIES:
                    continue
                for route in CLIP_ROUTES:
                    for param in clip_params(route, width, width + 1):
                        ok, detail = eval_clip_case(markup, enc, route, param)
                        out["n"] += 1
                        if "w" in classes:
                            out["cut"] += 1
                        if len(out["samples"]) < 3:
                            out["samples"].append({"classes": classes, "enc": enc, "family": fam, "route": route, "param": repr(param)})
                        if not ok and len(out["failures"]) < FAIL_CAP:
                            out["failures"].append(detail | {"classes": classes, "family": fam})
    finally:
        set_encoding(old)
        CanvasCache.clear()
    return out


def run_clip_check(tier, r):
    import multiprocessing

    t0 = time.time()
    tasks = []
    texts = 0
    for enc, alphabet, full_len, n_rand in clip_plan(tier):
        items = [s for s in class_strings(alphabet, full_len) if s]
        seen = set(items)
        while n_rand > 0:
            s = "".join(r.choice(alphabet) for _ in range(r.randint(full_len + 1, 6)))
            if s in seen or not well_formed(s) or "w" not in s:
                continue
            seen.add(s)
            items.append(s)
            n_rand -= 1
        texts += len(items)
        step = 6 if tier == "quick" else 30
        tasks += [(enc, items[i : i + step]) for i in range(0, len(items), step)]
    procs = max(1, min(16, os.cpu_count() or 1))
    if procs > 1:
        with multiprocessing.get_context("fork").Pool(procs) as pool:
            parts = pool.map(_clip_task, tasks, chunksize=1)
    else:
        parts = [_clip_task(t) for t in tasks]
    plan = "; ".join(f"{e}: all class strings over {a!r} of length 1..{fl} + {nr} seeded with a double-width character of length <= 6" for e, a, fl, nr in clip_plan(tier))
    note = (f"{texts} one-row str texts ({plan}) rendered at text width + 1; markup families: one attribute per character, alternate tagged/untagged (both phases), "
            "two runs split at every position; routes: TextCanvas.content(trim_left=L, cols=R-L) and CompositeCanvas.pad_trim_left_right(-L, R-W) for EVERY window "
            "0 <= L < R <= W; Overlay with a 1- and a 2-column top widget at every left offset; Padding(width='clip') x 3 alignments x every width below the text's")
    chk = Check("C17/canvas-clip-attrs",
                "every column window of a rendered text row (TextCanvas.content trim, CompositeCanvas trim, beside an Overlay, Padding 'clip'): each shown character carries the attribute of its innermost tag, "
                "source spaces their own, padding None, and the one blank that stands for a double-width character cut by a window edge carries an attribute of THAT character (or of a zero-width character attached to it), never a neighbour's",
                False, note)
    chk.t0 = t0
    cut = 0
    for p in parts:
        chk.evaluations += p["n"]
        cut += p["cut"]
        chk.failures += p["failures"][: FAIL_CAP - len(chk.failures)]
        chk.samples += p["samples"][: 3 - len(chk.samples)]
    chk.nontrivial = range(cut)  # views of texts that hold a double-width character (every case key is distinct by construction)
    return [chk.result()]


# ======================================================================================================
# C17/attr-map-compose

NAME_ENV = {"AttrSpec": AttrSpec, "frozenset": frozenset}


def _names_pool():
    return [None, "a", "b", "", 0, ("t", 1), frozenset({2}), AttrSpec("dark red", "default"), b"by", 3.5]


def apply_map(m, a):
    """The statement's map application: listed attributes are replaced, all others untouched."""
    return m[a] if a in m else a


def build_chain(base_markup, layers):
    with warnings.catch_warnings():
        warnings.simplefilter("ignore")
        w = Text(base_markup)
        for ly in layers:
            kind = ly[0]
            if kind == "map":
                w = AttrMap(w, dict(ly[1]), None if ly[2] is None else dict(ly[2]))
            elif kind == "single":
                w = AttrMap(w, ly[1], ly[2])
            elif kind == "wrap":
                w = AttrWrap(w, ly[1], ly[2])
            elif kind == "pad":
                w = Padding(w, left=ly[1], right=ly[2])
            else:
                raise ValueError(kind)
    return w


def per_byte(rows):
    out = []
    for row in rows:
        data = b"".join(seg for _a, _cs, seg in row)
        attrs = []
        for a, _cs, seg in row:
            attrs += [a] * len(seg)
        out.append((data, attrs))
    return out


def ref_chain(base_rows, layers, focus):
    """Reference: fold the layers inner-to-outer over the per-byte attributes of the base widget."""
    rows = [(d, list(a)) for d, a in base_rows]
    for ly in layers:
        kind = ly[0]
        if kind == "pad":
            rows = [(b" " * ly[1] + d + b" " * ly[2], [None] * ly[1] + a + [None] * ly[2]) for d, a in rows]
            continue
        if kind == "map":
            amap, fmap = dict(ly[1]), (None if ly[2] is None else dict(ly[2]))
        else:  # "single" / "wrap": one attribute stands for {None: attribute}; focus attribute None = no focus map
            amap = dict(ly[1]) if isinstance(ly[1], dict) else {None: ly[1]}
            fmap = None if ly[2] is None else (dict(ly[2]) if isinstance(ly[2], dict) else {None: ly[2]})
        m = fmap if (focus and fmap is not None) else amap
        rows = [(d, [apply_map(m, x) for x in a]) for d, a in rows]
    return rows


def eval_chain_case(base_markup, layers, width, focus):
    detail = {"base_markup": repr(base_markup), "layers": repr(layers), "width": width, "focus": focus}
    inner_w = width - sum(ly[1] + ly[2] for ly in layers if ly[0] == "pad")
    try:
        base = per_byte([list(r) for r in Text(base_markup).render((inner_w,), focus=focus).content()])
        w = build_chain(base_markup, layers)
        got = per_byte([list(r) for r in w.render((width,), focus=focus).content()])
    except Exception as e:  # noqa: BLE001
        return False, detail | {"why": f"raised {type(e).__name__}: {e}"}
    want = ref_chain(base, layers, focus)
    detail |= {"got": repr(got), "want": repr(want)}
    if len(got) != len(want):
        return False, detail | {"why": "row count"}
    for y, ((gd, ga), (wd, wa)) in enumerate(zip(got, want)):
        if gd != wd:
            return False, detail | {"why": f"row {y}: text changed by an attribute map"}
        for x, (g, wv) in enumerate(zip(ga, wa)):
            if not same(g, wv):
                return False, detail | {"why": f"row {y} byte {x}: attribute should be {wv!r}, is {g!r}"}
    return True, detail


def partial_maps(keys, values):
    """All dicts with keys from `keys` (each absent or mapped to one of `values`)."""
    for combo in itertools.product([*values, "__absent__"], repeat=len(keys)):
        yield {k: v for k, v in zip(keys, combo) if not (isinstance(v, str) and v == "__absent__")}


def run_chain_check(tier, r):
    quick = tier == "quick"
    chk = Check("C17/attr-map-compose", "AttrMap/AttrWrap/Padding chains over Text: per-byte attribute = outer map applied to the result of the inner one, focus map used iff focus and a focus map is given, unlisted attributes and the text untouched, Padding cells None", False, "")
    small = [None, "a", 0]
    base_small = [("a", "xy"), (0, "中"), " z"]  # at width 5: 'xy中' / 'z' + padding: attributes 'a', 0, None all occur
    maps = list(partial_maps(small, small))  # 4^3 = 64
    n = 0
    # 1. every single map, with every focus map (or none), focus off/on
    for m in maps:
        for fm in [None, *maps]:
            for focus in (False, True):
                ly = [("map", m, fm)]
                ok, d = eval_chain_case(base_small, ly, 5, focus)
                chk.case(("1", repr(ly), focus), ok, d, sample={"layers": repr(ly), "focus": focus})
                n += 1
    # 2. every ordered pair of maps (composition), no focus maps
    for m1 in maps:
        for m2 in maps:
            ly = [("map", m1, None), ("map", m2, None)]
            ok, d = eval_chain_case(base_small, ly, 5, False)
            chk.case(("2", repr(ly)), ok, d, sample={"layers": repr(ly)})
            n += 1
    # 3. single-attribute forms (AttrMap(w, attr[, focus]) and AttrWrap) incl. None and falsy names
    for kind in ("single", "wrap"):
        for a in small + [""]:
            for f in [None, "a", 0, ""]:
                for outer in (None, {None: "o", "a": None}, {0: "a", "": "b"}):
                    for focus in (False, True):
                        ly = [(kind, a, f)] + ([("map", outer, {"a": "F"})] if outer is not None else [])
                        ok, d = eval_chain_case(base_small, ly, 5, focus)
                        chk.case(("3", repr(ly), focus), ok, d, sample={"layers": repr(ly), "focus": focus})
                        n += 1
    # 4. seeded chains of up to 3 layers over a larger pool of hashable names, with Padding in between
    pool = _names_pool()
    n_rand = 4000 if quick else 100000

    def rand_map():
        keys = r.sample(range(len(pool)), r.randint(0, 4))
        return {pool[k]: r.choice(pool) for k in keys}

    for _ in range(n_rand):
        tagged = r.sample(range(len(pool)), 3)
        base = [(pool[tagged[0]], "ab"), "c ", (pool[tagged[1]], "中\xe9"), (pool[tagged[2]], "d")]
        layers = []
        for _k in range(r.randint(1, 3)):
            kind = r.choice(("map", "map", "map", "single", "wrap", "pad"))
            if kind == "map":
                layers.append(("map", rand_map(), rand_map() if r.random() < 0.5 else None))
            elif kind == "pad":
                layers.append(("pad", r.randint(0, 2), r.randint(0, 2)))
            else:
                layers.append((kind, r.choice(pool), r.choice([None, *pool])))
        focus = r.random() < 0.5
        width = r.randint(3, 7) + sum(ly[1] + ly[2] for ly in layers if ly[0] == "pad")
        ok, d = eval_chain_case(base, layers, width, focus)
        chk.case(("4", repr(base), repr(layers), width, focus), ok, d, sample={"layers": repr(layers), "focus": focus})
        n += 1
    chk.bound = f"exhaustive: all 64 partial maps over names {{None,'a',0}} x (no focus map | each of the 64) x focus; all 64x64 ordered pairs of maps; single-attribute and AttrWrap forms; plus {n_rand} seeded chains of 1..3 layers (AttrMap dict / single, AttrWrap, Padding) over 10 hashable names (None, '', 0, tuple, frozenset, AttrSpec, bytes, float)"
    return [chk.result()]


# ======================================================================================================
# raw display

DEPTHS = (1, 16, 88, 256, 2**24)
SETTINGS = {"bold": "bold", "italics": "italics", "underline": "underline", "blink": "blink", "standout": "standout", "strikethrough": "strikethrough"}


@contextlib.contextmanager
def _term_env(term="xterm"):
    old = os.environ.get("TERM")
    os.environ["TERM"] = term
    try:
        yield
    finally:
        if old is None:
            del os.environ["TERM"]
        else:
            os.environ["TERM"] = old


def new_screen():
    """A raw Screen on in-memory files (never a terminal); TERM pinned so that bg_bright_is_blink is off
    and the start value of bright_is_bold is False, independent of the caller's environment."""
    from urwid.display.raw import Screen

    with _term_env("xterm"):
        s = Screen(input=io.StringIO(), output=io.StringIO())
    return s


def intended_state(a, bright_is_bold):
    """The rendition an AttrSpec *specifies*, read from its fields (not from its string properties, not
    from get_rgb_values)."""
    if a.foreground_true:
        n = a.foreground_number
        fg = ("rgb", (n >> 16) & 255, (n >> 8) & 255, n & 255)
    elif a.foreground_high or a.foreground_basic:
        fg = ("index", a.foreground_number)
    else:
        fg = DEFAULT
    if a.background_true:
        n = a.background_number
        bg = ("rgb", (n >> 16) & 255, (n >> 8) & 255, n & 255)
    elif a.background_high or a.background_basic:
        bg = ("index", a.background_number)
    else:
        bg = DEFAULT
    flags = {f for f in SETTINGS if getattr(a, f)}
    if bright_is_bold and a.foreground_basic and not a.foreground_high and not a.foreground_true and a.foreground_number >= 8:
        # the terminal "uses the bold setting to create bright colors (numbers 8-15)"
        fg = ("index", a.foreground_number - 8)
        flags.add("bold")
    return SgrState(fg, bg, flags)


def _parse_words(desc):
    """(colour word or None, set of settings) of a comma-separated description; None if malformed."""
    colour = None
    flags = set()
    for part in desc.split(","):
        part = part.strip()
        if part in SETTINGS:
            flags.add(part)
        elif colour is None:
            colour = part
        else:
            return None
    return colour if colour is not None else "", flags


def _direct_colour(word, depth):
    """The colour a palette word names outright, or 'n/a' when it needs a nearest-colour table."""
    if word in ("", "default"):
        return DEFAULT
    if word in BASIC_NAMES:
        return ("index", BASIC_NAMES.index(word))
    if word.startswith("h") and word[1:].isdigit() and depth in (88, 256):
        n = int(word[1:])
        if n < depth:
            return ("index", n)
    if word.startswith("#") and len(word) == 7 and depth == 2**24:
        try:
            v = int(word[1:], 16)
        except ValueError:
            return "n/a"
        return ("rgb", (v >> 16) & 255, (v >> 8) & 255, v & 255)
    return "n/a"


def direct_state(fg_desc, bg_desc, depth, bright_is_bold):
    """Rendition read from the palette strings alone; None when a colour is not named outright."""
    p = _parse_words(fg_desc)
    if p is None:
        return None
    word, flags = p
    fg = _direct_colour(word, depth)
    bg = _direct_colour(bg_desc.strip(), depth)
    if fg == "n/a" or bg == "n/a":
        return None
    if bright_is_bold and word in BASIC_NAMES and fg[1] >= 8:
        fg = ("index", fg[1] - 8)
        flags = flags | {"bold"}
    return SgrState(fg, bg, flags)


def colour_words(depth, r, quick):
    if depth == 1:
        return ["default"]
    words = ["default", *BASIC_NAMES]
    if depth == 88:
        words += [f"h{n}" for n in range(88)]
    elif depth == 256:
        words += [f"h{n}" for n in range(256)]
    elif depth == 2**24:
        edge = (0, 1, 127, 128, 254, 255)
        words += [f"#{rr:02x}{gg:02x}{bb:02x}" for rr in edge for gg in edge for bb in edge]
        words += [f"#{r.randrange(2**24):06x}" for _ in range(300 if quick else 5000)]
        words += [f"h{n}" for n in (0, 7, 8, 15, 16, 231, 232, 255)] + ["#fea", "g50", "g#80"]
    if depth in (88, 256):
        words += ["#000", "#fff", "#f80", "#08f", "g0", "g50", "g100", "g#80", "#102030"]
    return words


def eval_escape_case(fg_desc, bg_desc, depth, bright_is_bold, screen=None):
    detail = {"fg": fg_desc, "bg": bg_desc, "colors": depth, "bright_is_bold": bright_is_bold}
    s = screen or new_screen()
    try:
        s.set_terminal_properties(bright_is_bold=bright_is_bold)
        a = AttrSpec(fg_desc, bg_desc, depth)
        esc = s._attrspec_to_escape(a)
    except Exception as e:  # noqa: BLE001
        return False, detail | {"why": f"raised {type(e).__name__}: {e}"}
    detail["escape"] = repr(esc)
    try:
        got = sgr_decode(esc)
        dirty = SgrState(("index", 5), ("rgb", 1, 2, 3), {"bold", "faint", "italics", "underline", "blink", "standout", "invisible", "strikethrough"})
        got_dirty = sgr_decode(esc, dirty)
    except SgrError as e:
        return False, detail | {"why": f"not decodable as SGR: {e}"}
    want = intended_state(a, bright_is_bold)
    detail |= {"decoded": got.as_json(), "specified": want.as_json()}
    if got != want:
        return False, detail | {"why": "decoded rendition differs from the AttrSpec fields"}
    if got_dirty != got:
        return False, detail | {"why": "the sequence leaves part of the previous rendition in place", "decoded_after_other_attributes": got_dirty.as_json()}
    d = direct_state(fg_desc, bg_desc, depth, bright_is_bold)
    if d is not None and d != got:
        return False, detail | {"why": "decoded rendition differs from what the palette strings name", "named": d.as_json()}
    return True, detail


def run_escape_check(tier, r):
    quick = tier == "quick"
    chk = Check("C17/raw-attrspec-escape", "Screen._attrspec_to_escape(AttrSpec(fg, bg, colors)) decoded by sgr_decode == (foreground, background, style flags) of the AttrSpec fields, independent of the rendition in force before; also == the colours the strings name outright (basic names, default, hN, #rrggbb)", False, "")
    flag_names = list(SETTINGS)
    all_flag_sets = [",".join(c) for k in range(len(flag_names) + 1) for c in itertools.combinations(flag_names, k)]
    few_flags = ["", "bold", "italics", "underline", "blink", "standout", "strikethrough", ",".join(flag_names)]
    s = new_screen()
    for depth in DEPTHS:
        words = colour_words(depth, r, quick)
        bgs_few = ["default"] if depth == 1 else ["default", "dark blue", "dark gray", words[-1], words[len(words) // 2]]
        fgs_few = ["default"] if depth == 1 else ["default", "light red", "brown", words[-1], words[len(words) // 3]]
        for bib in (False, True):
            def one(fgw, fl, bg):
                fg = ",".join(x for x in (fgw, fl) if x) or "default"
                ok, d = eval_escape_case(fg, bg, depth, bib, s)
                chk.case((fg, bg, depth, bib), ok, d, sample={"fg": fg, "bg": bg, "colors": depth, "bright_is_bold": bib})

            for fgw in words:
                for fl in few_flags:
                    for bg in bgs_few[:3]:
                        one(fgw, fl, bg)
            for bg in words if depth > 1 else ["default"]:
                for fgw in fgs_few:
                    for fl in ("", "bold,underline"):
                        one(fgw, fl, bg)
            for fl in all_flag_sets:
                for fgw, bg in zip(fgs_few, bgs_few):
                    one(fgw, fl, bg)
    chk.bound = "colour depths 1/16/88/256: every foreground word (default, 16 names, h0..h87 / h0..h255, sample of #rgb/gN) x 8 flag sets x 3 backgrounds, every background word x 5 foregrounds x 2 flag sets, all 64 flag sets x 5 colour pairs; 2**24: 216 edge #rrggbb + seeded sample; bright_is_bold off/on"
    return [chk.result()]


# ---- palettes ------------------------------------------------------------------------------------


def large_h(desc):
    word = desc.split(",", 1)[0].strip()
    return word.startswith("h") and word[1:].isdigit() and int(word[1:]) > 15


def ref_palette(defs):
    """Independent palette resolver.  name -> dict(fg, bg, mono, fgh, bgh); an alias copies the settings
    its target has at that moment."""
    table = {}
    for d in defs:
        if len(d) == 2:
            table[d[0]] = table[d[1]]
            continue
        name, fg, bg = d[0], d[1], d[2]
        mono = d[3] if len(d) > 3 else None
        fgh = d[4] if len(d) > 4 else None
        bgh = d[5] if len(d) > 5 else None
        if isinstance(mono, tuple):
            mono = ",".join(mono)
        table[name] = {"fg": fg, "bg": bg, "mono": "default" if mono is None else mono, "fgh": fg if fgh is None else fgh, "bgh": bg if bgh is None else bgh}
    return table


def entry_strings(e, depth):
    """(fg string, bg string, depth the strings are read at) of a resolved entry for a colour depth."""
    if depth == 1:
        return e["mono"], "default", 1
    if depth == 16:
        return e["fg"], e["bg"], 16
    if depth == 88 and (large_h(e["fgh"]) or large_h(e["bgh"])):
        return e["fg"], e["bg"], 16
    return e["fgh"], e["bgh"], depth


UNIQ = [chr(c) for c in range(0x100, 0x250)]  # narrow letters, one per attribute in a drawn chunk
UNIQ_INDEX = {c: i for i, c in enumerate(UNIQ)}


def draw_and_decode(screen, attrs):
    """Draw one character per attribute (canvas built by the real Text widget, two columns wide, the last
    row full so that the insert-mode path of the bottom-right cell is taken) and follow the rendition
    through everything draw_screen wrote.  Returns {index: SgrState at the time the character was sent},
    list of renditions in force at each erase-to-end-of-line."""
    res = {}
    erases = []
    for base in range(0, len(attrs), len(UNIQ) - 1):
        chunk = attrs[base : base + len(UNIQ) - 1]
        markup = []
        for k, a in enumerate(chunk):
            markup.append((a, UNIQ[k]))
            if k < len(chunk) - 1:
                markup.append("\n")
        markup.append((chunk[0], UNIQ[len(chunk)]))  # fills the last row
        canv = Text(markup).render((2,))
        out = screen._term_output_file
        out.seek(0)
        out.truncate()
        screen.clear()
        screen._started = True  # in-memory files: nothing to set up, and start() is for terminals
        try:
            screen.draw_screen((2, canv.rows()), canv)
        finally:
            screen._started = False
        data = out.getvalue()
        st = SgrState()
        last = None
        for tok in scan(data):
            if tok[0] == "sgr":
                st = sgr_apply(st, tok[1])
            elif tok[0] == "text":
                for ch in tok[1]:
                    k = UNIQ_INDEX.get(ch)
                    if k is not None:
                        if k < len(chunk):
                            res[base + k] = st
                            last = base + k
            elif tok[0] == "csi" and tok[2] == "K":
                erases.append((last, st))
    return res, erases


def eval_palette_case(defs, depth, bright_is_bold, order, names=None):
    """Register `defs` on a fresh screen in the given call order, draw every name and compare."""
    detail = {"palette": repr(defs), "colors": depth, "bright_is_bold": bright_is_bold, "order": order}
    table = ref_palette(defs)
    names = list(table) if names is None else names
    extra = ["never registered", ("undefined", 1), 0]
    direct = AttrSpec("light green,underline", "dark magenta", 16)  # an AttrSpec object used as the attribute itself
    old = get_encoding()
    fails = []
    try:
        set_encoding("utf-8")
        s = new_screen()
        tuples = [d for d in defs]
        if order == "palette-then-properties":
            s.register_palette(tuples)
            s.set_terminal_properties(colors=depth, bright_is_bold=bright_is_bold)
        elif order == "properties-then-palette":
            s.set_terminal_properties(colors=depth, bright_is_bold=bright_is_bold)
            s.register_palette(tuples)
        elif order == "properties-then-entries":
            s.set_terminal_properties(colors=depth, bright_is_bold=bright_is_bold)
            for d in tuples:
                if len(d) == 2:
                    s.register_palette([d])
                else:
                    s.register_palette_entry(*d)
        else:
            raise ValueError(order)
        attrs = [*names, *extra, None, direct]
        got, erases = draw_and_decode(s, attrs)
    except Exception as e:  # noqa: BLE001
        return [(None, False, detail | {"why": f"raised {type(e).__name__}: {e}"})]
    finally:
        set_encoding(old)
        CanvasCache.clear()
    out = []
    for i, a in enumerate(attrs):
        d = dict(detail, name=repr(a))
        if i not in got:
            out.append((a, False, d | {"why": "the character drawn with this attribute never reached the output"}))
            continue
        d["decoded"] = got[i].as_json()
        if i < len(names):
            fg, bg, at = entry_strings(table[a], depth)
            d |= {"entry_fg": fg, "entry_bg": bg, "read_at_colors": at}
            try:
                spec = AttrSpec(fg, bg, at)
            except Exception as e:  # noqa: BLE001
                out.append((a, False, d | {"why": f"palette strings rejected: {type(e).__name__}: {e}"}))
                continue
            want = intended_state(spec, bright_is_bold)
            d["specified"] = want.as_json()
            if got[i] != want:
                out.append((a, False, d | {"why": "drawn rendition differs from the palette entry for this colour depth"}))
                continue
            dd = direct_state(fg, bg, at, bright_is_bold)
            if dd is not None and dd != got[i]:
                out.append((a, False, d | {"why": "drawn rendition differs from what the palette strings name", "named": dd.as_json()}))
                continue
            out.append((a, True, d))
        elif a is direct:
            d["name"] = "AttrSpec('light green,underline', 'dark magenta', 16) used as the attribute"
            ok = got[i] == intended_state(direct, bright_is_bold)
            out.append(("<AttrSpec object>", ok, d | ({} if ok else {"why": "an AttrSpec used as attribute is not drawn as its fields say", "specified": intended_state(direct, bright_is_bold).as_json()})))
        else:
            ok = got[i] == SgrState()
            out.append((a, ok, d | ({} if ok else {"why": "an undefined name / None is not drawn with the default rendition"})))
    for last, st in erases:
        # the blanks removed from the end of a row are padding (attribute None -> default background)
        if st.bg != DEFAULT:
            out.append((("erase", last), False, dict(detail, why="erase-to-end-of-line issued with a non-default background for padding cells", decoded=st.as_json())))
    return out


def palette_defs(r, quick):
    """Palettes covering every entry form.  Returns list of (label, defs)."""
    forms = [
        ("n3", "light red,bold", "dark blue"),
        ("n3d", "default", "default"),
        ("n3e", "", ""),
        ("n4", "yellow", "dark gray", "underline"),
        ("n4t", "white", "black", ("bold", "standout")),
        ("n4e", "dark magenta,blink", "light gray", ""),
        ("n6", "dark green,italics", "light gray", "bold,blink", "#fea,underline", "g50"),
        ("n6n", "brown", "default", None, None, None),
        ("n6f", "dark cyan", "brown", None, "#f80", None),
        ("n6b", "dark cyan", "brown", "italics", None, "g#80"),
        ("n6h", "default", "default", "strikethrough", "h200", "h9"),
        ("n6h2", "light blue", "black", None, "h12,bold", "h20"),
        ("n6t", "light cyan", "dark magenta", "", "#23facc,strikethrough", "#102030"),
        ("n6m", "dark red", "default", "standout", "light blue,bold", "dark gray"),
        ("n6s", "black", "white", "bold", "default,standout,blink", "default"),
        ("n6x", "light gray", "black", "underline", "#000,italics", "#fff"),
        (("tuple", "name"), "light green", "default"),
        (7, "light magenta", "dark green"),
        ("al1", "n6"),
        ("al2", "al1"),
        ("al3", "n3"),
        ("al4", "n6t"),
        ("n3", "dark cyan,underline", "default"),  # re-registration after al3 copied the first n3
        ("al5", "n3"),
        ("al6", ("tuple", "name")),
    ]
    out = [("all-forms", forms), ("alias-only-after", [("base", "light red", "dark blue", "bold", "#f00", "#00f"), ("al", "base")])]
    # systematic product of entry strings
    fg16 = ["default", "dark red", "light red,bold", "white,underline,standout"]
    bg16 = ["default", "dark blue", "light gray", "yellow"]
    monos = [None, "bold", "underline,standout", ("italics", "blink"), "strikethrough"]
    fgh = [None, "h17", "#f80,bold", "g#80", "#804020", "light green", "default,italics", "h9", ""]
    bgh = [None, "h250", "#08f", "g19", "#fedcba", "dark gray", "default", ""]
    prod = []
    k = 0
    for f in fg16:
        for b in bg16:
            for m in monos:
                prod.append((f"p3_{k}", f, b) if m is None and k % 2 else (f"p4_{k}", f, b, m))
                k += 1
    for f in fg16[:3]:
        for b in bg16[:3]:
            for m in monos[:3]:
                for fh in fgh:
                    for bh in bgh:
                        if quick and (k % 3):
                            k += 1
                            continue
                        prod.append((f"p6_{k}", f, b, m, fh, bh))
                        k += 1
    # aliases sprinkled in: every 7th entry gets an alias right after it
    defs = []
    for i, d in enumerate(prod):
        defs.append(d)
        if i % 7 == 0:
            defs.append((f"alias_of_{d[0]}", d[0]))
    out.append(("product", defs))
    # every KIND of value in the optional fields against 16-colour fields that carry a colour and settings.  The documented
    # reading (register_palette_entry): in foreground_high / background_high None -- and only None -- means "use the
    # foreground / background value"; "" and "default" name the default colour (so the 16-colour colour AND its settings
    # must not show at 88 / 256 / 2**24 colours); a setting without a colour leaves the colour default; mono None / "" /
    # "default" are all "no settings".  3- and 4-value forms are the 6-value form with the missing fields None.
    f16 = ["light red,bold", "dark green,underline", "yellow,bold,underline", "default,bold", "white"]
    b16 = ["dark blue", "light gray", "default"]
    high_f = [None, "", "default", "bold", "default,underline", "#f80", "light blue,standout", "h9"]
    high_b = [None, "", "default", "#08f", "dark gray", "h250"]
    mono_k = [None, "", "default", "bold", ("underline", "standout")]
    kinds = []
    k = 0
    for f in f16:
        for b in b16:
            kinds.append((f"k3_{k}", f, b))
            kinds.append((f"k4_{k}", f, b, mono_k[k % len(mono_k)]))
            for fh in high_f:
                for bh in high_b:
                    k += 1
                    if quick and fh not in (None, "", "default") and bh not in (None, "", "default") and k % 4:
                        continue  # (colour x colour is the product palette's subject; the None / "" / "default" rows are kept whole)
                    kinds.append((f"k6_{k}", f, b, mono_k[k % len(mono_k)], fh, bh))
                    if fh == "" or bh == "":
                        kinds.append((f"alias_of_k6_{k}", f"k6_{k}"))
                        if k % 5 == 0:
                            kinds.append((f"alias2_of_k6_{k}", f"alias_of_k6_{k}"))
    out.append(("optional-field-kinds", kinds))
    return out


def run_palette_check(tier, r):
    quick = tier == "quick"
    rule = "register_palette/register_palette_entry (3-, 4-, 6-tuples, re-registration{}) x set_terminal_properties(colors, bright_is_bold) in either call order -> draw_screen: the rendition in force when a character of attribute `name` is sent == the palette entry for the colour depth (AttrSpec fields and, where named outright, the strings){}"
    chk = Check("C17/raw-palette-draw", rule.format("", "; undefined names, other hashables and None -> default rendition; padding erased with the default background"), True, "")
    chk_a = Check("C17/raw-palette-draw-aliases", rule.format(", names registered as (name, like_other_name) aliases incl. alias chains and aliases of re-registered entries", ""), True, "")
    orders = ("palette-then-properties", "properties-then-palette", "properties-then-entries")
    for label, defs in palette_defs(r, quick):
        aliases = {d[0] for d in defs if len(d) == 2}
        table = ref_palette(defs)
        for depth in DEPTHS:
            for bib in (False, True):
                for order in orders:
                    for name, ok, d in eval_palette_case(defs, depth, bib, order):
                        d["palette_label"] = label
                        is_alias = False
                        with contextlib.suppress(TypeError):
                            is_alias = name in aliases
                        if not ok and name in table:
                            # keep the detail replayable but small: only the entries this name depends on
                            d["palette"] = repr(_closure(defs, name))
                        (chk_a if is_alias else chk).case((label, repr(name), depth, bib, order), ok, d, sample={"palette": label, "name": repr(name), "colors": depth, "bright_is_bold": bib, "order": order})
    chk.bound = chk_a.bound = "4 palettes (25 hand-written entries of every form incl. alias chains, non-string names and re-registration; a base entry plus one alias; a product of 4 fg x 4 bg x 5 mono x 9 fg_high x 8 bg_high strings with an alias after every 7th entry; 5 fg x 3 bg with a colour and settings as 3-, 4- and 6-value entries whose foreground_high / background_high are each of None, '', 'default', a setting alone, default + setting, colours (8 x 6 kinds; quick: colour x colour pairs sampled 1 in 4) and mono each of None, '', 'default', settings, tuple, with aliases and alias chains of every entry that has an empty high field) x colours {1,16,88,256,2**24} x bright_is_bold off/on x 3 call orders (palette before the terminal properties, after them, entry by entry); 3 undefined attributes and None in every drawing"
    return [chk.result(), chk_a.result()]


def _closure(defs, name):
    """The sub-palette a single name depends on (same order), for a small replayable detail."""
    need = {name}
    changed = True
    while changed:
        changed = False
        for d in defs:
            if d[0] in need and len(d) == 2 and d[1] not in need:
                need.add(d[1])
                changed = True
    return [d for d in defs if d[0] in need]


# ======================================================================================================


def run(tier="quick", seed=0):
    r = rng(seed)
    checks = []
    # markup decomposition
    c1 = Check("C17/markup-decompose", "decompose_tagmarkup(markup): text = concatenation of the parts, unit i carries the attribute of the innermost tuple enclosing it (ref_flatten), runs never exceed the text", False, "")
    c1e = Check("C17/markup-decompose-empty-parts", "the same for markup trees that contain '' / b'' / [] parts", False, "")
    for m in decompose_cases(tier, r):
        ok, d = judge_decompose(m)
        (c1e if has_empty_part(m) else c1).case(repr(m), ok, d, sample={"markup": repr(m)})
    c1.bound = c1e.bound = "all trees leaf|(tag,T)|[T*0..3] of height <= 2 over 3 piece lists (str with wide/2-byte characters and newline; str with empty pieces; bytes), tags {'x','y',None}; tag chains of depth 1..3; seeded random trees of height <= 4 with falsy tags (0, '')"
    checks += [c1.result(), c1e.result()]
    checks += run_text_checks(tier, r)
    checks += run_clip_check(tier, r)
    checks += run_chain_check(tier, r)
    checks += run_escape_check(tier, r)
    checks += run_palette_check(tier, r)
    bound = "markup trees of height <= 4; texts <= 7 characters over 7 character classes x sizes 1..6,() x 4 wraps x 3 aligns x {utf-8 str/bytes, iso8859-1, euc-jp}; AttrMap/AttrWrap/Padding chains <= 3 over 10 hashable names x focus; every colour word per depth {1,16,88,256} and a sample at 2**24 x 64 flag sets x bright_is_bold; palettes of all entry forms x 5 depths x bright_is_bold x 3 call orders through draw_screen"
    return {"checks": checks, "bound": bound}


def _lit(s):
    return eval(s, {"__builtins__": {}}, dict(NAME_ENV))  # noqa: S307  (details are produced by this module)


def replay(check_name, case):
    if check_name.startswith("C17/markup-decompose"):
        ok, d = judge_decompose(_lit(case["markup"]))
    elif check_name.startswith("C17/text-cell-attrs"):
        old = get_encoding()
        try:
            set_encoding(case["encoding"])
            CanvasCache.clear()
            size = case["size"]
            ok, d = eval_text_case(ast.literal_eval(case["markup"]), case["encoding"], size[0] if size else 0, case["wrap"], case["align"])
            if ok is None:
                ok = True
        finally:
            set_encoding(old)
            CanvasCache.clear()
            _plain_cache.clear()
    elif check_name == "C17/canvas-clip-attrs":
        old = get_encoding()
        try:
            set_encoding(case["encoding"])
            CanvasCache.clear()
            ok, d = eval_clip_case(ast.literal_eval(case["markup"]), case["encoding"], case["route"], ast.literal_eval(case["param"]))
        finally:
            set_encoding(old)
            CanvasCache.clear()
    elif check_name == "C17/attr-map-compose":
        ok, d = eval_chain_case(_lit(case["base_markup"]), _lit(case["layers"]), case["width"], case["focus"])
    elif check_name == "C17/raw-attrspec-escape":
        ok, d = eval_escape_case(case["fg"], case["bg"], case["colors"], case["bright_is_bold"])
    elif check_name.startswith("C17/raw-palette-draw"):
        defs = _lit(case["palette"])
        res = eval_palette_case(defs, case["colors"], case["bright_is_bold"], case["order"])
        want = case.get("name")
        hit = [x for x in res if repr(x[0]) == want] or [x for x in res if not x[1]] or res
        bad = [x for x in hit if not x[1]]
        ok, d = (False, bad[0][2]) if bad else (True, hit[0][2])
    else:
        return {"outcome": "not-reproduced", "detail": {"why": f"unknown check {check_name}"}}
    return {"outcome": "not-reproduced" if ok else "confirmed", "detail": d}
