"""C07 bounded stand-in: the real ListBox driven through every short history on small lists.

Statement (properties.jsonl): after any history of keys / mouse events / resizes / focus and alignment
requests / walker insertions, deletions, replacements, `ListBox.render` does not raise and shows a
contiguous slice of the vertical concatenation of the items' renderings; a row of the focus item and
its cursor row are visible; no blank rows on top; blank rows at the bottom only when everything is
shown; a button-1 press on a visible selectable item focuses it.

Reference: the list is a plain Python list of item descriptions mirrored by the harness
(insert/delete/replace with list semantics).  What each item renders to at a width comes from the
item's *description* (labels `<letter><row>`), for edit boxes from a fresh clone of the edit box with
the same text (never from the widget instance inside the list box, so no cache is shared with the code
under test).  The oracle (spec/listwindow.py) decomposes the rendered rows against that concatenation.

Item alphabet beyond plain texts and edit boxes (added when seeded changes in ListBox.mouse_event and in
canvas.shards_trim_top went unnoticed): (1) the SAME widget object at several list positions (two reference
entries with the same label; walker keys stay distinct), also produced by the history operation "dup" (the
focus widget inserted once more); (2) items described by a tree (DESCR; reference renderer spec/listitems.py,
independent of urwid): texts with display attributes, a selectable text whose attribute depends on the focus
flag, Columns with columns of unequal height, Columns holding a Pile, Pile of Columns - their canvases carry
child canvases that continue through several shards, and the boxes are shorter than the items, so key /
wheel / page / alignment / resize histories cut them at the top (by one row up to all but one) and at the
bottom.  The rows shown are compared with the concatenation on FULL cell content: every cell's text byte,
display attribute and character set (canonical run-length form), not on the text alone.

Exploration: breadth-first over histories from each initial configuration; after every operation the
list box is rendered (as a main loop does) and judged.  Histories that lead to the same *complete*
state signature (size, every item's text/cursor/preferred column, walker focus, offset_rows,
inset_fraction, pref_col, pending focus / alignment requests, the rows and cursor just rendered,
whether the canvas cache holds this view) are merged: only the first is extended.  Every extension is
executed from scratch on fresh widgets (no state is copied).  A second family of configurations
(cfg["render"] = "sparse" / "cold") applies several operations between two renders, as one callback of
an application would (plain enumeration, nothing merged).

Readings of the statement fixed here (see also spec/listwindow.py):
 * "its items' renderings" = what each item's own render((maxcol,), focus) yields, with the focus flag
   the list box passes (its own flag for the focus item, False for the others).  Two false alarms of a
   first formulation were corrected: a focused Edit shifts a full line to keep the cursor on screen, and
   an Edit that lost the focus may still return that shifted row (an Edit/Text cache fault, not the
   list box's) - see `_clone` and `World.rows_per_item`.
 * The last rendered canvas is kept referenced until the next render (the screen does the same), so
   the canvas cache behaves as under a main loop.
 * "At least one row of the focus item is visible" is not applicable when the focus item has 0 rows.
 * The statement only says that *rendering* never raises; an operation (keypress, mouse_event, ...)
   that raises is recorded under the separate check C07/event-no-raise, with valid positions only
   (set_focus on an empty list or to a missing position is never generated).
 * "A button-1 press on a visible selectable item": visible = shown by the render that precedes the
   press (same size, focus=True), which is what the user sees and points at.
"""
from __future__ import annotations

import multiprocessing
import os
import time
import warnings

import urwid
from urwid.canvas import CanvasCache, SolidCanvas

from bounded.common import rng
from spec import listitems as li
from spec import listwindow as lw

ID = "C07"
CLAUSES = ["render-no-raise", "event-no-raise", "contiguous-slice", "blank-rows", "focus-visible", "cursor-visible", "click-focus"]
RULES = {
    "render-no-raise": "ListBox.render(size, focus) after the history returns a canvas of exactly size (no exception, no ListBoxError)",
    "event-no-raise": "the last operation of the history itself (keypress / mouse_event / set_focus / set_focus_valign / walker insert, delete, replace) does not raise (valid positions only)",
    "contiguous-slice": "rows shown == blank* + C[s:s+k] + blank* for the concatenation C of the reference list's item renderings at that width",
    "blank-rows": "no blank row above the slice; blank rows below only if the slice ends at the last row of the list and starts at its first",
    "focus-visible": "the window meets the rows of the item lb.focus_position designates (n/a for a 0-row focus item)",
    "cursor-visible": "render(focus=True) with a focus item that reports a cursor: canvas.cursor == (cx, row of that item row in the view), inside the window",
    "click-focus": "button-1 press on a view row that (by the preceding render at the same size, focus=True) shows a selectable item: lb.focus_position designates that item right after mouse_event",
    "random-histories": "seeded random long histories on random lists (every step judged on all clauses above)",
}

WIDTHS = (3, 9)
# Triage: the Edit/Text cache fault described in World.rows_per_item (an Edit that lost the focus still
# returning its cursor-shifted row) has been repaired in the tree ("fix:" commit in urwid/widget/edit.py:
# Edit.render no longer goes through Text's focus-blind cached render), so the alternative rendering is
# no longer admitted: every item that is not the focus must show its focus=False rendering, which is what
# the statement's "its items' renderings" means.  Set to True only to judge a tree without that fix.
ADMIT_STALE_EDIT = False
MAXROWS_CLAMP = (1, 6)
TALL = 7


# --------------------------------------------------------------------------------------------- items
class SelText(urwid.Text):
    """The tutorial idiom for a selectable line of text without a cursor."""

    _selectable = True

    def keypress(self, size, key):
        return key


class ZeroSel(urwid.Widget):
    """A selectable flow widget of height 0."""

    _sizing = frozenset([urwid.FLOW])
    _selectable = True

    def rows(self, size, focus=False):
        return 0

    def render(self, size, focus=False):
        return SolidCanvas(" ", size[0], 0)

    def keypress(self, size, key):
        return key

    def mouse_event(self, size, event, button, col, row, focus):
        return False


def _lines(label, h):
    return [f"{label}{i}" for i in range(h)]


# Items described by a tree (spec/listitems.py): attribute-bearing leaves and composites whose canvases have
# child canvases running through several shards (columns of unequal height, a pile inside a column, columns
# inside a pile).  Added so that the window is checked on FULL cell content (text, attribute, character set)
# and on canvases that the list box must trim at the top / bottom across shard boundaries.
DESCR = {
    "a1": ("A", 1),
    "a3": ("A", 3),
    "a7": ("A", 7),
    "m3": ("M", 3),
    "Cu": ("C", [(2, ("T", 4)), (1, ("T", 1))]),  # left column taller
    "Cv": ("C", [(1, ("T", 1)), (2, ("T", 4))]),  # right column taller
    "Cp": ("C", [(2, ("P", [("T", 2), ("T", 2)])), (1, ("T", 3))]),  # a pile inside a column
    "Pc": ("P", [("C", [(2, ("T", 2)), (1, ("T", 1))]), ("T", 1), ("C", [(1, ("T", 1)), (2, ("T", 3))])]),  # columns inside a pile
    "Cs": ("C", [(2, ("A", 4)), (1, ("T", 2))]),  # selectable, focus-dependent attribute
    "Ct": ("C", [(2, ("T", 7)), (1, ("P", [("T", 2), ("M", 3)]))]),  # taller than every box
    "Ps": ("P", [("T", 1), ("C", [(1, ("T", 3)), (2, ("A", 2))]), ("T", 1)]),  # selectable pile of columns
}


def build_desc(desc, texts):
    tag = desc[0]
    if tag == "T":
        return urwid.Text("\n".join(next(texts)))
    if tag == "M":
        markup = []
        for r, ln in enumerate(next(texts)):
            if r:
                markup.append("\n")
            markup.append((f"x{r % 2}", ln))
        return urwid.Text(markup)
    if tag == "A":
        return urwid.AttrMap(SelText("\n".join(next(texts))), "n", "F")
    if tag == "P":
        return urwid.Pile([build_desc(c, texts) for c in desc[1]])
    if tag == "C":
        return urwid.Columns([(w, build_desc(c, texts)) for w, c in desc[1]])
    raise ValueError(desc)


def kind_info(kind):
    """-> (family, height-or-'w', param)"""
    if kind in ("z0", "zs"):
        return "z", 0, None
    fam = kind[0]
    rest = kind[1:]
    param = None
    if "." in rest:
        rest, p = rest.split(".")
        param = int(p)
    h = "w" if rest == "w" else int(rest)
    return fam, h, param


def kind_selectable(kind):
    if kind in DESCR:
        return li.selectable(DESCR[kind])
    return kind[0] in "sei" or kind == "zs"


def item_text(kind, label):
    fam, h, _p = kind_info(kind)
    if h == "w":
        return " ".join(_lines(label, 3))
    return "\n".join(_lines(label, h))


def build_item(kind, label):
    if kind in DESCR:
        return build_desc(DESCR[kind], iter(li.leaf_lines(DESCR[kind], label)))
    fam, h, param = kind_info(kind)
    if kind == "z0":
        return urwid.Pile([])
    if kind == "zs":
        return ZeroSel()
    text = item_text(kind, label)
    if fam == "t":
        return urwid.Text(text)
    if fam == "s":
        return SelText(text)
    if fam == "i":
        return urwid.SelectableIcon(text, param or 0)
    if fam == "e":
        e = urwid.Edit("", text, multiline=True)
        e.set_edit_pos(min(param or 0, len(text)))
        return e
    raise ValueError(kind)


def _wrap_words(words, width):
    """Reference for the width-dependent text 'L0 L1 L2' (words of 2 columns, space wrapping)."""
    out, cur = [], ""
    for w in words:
        if not cur:
            cur = w
        elif len(cur) + 1 + len(w) <= width:
            cur += " " + w
        else:
            out.append(cur)
            cur = w
    out.append(cur)
    return out


_CLONE_CACHE = {}


def _clone(text, pos, width, focus=False):
    """(rows, cursor) of a FRESH edit box with this text and cursor offset (not the instance in the list).

    Oracle correction (false alarm on the first run): an edit box renders differently with and without
    the focus - with the focus, a line whose cursor sits in the column after a full line is shifted so
    the cursor is on screen ("a0x" at 3 columns shows "0x " + cursor).  "The item's rendering" is
    therefore taken with the focus flag the list box must pass: `focus` for the focus item, False for
    every other item."""
    key = (text, pos, width, focus)
    r = _CLONE_CACHE.get(key)
    if r is None:
        c = urwid.Edit("", text, multiline=True)
        c.set_edit_pos(pos)
        r = ([li.canon(row) for row in c.render((width,), focus).content()], c.get_cursor_coords((width,)))
        if len(_CLONE_CACHE) < 200000:
            _CLONE_CACHE[key] = r
    return r


def _static_lines(kind, label, width):
    _fam, h, _p = kind_info(kind)
    return _wrap_words(_lines(label, 3), width) if h == "w" else _lines(label, h)


def expected_rows(kind, label, width, edit_state=None, focus=False):
    """Rows an item shows (canonical cell content: runs of (attribute, character set, bytes), see
    spec/listitems.py), from its description; edit boxes via a fresh clone."""
    if kind in ("z0", "zs"):
        return []
    if kind in DESCR:
        return [li.runs(row) for row in li.render(DESCR[kind], label, width, focus)]
    if kind[0] == "e":
        return _clone(edit_state[0], edit_state[1], width, focus)[0]
    return [li.plain(ln.encode().ljust(width)) for ln in _static_lines(kind, label, width)]


def expected_cursor(kind, label, width, edit_state):
    """(cx, cy) inside the item when it has the focus, or None."""
    if kind in DESCR:
        return None  # selectable leaves of described items are cursor-less texts
    if kind[0] == "e":
        return _clone(edit_state[0], edit_state[1], width, True)[1]
    if kind[0] == "i":
        # SelectableIcon: fixed cursor at a text offset; every line is followed by one separator
        off = kind_info(kind)[2] or 0
        for y, ln in enumerate(_static_lines(kind, label, width)):
            if off <= len(ln):
                return (off, y) if off < width else None
            off -= len(ln) + 1
        return None
    return None


# ------------------------------------------------------------------------------------------- walkers
class MinimalWalker(urwid.ListWalker):
    """A custom walker with exactly the documented "List Walker API Version 1" (get_focus, set_focus,
    get_next, get_prev; `positions()` is documented as optional and is absent here).
    Positions are stable opaque keys (the item labels), not indices."""

    def __init__(self, pairs):
        self.items = list(pairs)  # [(key, widget)]
        self.focus_key = self.items[0][0] if self.items else None

    def _idx(self, key):
        for i, (k, _w) in enumerate(self.items):
            if k == key:
                return i
        raise KeyError(key)

    def get_focus(self):
        if not self.items:
            return None, None
        return self.items[self._idx(self.focus_key)][1], self.focus_key

    def set_focus(self, key):
        try:
            self._idx(key)
        except KeyError:
            raise IndexError(f"no item at position {key!r}") from None  # the documented exception
        self.focus_key = key
        self._modified()

    def get_next(self, key):
        try:
            i = self._idx(key)
        except KeyError:
            return None, None
        if i + 1 >= len(self.items):
            return None, None
        return self.items[i + 1][1], self.items[i + 1][0]

    def get_prev(self, key):
        try:
            i = self._idx(key)
        except KeyError:
            return None, None
        if i == 0:
            return None, None
        return self.items[i - 1][1], self.items[i - 1][0]

    # mutation API used by the harness
    def insert(self, i, key, w):
        self.items.insert(i, (key, w))
        if self.focus_key is None:
            self.focus_key = key
        self._modified()

    def delete(self, i):
        key = self.items[i][0]
        del self.items[i]
        if key == self.focus_key:
            if not self.items:
                self.focus_key = None
            else:
                self.focus_key = self.items[min(i, len(self.items) - 1)][0]
        self._modified()

    def replace(self, i, key, w):
        old = self.items[i][0]
        self.items[i] = (key, w)
        if old == self.focus_key:
            self.focus_key = key
        self._modified()


class KeyWalker(MinimalWalker):
    """The same walker with the optional iteration helper."""

    def positions(self, reverse=False):
        ks = [k for k, _w in self.items]
        return ks[::-1] if reverse else ks


# -------------------------------------------------------------------------------------------- world
class World:
    """One list box + the reference list."""

    def __init__(self, cfg):
        self.cfg = cfg
        self.ref = [[k, lab] for k, lab in cfg["items"]]  # reference list of descriptions
        # two entries with the same label are THE SAME widget object sitting at two positions of the list (the
        # way one Divider / one "more" button is reused); walker keys stay unique (label, label', label'', ...)
        built = {}
        self.widgets = []
        self.keys = []
        for k, lab in self.ref:
            if lab not in built:
                built[lab] = [build_item(k, lab), 0]
            else:
                built[lab][1] += 1
            self.widgets.append(built[lab][0])
            self.keys.append(lab + "'" * built[lab][1])
        wk = cfg["walker"]
        if wk == "slw":
            self.walker = urwid.SimpleListWalker(list(self.widgets))
        elif wk == "sflw":
            self.walker = urwid.SimpleFocusListWalker(list(self.widgets))
        elif wk == "key":
            self.walker = KeyWalker(list(zip(self.keys, self.widgets)))
        elif wk == "min":
            self.walker = MinimalWalker(list(zip(self.keys, self.widgets)))
        else:
            raise ValueError(wk)
        self.keyed = wk in ("key", "min")
        self.lb = urwid.ListBox(self.walker)
        self.size = tuple(cfg["size"])
        self.focus = bool(cfg["focus"])
        self.fresh = 0  # labels handed out to inserted items

    # positions <-> reference indices
    def pos_of(self, idx):
        return self.keys[idx] if self.keyed else idx

    def idx_of(self, pos):
        if self.keyed:
            if pos not in self.keys:
                raise KeyError(pos)
            return self.keys.index(pos)
        return pos

    def focus_idx(self):
        if not self.ref:
            return None
        return self.idx_of(self.lb.focus_position)

    def edit_state(self, i):
        w = self.widgets[i]
        if isinstance(w, urwid.Edit):
            return (w.edit_text, w.edit_pos)
        return None

    def rows_per_item(self, focus_idx):
        """-> list of admissible concatenation inputs (normally one).

        Oracle correction (false alarm): an Edit that has LOST the focus may still render its
        cursor-shifted line ("2x " instead of "b2x"): Edit.render(focus=False) goes through Text's cached
        render, whose cache key ignores the focus flag, and finds the canvas drawn while it had the
        focus (as long as the previous screen canvas is alive, which it is under a main loop and in this
        harness).  `e.render((3,), False)` itself returns the shifted row in that state, so the list box
        shows exactly "the item's rendering"; the fault is Edit's (reported separately, not a C07
        failure).  For an edit box NOT in focus both renderings are therefore admissible."""
        width = self.size[0]
        base = [expected_rows(k, lab, width, self.edit_state(i), self.focus and i == focus_idx) for i, (k, lab) in enumerate(self.ref)]
        variants = [base]
        if self.focus and ADMIT_STALE_EDIT:
            for i, (k, lab) in enumerate(self.ref):
                if k[0] == "e" and i != focus_idx:
                    alt = expected_rows(k, lab, width, self.edit_state(i), True)
                    if alt != base[i] and len(variants) < 8:
                        variants += [[*v[:i], alt, *v[i + 1 :]] for v in variants]
        return variants

    def apply(self, op):
        """Apply one operation to the real objects (and mirror list operations on the reference)."""
        kind = op[0]
        lb = self.lb
        if kind == "key":
            lb.keypress(self.size, op[1])
        elif kind == "click":
            _k, button, col, row = op
            lb.mouse_event(self.size, "mouse press", button, col, row, self.focus)
        elif kind == "focus":
            lb.set_focus(self.pos_of(op[1]), op[2])
        elif kind == "valign":
            v = op[1]
            lb.set_focus_valign(tuple(v) if isinstance(v, list) else v)
        elif kind == "size":
            self.size = (op[1], op[2])
        elif kind == "ins":
            _k, i, k, lab = op
            w = build_item(k, lab)
            self.ref.insert(i, [k, lab])
            self.widgets.insert(i, w)
            self.keys.insert(i, lab)
            if self.keyed:
                self.walker.insert(i, lab, w)
            else:
                self.walker.insert(i, w)
        elif kind == "dup":  # the widget object at index j is inserted once more, at index i (walker key: fresh)
            _k, i, j, key = op
            w = self.widgets[j]
            self.ref.insert(i, list(self.ref[j]))
            self.widgets.insert(i, w)
            self.keys.insert(i, key)
            if self.keyed:
                self.walker.insert(i, key, w)
            else:
                self.walker.insert(i, w)
        elif kind == "del":
            i = op[1]
            del self.ref[i]
            del self.widgets[i]
            del self.keys[i]
            if self.keyed:
                self.walker.delete(i)
            else:
                del self.walker[i]
        elif kind == "rep":
            _k, i, k, lab = op
            w = build_item(k, lab)
            self.ref[i] = [k, lab]
            self.widgets[i] = w
            self.keys[i] = lab
            if self.keyed:
                self.walker.replace(i, lab, w)
            else:
                self.walker[i] = w
        else:
            raise ValueError(op)

    def signature(self, R, cursor):
        lb = self.lb
        items = []
        for (k, lab), w in zip(self.ref, self.widgets):
            if isinstance(w, urwid.Edit):
                items.append((k, lab, w.edit_text, w.edit_pos, w.pref_col_maxcol, getattr(w, "_shift_view_to_cursor", None)))
            else:
                items.append((k, lab))
        pend = lb.set_focus_pending
        if isinstance(pend, tuple):
            pend = (pend[0], pend[2])
        try:
            fpos = self.walker.get_focus()[1]
        except Exception as e:  # noqa: BLE001  (a broken walker state is part of the signature)
            fpos = ("raises", type(e).__name__)
        cached = CanvasCache.fetch(lb, urwid.ListBox, self.size, self.focus) is not None
        return (self.size, tuple(items), fpos, lb.offset_rows, lb.inset_fraction, lb.pref_col, pend, lb.set_focus_valign_pending, R, cursor, cached)


def _exc(e):
    s = f"{type(e).__name__}: {e}"
    return s.split("\n")[0][:200]


def _exc_class(e):
    import re

    s = f"{type(e).__name__}: {str(e).splitlines()[0] if str(e) else ''}"
    s = re.sub(r"<[^>]*>", "<w>", s)
    s = re.sub(r"-?\d+", "N", s)
    s = re.sub(r"'[a-z]\d?'", "'L'", s)
    return s[:90]


def run_history(cfg, ops):
    """Run a whole history from scratch; return the record of the LAST step.

    cfg["render"]: "every" (default) - the list box is rendered after every operation, as under a main
    loop; "sparse" - rendered once at the start and then only after the last operation (several
    operations inside one callback); "cold" - rendered only after the last operation.
    Returns dict: verdicts {clause: (ok, why, applicable)}, alive (can be extended), sig, info
    (after the final render), info_pre (before it), obs."""
    CanvasCache.clear()
    wd = World(cfg)
    mode = cfg.get("render", "every")
    info_pre = None
    prev_base = None  # decompositions + owner of the previous render (for the click clause)
    last = None
    steps = [None, *ops]
    for n, op in enumerate(steps):
        v = {}
        obs = {}
        click_expect = None
        if op is not None:
            if op[0] == "click" and op[1] == 1 and wd.focus and prev_base is not None:
                base, owner, psize = prev_base
                if psize == wd.size and len({(t, s, k) for t, s, k in base}) == 1 and base[0][0] == 0:
                    it = lw.item_at(base[0], owner, op[3])
                    if it is not None and kind_selectable(wd.ref[it][0]):
                        click_expect = it
            try:
                wd.apply(op)
                v["event-no-raise"] = (True, "", True)
            except Exception as e:  # noqa: BLE001
                v["event-no-raise"] = (False, f"{op[0]} raised {_exc(e)}", True)
                obs["class"] = f"{op[0]} raised {_exc_class(e)}"
                last = {"verdicts": v, "alive": False, "sig": None, "info": None, "obs": obs}
                if n < len(steps) - 1:
                    last["early"] = n
                break
            if op[0] == "click" and op[1] == 1 and wd.focus:
                if click_expect is None:
                    v["click-focus"] = (True, "no selectable item under the pointer", False)
                else:
                    try:
                        got = wd.focus_idx()
                    except Exception as e:  # noqa: BLE001
                        got = _exc(e)
                    ok = got == click_expect
                    v["click-focus"] = (ok, "" if ok else f"pressed row {op[3]} showing selectable item #{click_expect} {wd.ref[click_expect]}, focus is item #{got}", True)
        # render, as the main loop would after every input (the canvas stays referenced until the next
        # render, like the screen's copy under a main loop: the canvas cache only holds weak references)
        prev_base = None
        is_last = n == len(steps) - 1
        if not (is_last or mode == "every" or (n == 0 and mode == "sparse")):
            continue
        if is_last:
            info_pre = state_info(wd)
        before_press = not is_last and steps[n + 1][0] == "click" and steps[n + 1][1] == 1
        try:
            canv = wd.lb.render(wd.size, wd.focus)
            if not is_last and not before_press:
                continue  # prefixes are judged as histories of their own
            # full cell content (text, display attribute, character set of every cell), not the text alone
            R = tuple(li.canon(row) for row in canv.content())
            cursor = canv.cursor
            if canv.rows() != wd.size[1] or canv.cols() != wd.size[0] or len(R) != wd.size[1]:
                raise AssertionError(f"canvas is {canv.cols()}x{canv.rows()} for size {wd.size}")
            if any(sum(len(t) for _a, _cs, t in row) != wd.size[0] for row in R):
                raise AssertionError(f"canvas content rows are {[sum(len(t) for _a, _cs, t in row) for row in R]} cells wide for size {wd.size}")
            v["render-no-raise"] = (True, "", True)
        except Exception as e:  # noqa: BLE001
            v["render-no-raise"] = (False, f"render{wd.size} raised {_exc(e)}", True)
            obs["class"] = f"render raised {_exc_class(e)}"
            last = {"verdicts": v, "alive": False, "sig": None, "info": None, "obs": obs}
            if n < len(steps) - 1:
                last["early"] = n
            break
        obs["rows"] = [li.row_text(r) for r in R]
        obs["cursor"] = cursor
        try:
            fi = wd.focus_idx()
        except Exception as e:  # noqa: BLE001
            v["focus-visible"] = (False, f"focus_position raised {_exc(e)}", True)
            fi = None
        obs["focus_item"] = fi
        variants = wd.rows_per_item(fi)
        cexp = None
        if fi is not None and wd.focus and wd.size[1] > 0:
            k, lab = wd.ref[fi]
            if kind_selectable(k):
                cexp = expected_cursor(k, lab, wd.size[0], wd.edit_state(fi))
        blank = li.plain(b" " * wd.size[0])
        best = None
        for rpi in variants:
            cand = lw.judge(list(R), rpi, blank, fi, cexp, cursor)
            nbad = sum(1 for x in cand[0].values() if not x[0])
            if best is None or nbad < best[0]:
                best = (nbad, cand)
            if nbad == 0:
                break
        jv, base, (C, owner, _span) = best[1]
        for c, x in jv.items():
            v.setdefault(c, x)
        obs["list_rows"] = [li.row_text(r) for r in C]
        if base:
            prev_base = (base, owner, wd.size)
        last = {"verdicts": v, "alive": True, "sig": wd.signature(R, cursor), "info": state_info(wd), "info_pre": info_pre, "obs": obs}
    return last


# ---------------------------------------------------------------------------------------- operations
KEYS = ["up", "down", "page up", "page down", "home", "end", "x"]
VALIGNS = ["top", "middle", "bottom", ["relative", 30]]
NEW_KINDS = ["t1", "s3", "e1"]
NEW_LABELS = "pqrsuvwyABCDEFGHIJKLMNOPQRSTUVWXYZ"  # one fresh label per step of a history (never reused)


def state_info(wd):
    try:
        f = wd.focus_idx()
    except Exception:  # noqa: BLE001
        f = None
    return (len(wd.ref), wd.size, f)


def gen_ops(info, depth_index, opts):
    """Operations offered in the state reached (depends on list length, size, focus)."""
    n, (cols, rows), f = info
    ops = [["key", k] for k in opts.get("keys", KEYS)]
    for r in range(rows):
        ops.append(["click", 1, 1, r])
    ops.append(["click", 4, 0, 0])
    ops.append(["click", 5, 0, rows - 1])
    for i in range(n):
        cfs = opts.get("coming_from", [None, "above", "below"])
        if cfs == "truthful":  # None, and the direction the old focus really lies in
            cfs = [None] if f is None or i == f else [None, "above" if i > f else "below"]
        for cf in cfs:
            ops.append(["focus", i, cf])
    for va in opts.get("valigns", VALIGNS):
        ops.append(["valign", va])
    lo, hi = MAXROWS_CLAMP
    if rows - 1 >= lo:
        ops.append(["size", cols, rows - 1])
    if rows + 1 <= hi:
        ops.append(["size", cols, rows + 1])
    ops.append(["size", WIDTHS[1] if cols == WIDTHS[0] else WIDTHS[0], rows])
    lab = NEW_LABELS[depth_index]
    where = sorted({0, n} | ({f, f + 1} if f is not None else set()))
    for i in where:
        for k in opts.get("new_kinds", NEW_KINDS):
            ops.append(["ins", i, k, lab])
    if f is not None and opts.get("dup", True):
        for i in sorted({0, n}):  # the focus widget object once more, at the top / at the end of the list
            ops.append(["dup", i, f, lab])
    for i in range(n):
        ops.append(["del", i])
    for i in range(n):
        near = f is None or abs(i - f) <= 1
        if near or opts.get("rep_all"):
            for k in opts.get("rep_kinds", ["t1", "s3"]):
                ops.append(["rep", i, k, lab])
    return ops


# -------------------------------------------------------------------------------------------- tally
class Tally:
    def __init__(self):
        self.ev = {}
        self.nt = {}
        self.fail = {}  # clause -> class -> [count, [details]]
        self.samples = {}
        self.states = 0
        self.steps = 0

    def add(self, clause, ok, applicable, detail_fn, cls, sample):
        self.ev[clause] = self.ev.get(clause, 0) + 1
        if applicable:
            self.nt[clause] = self.nt.get(clause, 0) + 1
        s = self.samples.setdefault(clause, [])
        if len(s) < 3 and applicable:
            s.append(sample)
        if not ok:
            b = self.fail.setdefault(clause, {}).setdefault(cls, [0, []])
            b[0] += 1
            if len(b[1]) < 3:
                b[1].append(detail_fn())


def _merge(total, t):
    for c, n in t.ev.items():
        total.ev[c] = total.ev.get(c, 0) + n
    for c, n in t.nt.items():
        total.nt[c] = total.nt.get(c, 0) + n
    for c, s in t.samples.items():
        d = total.samples.setdefault(c, [])
        d.extend(s[: 3 - len(d)])
    for c, classes in t.fail.items():
        dst = total.fail.setdefault(c, {})
        for cls, (n, items) in classes.items():
            b = dst.setdefault(cls, [0, []])
            b[0] += n
            b[1].extend(items[: 3 - len(b[1])])
    total.states += t.states
    total.steps += t.steps


def _why_class(clause, why):
    import re

    s = re.sub(r"-?\d+", "N", why)
    s = re.sub(r"\[[^\]]*\]", "[..]", s)
    s = re.sub(r"\([^)]*\)", "(..)", s)
    return s[:90]


def record(tally, cfg, hist, res):
    v = res["verdicts"]
    obs = res["obs"]
    for clause, (ok, why, applicable) in v.items():
        cls = None
        if not ok:
            cls = obs.get("class") if clause in ("render-no-raise", "event-no-raise") else _why_class(clause, why)
            last_op = "initial" if not hist else (f"key {hist[-1][1]}" if hist[-1][0] == "key" else hist[-1][0])
            zero = any(k in ("z0", "zs") for k, _l in cfg["items"])
            if len({lab for _k, lab in cfg["items"]}) < len(cfg["items"]):
                last_op += " | a widget object at two positions"
            if clause == "click-focus" and len(hist) > 1:
                last_op += f" right after {hist[-2][0]}"
            cls = f"{cls} | last op {last_op} | {'with' if zero else 'no'} 0-row item in the initial list"

        def detail(clause=clause, why=why):
            return {"clause": clause, "why": why, "cfg": cfg, "ops": hist, "rows_shown": obs.get("rows"), "cursor": obs.get("cursor"), "focus_item": obs.get("focus_item"), "list_rows": obs.get("list_rows")}

        tally.add(clause, ok, applicable, detail, cls, {"cfg": cfg, "ops": hist})


def explore(task):
    with warnings.catch_warnings():
        warnings.simplefilter("ignore")
        return _explore(task)


def _explore_unrendered(task):
    """cfg["render"] in ("sparse", "cold"): every history of <= depth operations with no render in between
    (plain enumeration: the state before the final render is what gets extended, nothing is merged)."""
    cfg, depth, opts = task[:3]
    tally = Tally()
    root = run_history(cfg, [])
    record(tally, cfg, [], root)
    tally.steps += 1
    frontier = [([], root["info_pre"])] if root["alive"] else []
    for d in range(depth):
        nxt = []
        for hist, info in frontier:
            for op in gen_ops(info, d, opts):
                h = [*hist, op]
                res = run_history(cfg, h)
                tally.steps += len(h) + 1
                record(tally, cfg, h, res)
                tally.states += 1
                # extend unless an OPERATION raised (a failing final render does not affect the unrendered prefix)
                if d + 1 < depth and res["verdicts"].get("event-no-raise", (True,))[0]:
                    nxt.append((h, res["info_pre"] if res["alive"] else _info_unrendered(cfg, h)))
        frontier = nxt
    return tally


def _info_unrendered(cfg, ops):
    wd = World(cfg)
    if cfg.get("render") == "sparse":
        wd.lb.render(wd.size, wd.focus)
    for op in ops:
        wd.apply(op)
    return state_info(wd)


def _explore(task):
    cfg, depth, opts = task[:3]
    if cfg.get("render", "every") != "every":
        return _explore_unrendered(task)
    part, nparts = task[4] if len(task) > 4 else (0, 1)  # big tasks are split by the first operation
    tally = Tally()
    root = run_history(cfg, [])
    if part == 0:
        record(tally, cfg, [], root)
    tally.steps += 1
    seen = set()
    frontier = []
    if root["alive"]:
        seen.add(root["sig"])
        frontier.append(([], root["info"]))
    for d in range(depth):
        nxt = []
        for hist, info in frontier:
            ops = gen_ops(info, d, opts)
            if d == 0:
                ops = ops[part::nparts]
            for op in ops:
                h = [*hist, op]
                res = run_history(cfg, h)
                tally.steps += len(h) + 1
                record(tally, cfg, h, res)
                if res["alive"] and res["sig"] not in seen:
                    seen.add(res["sig"])
                    if d + 1 < depth:
                        nxt.append((h, res["info"]))
        frontier = nxt
    tally.states = len(seen)
    return tally


# ------------------------------------------------------------------------------------ configurations
ALL_KINDS = ["t1", "t3", "t7", "tw", "s1", "s3", "s7", "sw", "z0", "zs", "e1.1", "e3.1", "e3.4", "e3.7", "e7.1", "e7.10", "e7.19", "ew.0", "ew.8", "i1.0", "i3.4", "i7.19"]
LABELS = "abcdefgh"


def _cfg(kinds, size, walker, focus=True, render="every"):
    items = []
    for i, k in enumerate(kinds):
        items.append(list(items[int(k[1:])]) if k[0] == "=" else [k, LABELS[i]])  # "=j": the same widget object as item j
    c = {"items": items, "size": list(size), "walker": walker, "focus": focus}
    if render != "every":
        c["render"] = render
    return c


# lists chosen to cover: empty; single items of every family; unselectable heads / tails around
# selectables; tall items in every position; 0-row items at the ends, between and in runs; edit cursors
# top / middle / bottom; width-dependent heights; all-unselectable; fixed-cursor icons.
CURATED = [
    [],
    ["t1"], ["s1"], ["e1.1"], ["z0"], ["zs"], ["t7"], ["s7"], ["e7.10"], ["i7.19"], ["tw"], ["ew.8"],
    ["t3", "s1"], ["s1", "t3"], ["t7", "s1"], ["s1", "t7"], ["e3.4", "e3.1"], ["z0", "s1"], ["s1", "z0"], ["t1", "t1"],
    ["s7", "s7"], ["e7.19", "e7.1"], ["i3.4", "t3"], ["sw", "tw"], ["z0", "z0"], ["zs", "t1"],
    ["t3", "s1", "t3"], ["s1", "t7", "s1"], ["t1", "e3.7", "t1"], ["s3", "s3", "s3"], ["z0", "s3", "z0"], ["t3", "t3", "t3"],
    ["e1.1", "z0", "e1.1"], ["s1", "zs", "s1"], ["tw", "ew.0", "sw"], ["t7", "t7", "s1"], ["e7.10", "s1", "e7.10"], ["i3.4", "s1", "i3.4"],
    ["s1", "s1", "s1", "s1"], ["t3", "s1", "s1", "t3"], ["t1", "s3", "t7", "s1"], ["e3.1", "t3", "z0", "e3.7"],
    ["s1", "z0", "z0", "s1"], ["t7", "e1.1", "t3", "s3"], ["sw", "t1", "ew.8", "t3"], ["s3", "t1", "s7", "t1"],
    ["t1", "t1", "t1", "s1"], ["s1", "t3", "t3", "t1"], ["i1.0", "e3.4", "i3.4", "t3"], ["zs", "s1", "t7", "zs"],
]


# the same widget object at two (three) positions: "=j" stands for the object of item j
SHARED = [
    ["s1", "t1", "=0"], ["s3", "=0"], ["e3.4", "t1", "=0"], ["t1", "s1", "s1", "=1"], ["a1", "t3", "=0", "s1"], ["s1", "=0", "=0"],
    ["i3.4", "=0"], ["Cs", "t1", "=0"], ["t1", "=0", "=0", "=0"], ["a3", "s1", "=0", "=1"], ["s1", "s1", "s1", "=0", "t1", "=0"],
]
SHARED_SIZES = [(3, 3), (3, 4), (9, 5), (3, 2), (3, 6)]
# attribute-bearing items and composites with child canvases that run through several shards, in boxes
# shorter than the items so that histories cut them at the top and at the bottom
COMPOSITE = [
    ["Cu"], ["t1", "Cu", "t1", "t1"], ["Cv", "t3"], ["Cp", "s1"], ["s1", "Pc"], ["Cs", "Cs"], ["t1", "Ct"], ["Ps", "t1", "Cu"],
    ["Cu", "Cv", "Cp"], ["m3", "a3", "m3"], ["a1", "a1", "a1"], ["a7", "t1"], ["Cs", "t3", "s1"], ["t3", "Ps"], ["Pc", "Pc"], ["Ct", "s1"],
    ["t1", "Cp", "t3"], ["Cv", "=0"], ["e3.4", "Cu", "e1.1"], ["z0", "Cu", "zs", "Cv"],
]
COMPOSITE_SIZES = [(3, 2), (3, 3), (9, 3), (3, 1), (9, 4)]
SIZES_QUICK = [(3, 1), (3, 2), (3, 3), (9, 4), (3, 5)]
SIZES_THOROUGH = [(3, 1), (3, 2), (3, 3), (3, 4), (9, 2), (9, 5)]
WALKERS = ["slw", "sflw", "key"]
# reduced alphabet for the deepest histories: inputs (keys, presses, wheel, resize), set_focus(pos), one alignment,
# one kind of insertion, deletions; no replacements
QUICK_OPTS = {"coming_from": "truthful", "new_kinds": ["t1", "s3"], "rep_kinds": ["s3"]}
DEEP_OPTS = {"coming_from": [None], "valigns": ["bottom"], "new_kinds": ["s3"], "rep_kinds": []}


def tasks_for(tier):
    """-> [(cfg, depth, opts, weight)]"""
    quick = tier == "quick"
    tasks = []
    full = QUICK_OPTS if quick else {}
    # 1. curated lists, full alphabet
    if quick:
        for j, kinds in enumerate(CURATED):  # one box and one walker per list, rotating
            tasks.append((_cfg(kinds, SIZES_QUICK[j % 5], WALKERS[j % 3]), 2, full, 10))
        tasks.append((_cfg(["s1", "t3", "s1"], (3, 2), "min"), 2, full, 10))
        tasks.append((_cfg(["t3", "e3.4", "t3"], (3, 2), "sflw", False), 2, full, 10))
        tasks.append((_cfg(["s1", "t7", "e1.1"], (3, 3), "slw", False), 2, full, 10))
        tasks.append((_cfg(["z0", "i7.19"], (3, 2), "key"), 2, full, 10))  # 0-row item above a tall fixed-cursor item
        tasks.append((_cfg(["i7.0", "z0"], (3, 2), "key"), 2, full, 10))  # its mirror image (added in triage: the page-down twin of the page-up fall-back that focused a 0-row item)
    else:
        for j, kinds in enumerate(CURATED):
            for wi, w in enumerate(WALKERS):  # every list with every walker, boxes rotating
                tasks.append((_cfg(kinds, SIZES_THOROUGH[(j + 2 * wi) % 6], w), 2, full, 10))
        for j, kinds in enumerate([CURATED[i] for i in (27, 28, 30, 39)]):  # all histories of 3 operations, full alphabet
            for part in range(6):
                tasks.append((_cfg(kinds, SIZES_THOROUGH[(1 + j) % 4], WALKERS[j % 3]), 3, full, 400, (part, 6)))
        for kinds in CURATED[::4]:
            tasks.append((_cfg(kinds, (3, 2), "min"), 2, full, 10))
            tasks.append((_cfg(kinds, (3, 3), "sflw", False), 2, full, 10))
            tasks.append((_cfg(kinds, (9, 2), "key", False), 2, full, 10))
    # 2. every list of length 1 and 2 over ALL_KINDS (each pair of neighbours)
    j = 0
    for a in ALL_KINDS:
        for b in [None, *ALL_KINDS]:
            ks = [a] if b is None else [a, b]
            if quick:
                tasks.append((_cfg(ks, [(3, 2), (3, 4)][j % 2], WALKERS[j % 3]), 2 if b is None else 1, full, 5 if b is None else 1))
            else:
                tasks.append((_cfg(ks, [(3, 2), (3, 4), (3, 1), (9, 3)][j % 4], WALKERS[j % 3]), 2, QUICK_OPTS, 7))
            j += 1
    # 2b. several operations between two renders ("sparse": rendered once, then only at the end; "cold": only at the end)
    for j, kinds in enumerate(CURATED):
        if quick and j % 3:
            continue
        for wi, w in enumerate(WALKERS if not quick else [WALKERS[(j // 3) % 3]]):
            mode = "cold" if (j + wi) % 4 == 0 else "sparse"
            tasks.append((_cfg(kinds, SIZES_QUICK[(j + wi) % 5], w, True, mode), 2, QUICK_OPTS, 12))
    if not quick:
        for j, kinds in enumerate([CURATED[14], CURATED[38]]):
            tasks.append((_cfg(kinds, (3, 2 + j % 3), WALKERS[j % 3], True, "sparse"), 3, DEEP_OPTS, 450))
    # 2c. the same widget object at several positions; attribute-bearing and composite (multi-shard) items
    for j, kinds in enumerate(SHARED):
        for wi, w in enumerate([WALKERS[j % 3]] if quick else WALKERS):
            tasks.append((_cfg(kinds, SHARED_SIZES[(j + wi) % 5], w), 2, full, 12))
    for j, k in enumerate(DESCR):  # each described kind alone and next to every other one
        tasks.append((_cfg([k], [(3, 2), (9, 3), (3, 1)][j % 3], WALKERS[j % 3]), 2, full, 8))
        if not quick:
            for j2, k2 in enumerate(DESCR):
                tasks.append((_cfg([k, k2], [(3, 2), (3, 4), (3, 1), (9, 3)][(j + j2) % 4], WALKERS[(j + j2) % 3]), 2, QUICK_OPTS, 7))
    for j, kinds in enumerate(COMPOSITE):
        for wi, w in enumerate([WALKERS[j % 3]] if quick else WALKERS):
            tasks.append((_cfg(kinds, COMPOSITE_SIZES[(j + wi) % 5], w), 2, full, 12))
        if not quick or j % 4 == 1:
            tasks.append((_cfg(kinds, COMPOSITE_SIZES[(j + 1) % 3], WALKERS[(j + 1) % 3], True, "sparse"), 2, QUICK_OPTS, 12))
    for j, kinds in enumerate([COMPOSITE[1], COMPOSITE[12]]):
        cfg = _cfg(kinds, (3, 3 - j % 2), WALKERS[j % 3])
        if quick:
            tasks.append((cfg, 3, DEEP_OPTS, 30))
        else:
            for part in range(8):
                tasks.append((cfg, 4, DEEP_OPTS, 500, (part, 8)))
    # 3. deeper histories on the reduced alphabet
    deep_lists = CURATED[12::10] if quick else [CURATED[i] for i in (26, 27, 45)]
    for j, kinds in enumerate(deep_lists):
        cfg = _cfg(kinds, (3, 2 + j % 2), WALKERS[j % 3])
        if quick:
            tasks.append((cfg, 3, DEEP_OPTS, 30))
        else:
            for part in range(8):
                tasks.append((cfg, 4, DEEP_OPTS, 500, (part, 8)))
    return tasks


# ----------------------------------------------------------------------------------- random histories
def random_task(arg):
    with warnings.catch_warnings():
        warnings.simplefilter("ignore")
        return _random_task(arg)


def _random_task(arg):
    seed, chunk, count, length = arg
    r = rng(seed * 1000 + chunk)
    tally = Tally()
    for _ in range(count):
        n = r.choice([0, 1, 2, 3, 3, 4, 4, 5, 6])
        kinds = [r.choice(ALL_KINDS if r.random() < 0.6 else list(DESCR)) for _i in range(n)]
        for i in range(1, n):  # now and then the same widget object again
            if r.random() < 0.15:
                kinds[i] = f"={r.randrange(i)}"
        cfg = _cfg(kinds, (r.choice(WIDTHS), r.randint(1, 6)), r.choice(["slw", "sflw", "key"]), r.random() < 0.9)
        hist = []
        res = run_history(cfg, hist)
        tally.steps += 1
        for step in range(length + 1):
            if step:
                cand = gen_ops(res["info"], step, {"rep_all": True})
                # inputs (keys, mouse) are drawn more often than structure edits
                inputs = [o for o in cand if o[0] in ("key", "click")]
                op = r.choice(inputs) if r.random() < 0.6 else r.choice(cand)
                hist = [*hist, op]
                res = run_history(cfg, hist)
            tally.steps += len(hist) + 1
            bad = [(c, x) for c, x in res["verdicts"].items() if not x[0]]
            ok = not bad
            why = "; ".join(f"{c}: {x[1]}" for c, x in bad)
            obs = res["obs"]
            cls = "; ".join(f"{c}: {obs.get('class') if c.endswith('no-raise') else _why_class(c, x[1])}" for c, x in bad)[:160]

            def detail(why=why, hist=hist, obs=obs, cfg=cfg):
                return {"clause": "random-histories", "why": why, "cfg": cfg, "ops": hist, "rows_shown": obs.get("rows"), "cursor": obs.get("cursor"), "focus_item": obs.get("focus_item"), "list_rows": obs.get("list_rows")}

            tally.add("random-histories", ok, True, detail, cls, {"cfg": cfg, "ops": hist})
            if not ok or not res["alive"]:
                break
    return tally


# ---------------------------------------------------------------------------------------------- run
def _pool_map(fn, tasks, procs):
    if procs <= 1:
        for t in tasks:
            yield fn(t)
        return
    ctx = multiprocessing.get_context("fork")
    with ctx.Pool(procs) as pool:
        yield from pool.imap_unordered(fn, tasks, chunksize=1)


def _result(name, rule, bound, exhaustive, total, clause, t0):
    fails = []
    classes = total.fail.get(clause, {})
    for k in range(3):
        for cls, (n, items) in sorted(classes.items(), key=lambda kv: -kv[1][0]):
            if k < len(items) and len(fails) < 20:
                fails.append({**items[k], "failure_class": cls, "failures_in_class": n})
    return {
        "name": name,
        "rule": rule,
        "bound": bound,
        "exhaustive": exhaustive,
        "evaluations": total.ev.get(clause, 0),
        "distinct_nontrivial": total.nt.get(clause, 0),
        "failures": fails,
        "failure_count": sum(n for n, _ in classes.values()),
        "failure_classes": {cls: n for cls, (n, _i) in sorted(classes.items(), key=lambda kv: -kv[1][0])[:40]},
        "samples": total.samples.get(clause, []),
        "wall_s": round(time.time() - t0, 2),
    }


def run(tier="quick", seed=0):
    t0 = time.time()
    procs = min(16, os.cpu_count() or 1)
    tasks = tasks_for(tier)
    tasks.sort(key=lambda t: -t[3])
    total = Tally()
    for t in _pool_map(explore, tasks, procs):
        _merge(total, t)
    quick = tier == "quick"
    import json

    def ncfg(pred):
        return len({json.dumps(t[0]) for t in tasks if pred(t)})

    ndeep3 = ncfg(lambda t: t[1] == 3 and t[2] is not DEEP_OPTS)
    ndeepr = ncfg(lambda t: t[2] is DEEP_OPTS)
    bound = (
        f"{ncfg(lambda t: True)} initial configurations = {len(CURATED)} curated lists of 0..4 items "
        f"{'x one box and one walker each (rotating over 5 boxes, 3 walkers)' if quick else 'x 3 walkers x 2 of 6 boxes (rotating)'} + every list of 1 and 2 items over {len(ALL_KINDS)} kinds "
        f"(Text / selectable Text / Edit / SelectableIcon of 1, 3, {TALL} rows and width-dependent height; 0-row items; cursors on first/middle/last row) + a few with a positions()-less walker or rendered without focus "
        f"+ {len(SHARED)} lists in which ONE widget object sits at 2..4 positions + {len(COMPOSITE)} lists (and each kind alone) over {len(DESCR)} attribute-bearing / composite kinds "
        f"(AttrMap'd selectable text with a focus attribute, per-line markup attributes, Columns of unequal-height columns, Columns holding a Pile, Pile of Columns: canvases whose child canvases span several shards) in boxes of 1..4 rows, shorter than the items; "
        f"rows compared on full cell content (text, attribute, character set); "
        f"walkers SimpleListWalker, SimpleFocusListWalker, custom key walker; boxes {WIDTHS[0]} or {WIDTHS[1]} columns x 1..6 rows. "
        f"ALL histories of <= 2 operations{' (1 for the two-item lists)' if quick else ''}"
        f"{'' if quick else f', <= 3 on {ndeep3} of them'}, and <= {3 if quick else 4} on {ndeepr} lists with a reduced alphabet, over: keys {'/'.join(KEYS)}, button-1 press on every row, wheel up/down, "
        f"set_focus(every position; coming_from {'None or the true direction' if quick else 'None/above/below'}), set_focus_valign(top/middle/bottom/relative 30), rows+-1, width toggle, "
        f"insert ({2 if quick else 3} kinds at top/focus/after focus/end), insert the focus widget OBJECT once more (top/end), delete (every index), replace (focus and neighbours, {1 if quick else 2} kind(s)); "
        f"render after every operation; histories merged when they reach the same complete state signature; measured: {total.states} distinct states, {total.steps} operation+render steps"
    )
    checks = [_result(f"{ID}/{c}", RULES[c], bound, True, total, c, t0) for c in CLAUSES]
    t1 = time.time()
    nchunks = procs * 2
    count, length = (12, 10) if quick else (150, 14)
    rt = Tally()
    for t in _pool_map(random_task, [(seed, i, count, length) for i in range(nchunks)], procs):
        _merge(rt, t)
    checks.append(_result(f"{ID}/random-histories", RULES["random-histories"], f"{nchunks * count} seeded histories of up to {length} operations on random lists of 0..6 items over {len(ALL_KINDS)} kinds, random box and walker; stops at the first failing step", False, rt, "random-histories", t1))
    return {"checks": checks, "bound": bound}


def replay(check_name, case):
    clause = check_name.split("/", 1)[1] if "/" in check_name else check_name
    cfg = case["cfg"]
    ops = [list(o) for o in case["ops"]]
    with warnings.catch_warnings():
        warnings.simplefilter("ignore")
        res = run_history(cfg, ops)
    v = res["verdicts"]
    if clause == "random-histories":
        bad = {c: x[1] for c, x in v.items() if not x[0]}
    else:
        bad = {c: x[1] for c, x in v.items() if not x[0] and c == clause}
    obs = {k: (list(x) if isinstance(x, tuple) else x) for k, x in res["obs"].items()}
    return {"outcome": "confirmed" if bad and "early" not in res else "not-reproduced", "detail": {"failed": bad, "obs": obs}}
