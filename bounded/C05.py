"""C05 bounded stand-in: terminal input decodes to the same events however it is fragmented.

Real code under test: `urwid.display.escape.process_keyqueue` and a real, started `urwid.display.raw.Screen`
whose input is an `os.pipe()` (never a tty), hooked to a scripted fake event loop with
`Screen.hook_event_loop`; each "read" is `os.write(pipe, chunk)` followed by the watch-file callback the
screen registered (-> `get_available_raw_input` -> `parse_input` -> `process_keyqueue`), each "timeout" is
the alarm callback the screen registered.  `Screen.get_input()` is exercised the same way (max_wait=0).

Checks (one per clause of the statement):
  C05/no-raise-progress   process_keyqueue(codes, more) raises nothing but MoreInputRequired (and that only
                          when more=True), consumes a non-empty prefix, returns the untouched suffix.
  C05/prefix-stable       a result returned for a prefix with more=True is not changed by later bytes.
  C05/names               whole delivery through the Screen == spec.termdecode.ref_decode (documented names
                          and coordinates, each exactly once; unknown bytes passed through individually).
  C05/fragmentation       every 1-/2-cut split x timeout fired or not after each cut: events == concatenation
                          of the "as they stand" decodings of the segments between fired timeouts (one
                          segment = the whole stream when no timeout fires); raw codes handed to the
                          callback concatenate to the stream; nothing pending at the end; <= 1 alarm.
  C05/get-input-split     synchronous Screen.get_input(): complete streams split by one cut.
  C05/get-input-timeout   synchronous Screen.get_input(): a truncated sequence is decoded as it stands once
                          complete_wait has expired.
  C05/get-input-history   synchronous Screen.get_input() WITHOUT an event loop (max_wait=None: blocking, and a
                          polling max_wait) on a VIRTUAL clock: histories of reads and silences in which a read
                          holds complete keys followed by an incomplete sequence; events == the segments between
                          silences decoded as they stand (nothing lost, nothing glued to later input).
  C05/random-streams      seeded random byte strings over all 256 values with random 3-cut schedules
                          (all of the above oracles; not exhaustive).
"""
from __future__ import annotations

import io
import itertools
import multiprocessing
import os
import selectors
import threading
import time

from bounded.common import Check, rng
from spec import termdecode
from spec.termdecode import UNSPEC, ref_decode

from urwid import str_util
from urwid.display import _posix_raw_display, _raw_display_base, escape
from urwid.display.raw import Screen

ENCODINGS = ("utf8", "narrow", "wide")
NPROC = max(1, min(8, os.cpu_count() or 1))


# ----------------------------------------------------------------------------------------------------------
# result collection: keeps failures diverse (<= 4 per failure class) so that one frequent known defect cannot
# crowd every other class out of the 20 reported failures; mergeable across worker processes.
class DCheck(Check):
    def __init__(self, name, rule, exhaustive=True, bound=""):
        super().__init__(name, rule, exhaustive, bound)
        self.failed = 0
        self.classes = {}
        self.by_class = {}
        self.n_distinct_extra = 0

    def case(self, key, ok, detail=None, nontrivial=True, sample=None):
        self.evaluations += 1
        if nontrivial:
            self.nontrivial.add(key)
        if len(self.samples) < 3 and sample is not None:
            self.samples.append(sample)
        if not ok:
            self.failed += 1
            cls = f'{(detail or {}).get("cls", "?")} [{(detail or {}).get("enc", "-")}]'
            self.classes[cls] = self.classes.get(cls, 0) + 1
            lst = self.by_class.setdefault(cls, [])
            if len(lst) < 4:
                lst.append(detail)

    def state(self):
        return {"ev": self.evaluations, "nd": len(self.nontrivial) + self.n_distinct_extra, "failed": self.failed, "classes": self.classes, "by_class": self.by_class, "samples": self.samples}

    def merge(self, st):
        self.evaluations += st["ev"]
        self.n_distinct_extra += st["nd"]  # shards partition the streams, so keys are disjoint
        self.failed += st["failed"]
        for k, v in st["classes"].items():
            self.classes[k] = self.classes.get(k, 0) + v
        for k, v in st["by_class"].items():
            lst = self.by_class.setdefault(k, [])
            lst.extend(v[: 4 - len(lst)])
        for s in st["samples"]:
            if len(self.samples) < 3:
                self.samples.append(s)

    def result(self):
        fails = []
        for rnd in range(4):  # round-robin over the classes
            for cls in sorted(self.by_class):
                if rnd < len(self.by_class[cls]) and len(fails) < 20:
                    fails.append(self.by_class[cls][rnd])
        self.failures = fails
        r = super().result()
        r["distinct_nontrivial"] = len(self.nontrivial) + self.n_distinct_extra
        r["failed_evaluations"] = self.failed
        r["failure_classes"] = dict(sorted(self.classes.items()))
        return r


CHECKS = {
    "C05/no-raise-progress": "process_keyqueue(codes, more) for more in {False, True}, and iterated to the end of the stream with more=False: returns (non-empty run, proper suffix of codes) or raises MoreInputRequired only if more=True; never anything else",
    "C05/prefix-stable": "for every proper prefix p of the stream: if process_keyqueue(p, True) returns (run, rem) then process_keyqueue(stream, True) returns (run, rem + rest)",
    "C05/names": "whole stream written to the Screen's pipe, one read, then the completion alarm fired: events == ref_decode(stream) (independent reference; names of modified cursor/editing/function keys from the xterm modifier table in spec/xterm_keys.py and of spec.termdecode.ANCHORS, not from escape.input_sequences), raw codes == stream, nothing pending",
    "C05/fragmentation": "every schedule (cut positions x timeout fired or not after each cut; final timeout always fired) through hook_event_loop/parse_input: events == concat of process_keyqueue-to-the-end(segment, more=False) over the segments between fired timeouts; callback raw codes concatenate to the stream and each callback's keys are the decoding of its raw codes; <= 1 alarm, of complete_wait; nothing pending at the end",
    "C05/get-input-split": "Screen.get_input(raw_keys=True) (max_wait=0) after each of two chunks of a stream made of complete units: events == decoding of the whole, raw == stream",
    "C05/get-input-timeout": "Screen.get_input() polled again (no new input) after complete_wait has expired: the pending truncated sequence is decoded as it stands",
    "C05/get-input-history": "Screen.get_input() / get_input(raw_keys=True) on a pipe without an event loop, blocking (max_wait=None) and polling (max_wait=0.05), virtual clock (select() of the display modules scripted: a read arrives 1 ms after the previous one, a silence lasts 1 s = 8 x complete_wait): events over all calls == concatenation of the as-they-stand decodings (real decoder and, where defined, the independent reference) of the segments between silences; raw codes concatenate to the stream; no call returns with bytes pending once complete_wait of silence has passed since they arrived; get_input is never left holding bytes when nothing more will come",
    "C05/get-input-resize": "the same histories and oracle with terminal resizes (the screen's SIGWINCH handler run at scripted virtual times) interleaved, so that get_input()'s resize throttling is entered; 'window resize' events are ignored by the oracle, every decoded event must still be the as-they-stand decoding of the segments between silences",
    "C05/random-streams": "seeded random byte strings (all 256 byte values, escape-heavy mix), random 3-cut schedules with random timeouts: no-raise/progress, names (where the reference is defined) and fragmentation oracles",
}


# ----------------------------------------------------------------------------------------------------------
# real-code helpers
class NoProgress(Exception):
    pass


def decode_final(data):
    """The real decoder applied to a complete byte string "as it stands" (more_available=False throughout)."""
    codes = list(data)
    out = []
    while codes:
        run, rem = escape.process_keyqueue(codes, False)
        if not (isinstance(run, list) and run) or len(rem) >= len(codes):
            raise NoProgress(repr((codes, run, rem)))
        out.extend(run)
        codes = list(rem)
    return out


class FakeLoop:
    """Scripted event loop: records watch-file callbacks and alarms, fires alarms on demand."""

    def __init__(self):
        self.alarms = []
        self.watch = {}
        self.removed_unknown = 0

    def alarm(self, seconds, callback):
        h = object()
        self.alarms.append((h, seconds, callback))
        return h

    def remove_alarm(self, handle):
        n = len(self.alarms)
        self.alarms = [a for a in self.alarms if a[0] is not handle]
        return len(self.alarms) < n

    def watch_file(self, fd, callback):
        self.watch[fd] = callback
        return fd

    def remove_watch_file(self, handle):
        return self.watch.pop(handle, None) is not None

    def fire(self):
        pending, self.alarms = self.alarms, []
        for _h, _t, cb in pending:
            cb()
        return len(pending)


class Harness:
    """A started raw Screen on a pipe + StringIO (never a tty; signal handlers are not installed)."""

    def __init__(self, hooked=True, max_wait=0):
        self.r, self.w = os.pipe()
        self.rfile = os.fdopen(self.r, "rb", buffering=0)
        self.out = io.StringIO()
        self.scr = Screen(input=self.rfile, output=self.out)
        self.scr.signal_handler_setter = lambda *_a: None  # keep the process' signal handlers untouched
        self.scr.start()
        self.loop = FakeLoop()
        self.got = []
        if hooked:
            self.scr.hook_event_loop(self.loop, lambda keys, raw: self.got.append((list(keys), list(raw))))
            self.deliver = self.loop.watch[self.r]
        elif max_wait is not None:
            self.scr.set_input_timeouts(max_wait=max_wait)  # 0: get_input() must never block on "no input"
        # max_wait=None: the default, get_input() blocks until input arrives (only used on the virtual clock)

    def close(self):
        try:
            self.scr.unhook_event_loop(self.loop)
            self.scr.stop()
        finally:
            self.rfile.close()
            os.close(self.w)

    def clean(self):
        return not self.scr._partial_codes and not self.loop.alarms and self.scr._input_timeout is None


class Ctx:
    def __init__(self):
        self.h = None
        self.hs = None
        self.hv = {}  # max_wait -> Harness for the virtual-clock histories
        self.dcache = {}

    def virt(self, max_wait):
        if self.hv.get(max_wait) is None:
            self.hv[max_wait] = Harness(False, max_wait)
        return self.hv[max_wait]

    def drop_virt(self, max_wait):
        h = self.hv.pop(max_wait, None)
        if h is not None:
            try:
                h.close()
            except Exception:  # noqa: BLE001  (harness teardown only)
                pass

    def hooked(self):
        if self.h is None:
            self.h = Harness(True)
        return self.h

    def sync(self):
        if self.hs is None:
            self.hs = Harness(False)
        return self.hs

    def drop(self, which):
        h = getattr(self, which)
        if h is not None:
            try:
                h.close()
            except Exception:  # noqa: BLE001  (harness teardown only)
                pass
            setattr(self, which, None)

    def close(self):
        self.drop("h")
        self.drop("hs")
        for mw in list(self.hv):
            self.drop_virt(mw)

    def D(self, enc, data):
        """decode_final with a cache; returns ("ok", events) or ("raised", text)."""
        k = (enc, data)
        v = self.dcache.get(k)
        if v is None:
            try:
                v = ("ok", decode_final(data))
            except Exception as e:  # noqa: BLE001  (recorded as a failure by the caller)
                v = ("raised", f"{type(e).__name__}: {e}"[:200])
            if len(self.dcache) > 300000:
                self.dcache.clear()
            self.dcache[k] = v
        return v


def jl(b):
    return list(b)


def jev(evs):
    return [list(e) if isinstance(e, tuple) else e for e in evs]


def exc_cls(e):
    return f"raised {type(e).__name__}"


# ----------------------------------------------------------------------------------------------------------
# single-case evaluators (used by run and by replay); each returns (ok, detail, nontrivial)
def ev_pkq(enc, data):
    """C05/no-raise-progress"""
    codes = list(data)
    base = {"enc": enc, "stream": jl(data), "repro": f"str_util.set_byte_encoding({enc!r}); escape.process_keyqueue({codes!r}, MORE)"}
    for more in (False, True):
        try:
            run, rem = escape.process_keyqueue(list(codes), more)
        except escape.MoreInputRequired:
            if not more:
                return False, base | {"cls": "MoreInputRequired with more_available=False", "more": more, "why": "MoreInputRequired raised although more_available=False"}, True
            continue
        except Exception as e:  # noqa: BLE001
            return False, base | {"cls": exc_cls(e), "more": more, "why": f"raised {type(e).__name__}: {e}"[:300]}, True
        rem = list(rem)
        if not (isinstance(run, list) and len(run) >= 1) or not len(rem) < len(codes) or codes[len(codes) - len(rem) :] != rem:
            return False, base | {"cls": "no progress / not a suffix", "more": more, "run": jev(run), "remaining": rem, "why": "result is not (non-empty run, proper suffix of codes)"}, True
        for e in run:
            if not (isinstance(e, str) or (isinstance(e, tuple) and isinstance(e[0], str) and all(isinstance(x, int) for x in e[1:]))):
                return False, base | {"cls": "malformed event", "more": more, "run": repr(run), "why": "event is neither a str nor a (name, ints...) tuple"}, True
    try:
        decode_final(data)
    except Exception as e:  # noqa: BLE001
        return False, base | {"cls": exc_cls(e), "more": False, "why": f"decoding the stream to its end with more_available=False raised {type(e).__name__}: {e}"[:300]}, True
    return True, base, True


def ev_prefix(enc, data):
    """C05/prefix-stable: returns list of (key, ok, detail, nontrivial)"""
    codes = list(data)
    out = []
    try:
        whole = escape.process_keyqueue(list(codes), True)
        whole = (list(whole[0]), list(whole[1]))
    except escape.MoreInputRequired:
        whole = "more"
    except Exception as e:  # noqa: BLE001
        out.append((len(codes), False, {"enc": enc, "stream": jl(data), "prefix_len": len(codes), "cls": exc_cls(e), "why": f"process_keyqueue(stream, True) raised {type(e).__name__}: {e}"[:300]}, True))
        return out
    for n in range(1, len(codes)):
        p = codes[:n]
        try:
            run, rem = escape.process_keyqueue(list(p), True)
        except escape.MoreInputRequired:
            out.append((n, True, None, False))
            continue
        except Exception as e:  # noqa: BLE001
            out.append((n, False, {"enc": enc, "stream": jl(data), "prefix_len": n, "cls": exc_cls(e), "why": f"process_keyqueue(prefix, True) raised {type(e).__name__}: {e}"[:300]}, True))
            continue
        want = (list(run), list(rem) + codes[n:])
        ok = whole == want
        out.append((n, ok, None if ok else {"enc": enc, "stream": jl(data), "prefix_len": n, "cls": "decision changed by later bytes", "prefix_result": [jev(run), list(rem)], "whole_result": "MoreInputRequired" if whole == "more" else [jev(whole[0]), whole[1]], "why": "a result returned without waiting for more input differs once more input is present"}, True))
    return out


def run_schedule(ctx, enc, data, cuts, fires):
    """Feed `data` through the hooked Screen; returns dict(events, raws, callbacks, problems, err)."""
    h = ctx.hooked()
    h.got.clear()
    problems = []
    pos = 0
    try:
        for cut, fire in zip((*cuts, len(data)), (*fires, True)):
            os.write(h.w, data[pos:cut])
            pos = cut
            h.deliver()
            if len(h.loop.alarms) > 1:
                problems.append(f"{len(h.loop.alarms)} alarms pending after the read ending at {cut}")
            for _a, secs, _cb in h.loop.alarms:
                if secs != h.scr.complete_wait:
                    problems.append(f"alarm delay {secs!r} != complete_wait")
            if h.scr._partial_codes and not h.loop.alarms:
                problems.append(f"bytes pending after the read ending at {cut} but no completion alarm set")
            if fire:
                h.loop.fire()
    except Exception as e:  # noqa: BLE001
        got = list(h.got)
        ctx.drop("h")  # fresh screen + pipe for the next case
        return {"err": e, "callbacks": got}
    got = list(h.got)
    if not h.clean():
        problems.append(f"pending after the final timeout: partial={list(h.scr._partial_codes)!r} alarms={len(h.loop.alarms)}")
        ctx.drop("h")
    events = [e for k, _r in got for e in k]
    raws = [c for _k, r in got for c in r]
    return {"err": None, "events": events, "raws": raws, "callbacks": got, "problems": problems}


def segments(data, cuts, fires):
    segs = []
    start = 0
    for cut, fire in zip(cuts, fires):
        if fire:
            segs.append(data[start:cut])
            start = cut
    segs.append(data[start:])
    return segs


def ev_names(ctx, enc, data):
    """C05/names"""
    want = ref_decode(data, enc)
    base = {"enc": enc, "stream": jl(data), "stream_repr": repr(bytes(data)), "expected": jev(want)}
    r = run_schedule(ctx, enc, data, (), ())
    if r["err"] is not None:
        e = r["err"]
        return False, base | {"cls": exc_cls(e), "why": f"raised {type(e).__name__}: {e}"[:300]}, True
    base["events"] = jev(r["events"])
    if r["raws"] != list(data):
        return False, base | {"cls": "raw codes lost or duplicated", "raw": r["raws"], "why": "raw codes passed to the callback do not concatenate to the stream"}, True
    if r["problems"]:
        return False, base | {"cls": "pending/alarm", "why": "; ".join(r["problems"])}, True
    if UNSPEC in want:
        return True, base, False  # outside the documentation: the naming oracle does not apply
    if r["events"] != want:
        return False, base | {"cls": "events differ from the reference", "why": "whole delivery does not give the documented events"}, True
    return True, base, True


def ev_frag(ctx, enc, data, cuts, fires):
    """C05/fragmentation"""
    base = {"enc": enc, "stream": jl(data), "stream_repr": repr(bytes(data)), "cuts": list(cuts), "fires": [bool(f) for f in fires]}
    want = []
    for seg in segments(data, cuts, fires):
        st, v = ctx.D(enc, seg)
        if st != "ok":
            return False, base | {"cls": "raised " + v.split(":")[0], "why": f"decoding segment {list(seg)!r} as it stands raised {v}"}, True
        want.extend(v)
    base["expected"] = jev(want)
    r = run_schedule(ctx, enc, data, cuts, fires)
    if r["err"] is not None:
        e = r["err"]
        return False, base | {"cls": exc_cls(e), "why": f"raised {type(e).__name__}: {e}"[:300]}, True
    base["events"] = jev(r["events"])
    if r["raws"] != list(data):
        return False, base | {"cls": "raw codes lost or duplicated", "raw": r["raws"], "why": "raw codes passed to the callback do not concatenate to the stream"}, True
    if r["events"] != want:
        return False, base | {"cls": "events differ from whole/as-they-stand delivery", "why": "fragmented delivery gives a different event list"}, True
    if r["problems"]:
        return False, base | {"cls": "pending/alarm", "why": "; ".join(r["problems"])}, True
    for keys, raw in r["callbacks"]:
        st, v = ctx.D(enc, bytes(raw))
        if st != "ok" or v != keys:
            return False, base | {"cls": "callback keys are not the decoding of its raw codes", "callback": [jev(keys), raw], "why": "callback(keys, raw): keys != decoding of raw"}, True
    return True, base, bool(cuts)


def sync_poll(h, n=1):
    evs, raws = [], []
    for _ in range(n):
        k, r = h.scr.get_input(raw_keys=True)
        evs.extend(k)
        raws.extend(r)
    return evs, raws


def ev_sync(ctx, enc, data, cut, truncated):
    """C05/get-input-split (truncated=False) and C05/get-input-timeout (truncated=True)"""
    base = {"enc": enc, "stream": jl(data), "stream_repr": repr(bytes(data)), "cut": cut}
    st, want = ctx.D(enc, data)
    if st != "ok":
        return False, base | {"cls": "raised " + want.split(":")[0], "why": f"decoding the stream as it stands raised {want}"}, True
    base["expected"] = jev(want)
    h = ctx.sync()
    evs, raws = [], []
    try:
        if truncated:
            h.scr.set_input_timeouts(max_wait=0, complete_wait=0.001)
            os.write(h.w, data)
            k, r = sync_poll(h)
            evs += k
            raws += r
        else:
            # "the remainder arrives before the completion timeout": complete_wait is 3 s and the second
            # chunk is written 2 ms after the first by a timer thread, so the oracle is fair both to an
            # implementation whose get_input() returns at once with the sequence pending (today's) and to
            # one that blocks inside get_input() for up to complete_wait.
            h.scr.set_input_timeouts(max_wait=0, complete_wait=3.0)  # 1500x the 2 ms gap: robust on a busy machine
            os.write(h.w, data[:cut])
            t = threading.Timer(0.002, os.write, (h.w, data[cut:]))
            t.start()
            try:
                k, r = sync_poll(h)
                evs += k
                raws += r
            finally:
                t.join()
            k, r = sync_poll(h)
            evs += k
            raws += r
        if truncated:
            time.sleep(0.003)  # complete_wait is 0.001 s: the completion timeout has expired
            for _ in range(3):
                k, r = sync_poll(h)
                evs += k
                raws += r
    except Exception as e:  # noqa: BLE001
        ctx.drop("hs")
        return False, base | {"cls": exc_cls(e), "why": f"raised {type(e).__name__}: {e}"[:300]}, True
    base["events"] = jev(evs)
    pending = list(h.scr._partial_codes)
    if pending:
        ctx.drop("hs")
    if truncated and pending and evs == want[: len(evs)]:
        return False, base | {"cls": "pending bytes never decoded by get_input", "pending": pending, "why": "complete_wait expired and get_input() was polled 3 more times, yet the truncated sequence stays in _partial_codes undelivered"}, True
    if evs != want:
        return False, base | {"cls": "events differ", "pending": pending, "why": "get_input() events differ from the decoding of the stream"}, True
    if raws != list(data) or pending:
        return False, base | {"cls": "raw codes lost or duplicated", "raw": raws, "pending": pending, "why": "raw codes do not concatenate to the stream"}, True
    return True, base, True


# ----------------------------------------------------------------------------------------------------------
# virtual time for the synchronous path.  The display modules wait with `selectors.DefaultSelector().select(t)`;
# while a VClock is active that call is answered from a script instead of the wall clock: the real selector is
# polled (select(0)) on the real pipe, and when nothing is readable the virtual clock jumps - to the next scripted
# arrival (which is then really written to the pipe) if it falls within the timeout, else by the timeout.  Nothing
# of urwid is replaced: _wait_for_input_ready, _read_raw_input, get_available_raw_input, parse_input and
# get_input are the real ones; only "what the operating system does while we sleep" is scripted.
SOON, PAUSE = 0.001, 1.0  # gap before a read: "arrives before the completion timeout" / "silence outlasting it"
COMPLETE_WAIT = 0.125  # the Screen's default; PAUSE = 8 x, SOON = 1/125 x


class BlocksForever(Exception):
    """An unbounded wait was entered although nothing more will ever arrive."""


RESIZE = None  # a "read" that is no bytes but the terminal being resized (SIGWINCH delivered to the screen)


class VClock:
    def __init__(self, wfd, reads, on_resize=None):
        """reads: [(gap_before, bytes | RESIZE)] - absolute arrival times are the running sum of the gaps."""
        self.now = 0.0
        self.wfd = wfd
        self.on_resize = on_resize
        self.q = []
        t = 0.0
        for gap, chunk in reads:
            t += gap
            self.q.append((t, chunk))
        self.last_arrival = None  # of bytes

    def deliver_due(self):
        while self.q and self.q[0][0] <= self.now + 1e-9:
            t, chunk = self.q.pop(0)
            if chunk is RESIZE:
                self.on_resize()  # what the operating system does: run the screen's SIGWINCH handler
            else:
                os.write(self.wfd, chunk)
                self.last_arrival = t

    def sleep(self, timeout):
        """Nothing is readable: sleep for `timeout` (None: until input arrives)."""
        if not self.q:
            if timeout is None:
                raise BlocksForever
            self.now += timeout
            return
        t = self.q[0][0]
        if timeout is None or self.now + timeout >= t - 1e-9:
            self.now = max(self.now, t)
            self.deliver_due()
        else:
            self.now += timeout


_VCLOCK = [None]


class VSelector:
    """selectors.DefaultSelector() as seen by the display modules (context manager, register, select)."""

    def __init__(self):
        self.real = selectors.DefaultSelector()

    def __enter__(self):
        return self

    def __exit__(self, *exc):
        self.real.close()
        return False

    def close(self):
        self.real.close()

    def register(self, fileobj, events, data=None):
        return self.real.register(fileobj, events, data)

    def unregister(self, fileobj):
        return self.real.unregister(fileobj)

    def select(self, timeout=None):
        vc = _VCLOCK[0]
        if vc is None:
            return self.real.select(timeout)
        vc.deliver_due()
        ready = self.real.select(0)
        if ready or (timeout is not None and timeout <= 0):
            return ready
        vc.sleep(timeout)
        return self.real.select(0)


class _VSelectors:
    """Stand-in for the `selectors` module inside the two display modules."""

    DefaultSelector = VSelector
    EVENT_READ = selectors.EVENT_READ
    EVENT_WRITE = selectors.EVENT_WRITE


class virtual_time:
    def __init__(self, vclock):
        self.vc = vclock

    def __enter__(self):
        self.saved = (_raw_display_base.selectors, _posix_raw_display.selectors, _VCLOCK[0])
        _raw_display_base.selectors = _VSelectors
        _posix_raw_display.selectors = _VSelectors
        _VCLOCK[0] = self.vc
        return self.vc

    def __exit__(self, *exc):
        _raw_display_base.selectors, _posix_raw_display.selectors, _VCLOCK[0] = self.saved
        return False


def history_segments(reads):
    """The byte strings between silences (a PAUSE gap before a read starts a new segment)."""
    segs = [b""]
    for gap, chunk in reads:
        if gap >= PAUSE and segs[-1]:
            segs.append(b"")
        if chunk is not RESIZE:
            segs[-1] += bytes(chunk)
    return [s for s in segs if s]


def _readable(h):
    with selectors.DefaultSelector() as sel:
        sel.register(h.r, selectors.EVENT_READ)
        return bool(sel.select(0))


MODES = {"block": (None, False), "block-raw": (None, True), "poll-raw": (0.05, True)}


def ev_history(ctx, enc, reads, mode):
    """C05/get-input-history; reads = [(gap_before, bytes)], mode in MODES"""
    max_wait, raw_keys = MODES[mode]
    reads = [(g, c if c is RESIZE else bytes(c)) for g, c in reads]
    data = b"".join(c for _g, c in reads if c is not RESIZE)
    resizes = any(c is RESIZE for _g, c in reads)
    base = {"enc": enc, "mode": mode, "stream": jl(data), "reads": [["PAUSE" if g >= PAUSE else "soon", "RESIZE" if c is RESIZE else jl(c)] for g, c in reads],
            "reads_repr": " ".join(("<silence> " if g >= PAUSE and i else "") + ("<resize>" if c is RESIZE else repr(c)) for i, (g, c) in enumerate(reads))}
    want, ref = [], []
    for seg in history_segments(reads):
        st, v = ctx.D(enc, seg)
        if st != "ok":
            return False, base | {"cls": "raised " + v.split(":")[0], "why": f"decoding segment {list(seg)!r} as it stands raised {v}"}, True
        want.extend(v)
        ref.extend(ref_decode(seg, enc))
    base["expected"] = jev(want)
    h = ctx.virt(max_wait)
    evs, raws, problems = [], [], []
    vc = VClock(h.w, reads, h.scr._sigwinch_handler)
    try:
        with virtual_time(vc):
            for _call in range(80):
                vc.deliver_due()
                if not vc.q and not _readable(h) and not h.scr._resized:
                    if not h.scr._partial_codes:
                        break
                    if max_wait is None:
                        problems.append(f"get_input() returned holding {list(h.scr._partial_codes)!r} although nothing is readable; the next call blocks for ever: the bytes are lost")
                        break
                t0 = vc.now
                r = h.scr.get_input(raw_keys=True) if raw_keys else h.scr.get_input()
                if raw_keys:
                    if not (isinstance(r, tuple) and len(r) == 2):
                        problems.append(f"get_input(raw_keys=True) returned {type(r).__name__}, not (keys, raw)")
                        break
                    keys, raw = r
                    raws.extend(raw)
                else:
                    keys = r
                if not isinstance(keys, list):
                    problems.append(f"get_input() returned {type(keys).__name__}, not a list")
                    break
                evs.extend(k for k in keys if not (resizes and k == "window resize"))  # (resizes are not decoded input)
                pend = list(h.scr._partial_codes)
                if pend and not _readable(h) and vc.last_arrival is not None and vc.now - vc.last_arrival >= h.scr.complete_wait - 1e-9:
                    problems.append(f"get_input() returned at t={vc.now:.3f} with {pend!r} still pending, {vc.now - vc.last_arrival:.3f} s after the last byte arrived (complete_wait {h.scr.complete_wait}) and nothing readable")
                    break
                if not keys and vc.now == t0:
                    vc.now += 0.01  # the application does something else between two polls
            else:
                problems.append("still input or pending bytes after 80 get_input() calls")
    except BlocksForever:
        problems.append(f"get_input() entered an unbounded wait holding {list(h.scr._partial_codes)!r} when nothing more would arrive")
    except Exception as e:  # noqa: BLE001
        ctx.drop_virt(max_wait)
        return False, base | {"cls": exc_cls(e), "why": f"raised {type(e).__name__}: {e}"[:300]}, True
    base["events"] = jev(evs)
    pending = list(h.scr._partial_codes)
    if problems or pending or _readable(h):
        ctx.drop_virt(max_wait)  # fresh screen + pipe for the next case
    if evs != want:
        glued = "; ".join(problems)
        return False, base | {"cls": "events differ from the as-they-stand decoding of the segments", "pending": pending,
                              "why": "get_input() events differ from decoding each segment between silences as it stands" + (f" ({glued})" if glued else "")}, True
    if problems:
        return False, base | {"cls": "pending bytes held back past the timeout", "pending": pending, "why": "; ".join(problems)}, True
    if pending:
        return False, base | {"cls": "pending bytes never decoded by get_input", "pending": pending, "why": "nothing more will arrive yet bytes stay in _partial_codes"}, True
    if raw_keys and raws != list(data):
        return False, base | {"cls": "raw codes lost or duplicated", "raw": raws, "why": "raw codes do not concatenate to the stream"}, True
    if UNSPEC not in ref and evs != ref:
        return False, base | {"cls": "events differ from the reference", "reference": jev(ref), "why": "events differ from the independent reference decoding of the segments"}, True
    return True, base, any(g >= PAUSE for g, _c in reads[1:])


# ----------------------------------------------------------------------------------------------------------
# input pools
def e(s):
    return b"\x1b" + (s if isinstance(s, bytes) else s.encode("ascii"))


def table_streams():
    return [e(s) for s, _n in escape.input_sequences if s not in ("[M", "[<")]


def x10_streams(tier):
    coords = [(33, 33), (255, 32), (130, 200)] if tier == "quick" else [(33, 33), (32, 255), (255, 32), (130, 200), (34, 127), (128, 0), (27, 27), (77, 109)]
    return [e(b"[M" + bytes([cb, x, y])) for cb in range(32, 160) for x, y in coords]


def sgr_streams(tier):
    bs = [btn | mod | drag for btn in (0, 1, 2, 64, 65) for mod in ((0, 4, 8, 16, 28) if tier == "quick" else (0, 4, 8, 12, 16, 20, 24, 28)) for drag in (0, 32)]
    xy = [(1, 1), (10, 200), (223, 1000)] if tier == "quick" else [(1, 1), (1, 2), (10, 200), (223, 1000), (80, 24), (65535, 99999)]
    return [e(f"[<{b};{x};{y}{f}") for b in bs for x, y in xy for f in "Mm"]


def cpr_streams(tier):
    v = [1, 2, 9, 10, 24, 80, 132, 999] if tier == "quick" else [1, 2, 3, 5, 8, 9, 10, 11, 24, 25, 80, 100, 132, 999, 10000]
    return [e(f"[{r};{c}R") for r in v for c in v]


UTF8_CHARS = ["\x80", "\xe9", "\u07ff", "\u0800", "\u20ac", "\u3042", "\ud7ff", "\ue000", "\uffff", "\U00010000", "\U0001f600", "\U0010ffff"]
UTF8_BAD = [b"\xc0\x80", b"\xc1\xbf", b"\xe0\x80\x80", b"\xe0\x9f\xbf", b"\xed\xa0\x80", b"\xf0\x80\x80\x80", b"\xf4\x90\x80\x80", b"\xf5\x80\x80\x80",
            b"\xf8\x88\x80\x80\x80", b"\x80", b"\xbf", b"\xfe", b"\xff", b"\xc3", b"\xe2\x82", b"\xf0\x9f\x98", b"\xc3A", b"\xe2\x82A", b"\xe2A\xac", b"\xf0\x9f\x98A", b"\xc3\xc3\xa9"]
WIDE_CHARS = [b"\xa4\xa2", b"\xb0\xa1", b"\xa1\xea", b"\xa4\x40", b"\x81\x40", b"\xfe\xfe", b"\x8e\xb1", b"\xa4\x7e"]
WIDE_BAD = [b"\xa4", b"\xa4 ", b"\xa4\x1b", b"\xa4\x7f", b"\xa4\r", b"\xa4\xa2\xa4", b"\xa4\xa2\xa4\xa2", b"a\xa4\xa2b"]


def unit_pool(enc):
    """Representative complete units (used for pairs, ESC-prefixed forms and the get_input route)."""
    p = [b"a", b"~", b" ", b"\r", b"\t", b"\x7f", b"\x01", b"\x1c", b"\x00",
         e("[A"), e("OP"), e("[3~"), e("[15~"), e("[1;5C"), e("[24;8~"), e("[200~"), e("[Z"), e("Oa"), e("[0n"),
         e(b"[M !!"), e(b"[M#\xff\x90"), e("[<0;1;1M"), e("[<35;120;40m"), e("[12;40R"), e("[1;5R"), e("[2;3R")]
    if enc == "utf8":
        p += ["\xe9".encode(), "\u20ac".encode(), "\U0001f600".encode()]
    elif enc == "wide":
        p += [b"\xa4\xa2", b"\xa4\x40"]
    else:
        p += [b"\xe9", b"\xff"]
    return p


def garbage_alphabet(enc):
    hi = {"utf8": [0xE2, 0x82], "wide": [0xA4, 0xA2], "narrow": [0xE9, 0x80]}[enc]
    return [27, ord("["), ord("O"), ord("<"), ord("M"), ord(";"), ord("1"), ord("R"), ord("~"), ord("A"), *hi]


MALFORMED = [e("[<M"), e("[<1;2M"), e("[<a;2;3M"), e("[<1;2;3;4M"), e("[<;;M"), e("[<1;2;3"), e("[<1;2;3X"), e("[<+1;2;3M"), e("[<1;-2;3M"),
             e("[< 1;2;3M"), e("[<1_0;2;3M"), e("[<1;2;3m~"), e("[<0;0;0M"), e(b"[<\xb2;2;3M"),
             e("[M"), e("[M a"), e(b"[M\x00!!"), e(b"[M\x1f\x00\x00"),
             e("[;R"), e("[0;1R"), e("[1;0R"), e("[01;1R"), e("[1;01R"), e("[12;R"), e("[;5R"), e("[12;5"), e("[12;5;R"), e("[12R"), e("[1;2;3R"), e("[12;5r"),
             e(b"\x1b[2;3R"), e(b"\x1b[12;40R"), e(b"\x1b\x1b[2;3R"), e(b"\x1b[<0;1;1M"), e(b"\x1b[M !!"), e(b"\x1b[A"), e(b"\x1b\x1b"), e(b"\x1ba"), e(b"\x1b\x1b[1;3A"), e(b"\x1b"),
             e("[99z"), e("[1;9A"), e("O"), e("OZ"), e("["), e("[["), e("[[Z"), e("[1"), e("[1;"), e("[1;5"), e("[20"), e("[200"), e("[20;"), e("[34;8"), e("[35~")]


# Bytes >= 0x80 for which CPython's *str* predicates answer as they do for ASCII characters: chr(b).isdigit() is
# true for the superscripts 0xB2 0xB3 0xB9, .isnumeric() also for the fractions 0xBC-0xBE, .isalpha() for 0xAA 0xBA
# 0xB5, .isspace() for 0x85 0xA0.  A report is made of ASCII digits only; none of these bytes may be taken for one.
LIARS = tuple(b for b in range(128, 256) if chr(b).isdigit() or chr(b).isnumeric()) + (0xAA, 0xBA, 0xB5, 0xA0, 0x85)
LIAR_BASES = [e("[12;40R"), e("[7;9R"), e("[<0;12;40M"), e("[<35;7;9m"), e(b"[M !!"), e("[15~"), e("[1;5C")]


def liar_streams(tier):
    """(stream, cutlevel): every LIAR byte substituted for / inserted before every byte after ESC of a cursor
    report, an SGR and an X10 mouse report and two table sequences with parameters, also followed by a key."""
    for s in LIAR_BASES:
        for pos in range(1, len(s) + 1):
            for n, b in enumerate(LIARS):
                lvl = 1 if (tier != "quick" or n % 4 == 0) else 0
                yield s[:pos] + bytes([b]) + s[pos:], lvl
                if pos < len(s):
                    yield s[:pos] + bytes([b]) + s[pos + 1 :], lvl
                    if tier != "quick" or n < 3:
                        yield s[:pos] + bytes([b]) + s[pos + 1 :] + b"q", 0


def history_pool(tier, enc):
    """[(reads, mode)] for C05/get-input-history: complete keys FOLLOWED BY an incomplete sequence in one read
    (or in successive prompt reads), a silence, then more input (or none)."""
    quick = tier == "quick"
    heads = [b"", b"a", b"xy", e("[A"), e("[12;40R"), e(b"[M !!")]
    tails = [b"\x1b", e("["), e("[1"), e("[1;"), e("[1;5"), e("O"), e("[<"), e("[<0;1"), e("[<0;1;1"), e("[M"), e("[M "), e("[M !"), e("[12;"), e("[12;4"), e(b"\x1b"), e(b"\x1b[")]
    conts = [b"", b"b", b"A", b"[B", b"~", b"\x1b", b";5C", b"0R", b"!", b"M"]
    if enc == "utf8":
        heads.append("€".encode())
        tails += [b"\xe2", b"\xe2\x94", b"\xf0\x9f\x98", e(b"\xe2\x94")]
        conts += [b"\xbc", b"\x80"]
    elif enc == "wide":
        heads.append(b"\xa4\xa2")
        tails += [b"\xa4", e(b"\xa4")]
        conts += [b"\xa2"]
    else:
        heads.append(b"\xe9")
    modes = list(MODES)
    out = []
    n = 0
    for head, tail, cont in itertools.product(heads, tails, conts):
        n += 1
        rot = modes[n % 3]
        after = [(PAUSE, cont)] if cont else []
        # A: keys + incomplete tail in ONE read, silence, later input - in every mode
        for m in modes:
            out.append(([(SOON, head + tail), *after], m))
        if quick and n % 3:
            continue
        # B: the tail arrives in its own prompt read
        if head:
            out.append(([(SOON, head), (SOON, tail), *after], rot))
        # C: the continuation arrives in time (no silence): same events as the whole
        if cont:
            out.append(([(SOON, head + tail), (SOON, cont)], rot))
        # D: the tail itself is cut across two prompt reads
        for k in range(1, len(tail)):
            if k == 1 or not quick:
                out.append(([(SOON, head + tail[:k]), (SOON, tail[k:]), *after], rot))
        # E: two silences, each after keys + incomplete tail
        out.append(([(SOON, head + tail), (PAUSE, head + tail), *after], rot))
    return out


def resize_pool(tier, enc):
    """[(reads, mode)] for C05/get-input-resize: 1-3 resizes (the 2nd and 3rd enter the throttling of get_input)
    with keys / incomplete tails arriving at once, promptly after, or a silence after the last resize."""
    heads = [b"", b"a", e("[A")]
    tails = [b"", b"\x1b", e("["), e("[1;"), e("[<0;1"), e("[M "), e("[12;")]
    tails += {"utf8": [b"\xe2\x94"], "wide": [b"\xa4"], "narrow": []}[enc]
    conts = [b"", b"b", b"A", b"~"]
    out = []
    for nres, head, tail, cont in itertools.product((1, 2, 3), heads, tails, conts):
        if not head + tail:
            continue
        rs = [(SOON if j == 0 else PAUSE, RESIZE) for j in range(nres)]
        after = [(PAUSE, cont)] if cont else []
        for m in MODES:
            out.append(([*rs, (SOON, head + tail), *after], m))  # input right behind the last resize
            out.append(([*rs[:-1], (rs[-1][0], head + tail), (SOON, RESIZE), *after], m))  # resize right behind the input
        if tier != "quick" or nres == 2:
            out.append(([*rs, (PAUSE, head + tail), *after], "block-raw"))  # input a silence after the resizes
    return out


def modified_key_streams():
    from spec import xterm_keys

    return [e(s) for s, _n in xterm_keys.documented_table(optional=True)]


def streams_for(tier, enc, seed):
    """Yield (kind, data, cutlevel, sync) - cutlevel: 0 whole only, 1 all 1-cut schedules, 2 also all 2-cut schedules."""
    quick = tier == "quick"
    acc = {}  # data -> [kind, cutlevel, sync]; a stream reached twice keeps the higher cut level

    def add(kind, data, lvl, sync=None):
        data = bytes(data)
        if not data:
            return
        cur = acc.get(data)
        if cur is None:
            acc[data] = [kind, lvl, sync]
        else:
            cur[1] = max(cur[1], lvl)
            cur[2] = cur[2] or sync

    tbl = table_streams()
    for i, s in enumerate(tbl):
        add("table", s, 2 if (not quick or enc == "utf8" or i % 4 == 0) else 1)
    for s in termdecode.ANCHORS:
        add("table", s, 1)
    # every documented modified key: forms [1;<m>L, [<m>L (cursor keys, home/end/5, f1-f4), O<m>P..S, [<n>;<m>~ (insert,
    # delete, page keys, f1..f20) x every xterm modifier parameter m = 1..8, named by spec/xterm_keys.py (independent
    # of the table under test) through ref_decode; alone and followed by an ordinary key
    for i, s in enumerate(modified_key_streams()):
        add("modified-key", s, 2 if (not quick or enc == "utf8") else 1)
        add("modified-key+key", s + b"x", 1 if (not quick or enc == "utf8" or i % 4 == 0) else 0)
    for i, s in enumerate(x10_streams(tier)):
        add("x10", s, 2 if (not quick or i % 8 == 0) else 1)
    for i, s in enumerate(sgr_streams(tier)):
        add("sgr", s, 2 if (i % (16 if quick else 4) == 0) else 1)
    for i, s in enumerate(cpr_streams(tier)):
        add("cpr", s, 2 if (not quick or i % 3 == 0) else 1)
    for c in range(256):
        add("byte", bytes([c]), 0)
        add("esc+byte", bytes([27, c]), 1)
    for ch in UTF8_CHARS:
        add("utf8", ch.encode("utf-8", "surrogatepass"), 2)
        add("esc+utf8", e(ch.encode("utf-8", "surrogatepass")), 2)
    for s in UTF8_BAD + WIDE_CHARS + WIDE_BAD:
        add("hibytes", s, 2)
        add("esc+hibytes", e(s), 2)
        add("hibytes+key", s + b"a", 2)
    for s in MALFORMED:
        add("malformed", s, 2)
        add("malformed+key", s + b"a", 2 if len(s) < 9 else 1)
        add("malformed+seq", s + e("[A"), 1)
    for d, lvl in liar_streams(tier):
        add("report+non-ascii-digit", d, lvl)
    # every proper prefix of every sequence, alone (flushed by the timeout) and followed by a key
    base = tbl + x10_streams("quick")[::16] + sgr_streams("quick")[::10] + cpr_streams("quick")[::5]
    for s in base:
        for n in range(1, len(s)):
            add("truncated", s[:n], 0, sync="trunc" if n <= 3 or quick is False else None)
            add("truncated+key", s[:n] + b"q", 1)
            if not quick:
                add("truncated+esc", s[:n] + b"\x1b", 1)
                add("truncated+seq", s[:n] + e("[B"), 1)
    # pairs of complete units: what follows is not disturbed
    pool = unit_pool(enc)
    for i, (a, b) in enumerate(itertools.product(pool, pool)):
        add("pair", a + b, 1 if quick else 2, sync="split" if (not quick or i % 3 == 0) else None)
    if not quick:
        for a, b, c in itertools.product(pool[::3], pool[1::3], pool[2::3]):
            add("triple", a + b + c, 1)
    for u in pool:
        add("esc+unit", e(u), 2)
        add("esc+esc+unit", e(e(u)), 1)
    # garbage: all strings of length <= L over 12 representative bytes
    alpha = garbage_alphabet(enc)
    L = 3 if quick else 4
    for n in range(1, L + 1):
        for t in itertools.product(alpha, repeat=n):
            add("garbage", bytes(t), 2)
    if not quick:
        for t in itertools.product(alpha, repeat=L + 1):
            add("garbage-long", bytes(t), -1)
    return [(k, d, lvl, sy) for d, (k, lvl, sy) in acc.items()]


def schedules(n, lvl):
    """All (cuts, fires) for a stream of length n at cut level lvl (the whole delivery is handled by names)."""
    if lvl >= 1:
        for c in range(1, n):
            yield (c,), (False,)
            yield (c,), (True,)
    if lvl >= 2:
        for c1, c2 in itertools.combinations(range(1, n), 2):
            for f in itertools.product((False, True), repeat=2):
                yield (c1, c2), f


def random_streams(tier, enc, seed):
    r = rng(seed * 3 + ENCODINGS.index(enc))
    n = 1500 if tier == "quick" else 40000
    frag = [b"\x1b", b"\x1b[", b"\x1bO", b"\x1b[<", b"\x1b[M", b";", b"M", b"m", b"R", b"~", b"1", b"20", b"5", b"A", b"\xe2\x82\xac", b"\xa4\xa2", b"\xf0\x9f"]
    out = []
    for _ in range(n):
        parts = []
        for _k in range(r.randint(1, 6)):
            x = r.random()
            if x < 0.55:
                parts.append(frag[r.randrange(len(frag))])
            elif x < 0.8:
                parts.append(bytes([r.randrange(256)]))
            else:
                parts.append(bytes([r.randrange(32, 127)]))
        data = b"".join(parts)
        k = min(3, len(data) - 1)
        cuts = tuple(sorted(r.sample(range(1, len(data)), k))) if k > 0 else ()
        fires = tuple(r.random() < 0.4 for _ in cuts)
        out.append((data, cuts, fires))
    return out


# ----------------------------------------------------------------------------------------------------------
def new_checks(tier):
    ex = {"C05/random-streams": False}
    return {n: DCheck(n, rule, ex.get(n, True), "") for n, rule in CHECKS.items()}


def eval_stream(ctx, chk, enc, kind, data, lvl, sync):
    smp = {"enc": enc, "kind": kind, "stream": repr(data)}
    ok, d, nt = ev_pkq(enc, data)
    chk["C05/no-raise-progress"].case((enc, data), ok, d | {"kind": kind}, nt, smp)
    for n, ok, d, nt in ev_prefix(enc, data):
        chk["C05/prefix-stable"].case((enc, data, n), ok, d and d | {"kind": kind}, nt, smp)
    if lvl < 0:  # decoder-level oracles only (no Screen)
        return
    ok, d, nt = ev_names(ctx, enc, data)
    chk["C05/names"].case((enc, data), ok, d | {"kind": kind}, nt, smp)
    ok, d, nt = ev_frag(ctx, enc, data, (), ())
    chk["C05/fragmentation"].case((enc, data, (), ()), ok, d | {"kind": kind}, False, None)
    whole_ok = ok
    if whole_ok:  # a stream whose whole delivery already fails is reported once, not once per schedule
        for cuts, fires in schedules(len(data), lvl):
            ok, d, nt = ev_frag(ctx, enc, data, cuts, fires)
            chk["C05/fragmentation"].case((enc, data, cuts, fires), ok, d | {"kind": kind}, nt, smp | {"cuts": list(cuts), "fires": list(fires)})
    if sync == "split":
        for c in range(1, len(data)):
            ok, d, nt = ev_sync(ctx, enc, data, c, False)
            chk["C05/get-input-split"].case((enc, data, c), ok, d | {"kind": kind}, nt, smp | {"cut": c})
    elif sync == "trunc":
        ok, d, nt = ev_sync(ctx, enc, data, None, True)
        chk["C05/get-input-timeout"].case((enc, data), ok, d | {"kind": kind}, nt, smp)
    if kind == "truncated":
        # every proper prefix of every sequence, behind a complete key in the same read, then silence, then a key
        eval_history(ctx, chk, enc, [(SOON, b"k" + data), (PAUSE, b"z")], "block-raw", kind)


def eval_history(ctx, chk, enc, reads, mode, kind="history"):
    ok, d, nt = ev_history(ctx, enc, reads, mode)
    key = (enc, mode, tuple((g, c if c is RESIZE else bytes(c)) for g, c in reads))
    name = "C05/get-input-resize" if any(c is RESIZE for _g, c in reads) else "C05/get-input-history"
    chk[name].case(key, ok, d | {"kind": kind}, nt, {"enc": enc, "mode": mode, "reads": d.get("reads_repr")})


def eval_random(ctx, chk, enc, data, cuts, fires):
    c = chk["C05/random-streams"]
    key = (enc, data, cuts, fires)
    smp = {"enc": enc, "stream": repr(data), "cuts": list(cuts), "fires": list(fires)}
    ok, d, _nt = ev_pkq(enc, data)
    if ok:
        for _n, ok, d, _nt in ev_prefix(enc, data):
            if not ok:
                break
    if ok:
        ok, d, _nt = ev_names(ctx, enc, data)
    if ok:
        ok, d, _nt = ev_frag(ctx, enc, data, cuts, fires)
    c.case(key, ok, (d or {}) | {"kind": "random", "cuts": list(cuts), "fires": [bool(f) for f in fires]}, True, smp)


def worker(args):
    tier, seed, shard, nshards = args
    saved = str_util.get_byte_encoding()
    chk = new_checks(tier)
    ctx = Ctx()
    try:
        for enc in ENCODINGS:
            str_util.set_byte_encoding(enc)
            ctx.close()  # fresh screens per encoding
            items = streams_for(tier, enc, seed)
            for i, (kind, data, lvl, sync) in enumerate(items):
                if i % nshards == shard:
                    eval_stream(ctx, chk, enc, kind, data, lvl, sync)
            for i, (data, cuts, fires) in enumerate(random_streams(tier, enc, seed)):
                if i % nshards == shard:
                    eval_random(ctx, chk, enc, data, cuts, fires)
            for i, (reads, mode) in enumerate(history_pool(tier, enc) + resize_pool(tier, enc)):
                if i % nshards == shard:
                    eval_history(ctx, chk, enc, reads, mode)
    finally:
        ctx.close()
        str_util.set_byte_encoding(saved)
    return {n: c.state() for n, c in chk.items()}


def bound_text(tier):
    quick = tier == "quick"
    return (
        f"3 encodings x [all {len(table_streams())} table sequences, every documented modified key ({len(modified_key_streams())}: cursor/home/end/5 and f1-f4 in the [1;mL, [mL, OmL forms, insert/delete/page keys/f1-f20 in the [n;m~ form, x xterm modifier parameter m = 1..8; named by spec/xterm_keys.py, not by the table) alone and followed by a key, X10 reports (128 button bytes x {3 if quick else 8} coordinate pairs), "
        f"SGR reports ({len(sgr_streams(tier))}), cursor reports ({len(cpr_streams(tier))}), all 256 single bytes and ESC+byte, UTF-8/double-byte characters valid and invalid, "
        f"{len(MALFORMED)} malformed/nested reports, every proper prefix of every sequence, all pairs of {len(unit_pool('utf8'))} representative units, "
        f"every non-ASCII byte that str.isdigit/isnumeric/isalpha/isspace accept ({len(LIARS)}) substituted/inserted at every position of {len(LIAR_BASES)} reports/sequences, "
        f"all garbage strings of length <= {3 if quick else 4} over 12 representative bytes{'' if quick else ' (length 5: decoder-level oracles only)'}] x every 1-cut and (for the subset marked level 2: all in thorough except long SGR) every 2-cut split x timeout fired or not after each cut; "
        f"{1500 if quick else 40000} seeded random streams per encoding with 3 cuts; real Screen on an os.pipe with a scripted event loop"
    )


def run(tier="quick", seed=0):
    t0 = time.time()
    jobs = [(tier, seed, i, NPROC) for i in range(NPROC)]
    if NPROC > 1:
        with multiprocessing.get_context("fork").Pool(NPROC) as pool:
            states = pool.map(worker, jobs, chunksize=1)
    else:
        states = [worker(j) for j in jobs]
    chk = new_checks(tier)
    for st in states:
        for n, s in st.items():
            chk[n].merge(s)
    bound = bound_text(tier)
    out = []
    for n, c in chk.items():
        c.bound = bound if n not in ("C05/get-input-split", "C05/get-input-timeout", "C05/random-streams", "C05/get-input-history", "C05/get-input-resize") else {
            "C05/get-input-split": "3 encodings x pairs of the representative units (every 3rd pair in quick, all in thorough) x every 1-cut; second chunk written 2 ms after the first, complete_wait 0.5 s",
            "C05/get-input-timeout": "3 encodings x proper prefixes (<= 3 bytes in quick, all in thorough) of every sequence",
            "C05/random-streams": f"{1500 if tier == 'quick' else 40000} seeded random streams per encoding, <= 3 cuts",
            "C05/get-input-resize": f"3 encodings x {len(resize_pool(tier, 'utf8'))} histories [1-3 resizes x 3 heads x 7-8 incomplete tails x 4 continuations x (input right behind the last resize | resize right behind the input | input a silence later)] x {{blocking, blocking raw_keys, polling}}; virtual clock",
            "C05/get-input-history": f"3 encodings x {len(history_pool(tier, 'utf8'))} histories [7 complete heads (none, keys, a sequence, a cursor report, a mouse report, a multi-byte character) x 16-20 incomplete tails (ESC, truncated CSI/SS3/SGR/X10/cursor reports, ESC ESC, truncated multi-byte characters) x 10-12 continuations, as: head+tail in one read | head, tail in prompt reads | tail cut in two | continuation in time | two silences] x {{blocking, blocking raw_keys, polling max_wait=0.05}} (all three for the one-read shape), plus every proper prefix of every sequence behind a key; virtual clock",
        }[n]
        r = c.result()
        r["wall_s"] = round(time.time() - t0, 2)
        out.append(r)
    return {"checks": out, "bound": bound}


def replay(check_name, case):
    enc = case["enc"]
    data = bytes(case["stream"])
    saved = str_util.get_byte_encoding()
    ctx = Ctx()
    try:
        str_util.set_byte_encoding(enc)
        if check_name == "C05/no-raise-progress":
            ok, d, _ = ev_pkq(enc, data)
        elif check_name == "C05/prefix-stable":
            res = [x for x in ev_prefix(enc, data) if x[0] == case.get("prefix_len")] or ev_prefix(enc, data)
            bad = [x for x in res if not x[1]]
            ok, d = (not bad), (bad[0][2] if bad else {})
        elif check_name == "C05/names":
            ok, d, _ = ev_names(ctx, enc, data)
        elif check_name == "C05/fragmentation":
            ok, d, _ = ev_frag(ctx, enc, data, tuple(case.get("cuts", ())), tuple(case.get("fires", ())))
        elif check_name == "C05/get-input-split":
            ok, d, _ = ev_sync(ctx, enc, data, case["cut"], False)
        elif check_name == "C05/get-input-timeout":
            ok, d, _ = ev_sync(ctx, enc, data, None, True)
        elif check_name in ("C05/get-input-history", "C05/get-input-resize"):
            reads = [(PAUSE if g == "PAUSE" else SOON, RESIZE if c == "RESIZE" else bytes(c)) for g, c in case["reads"]]
            ok, d, _ = ev_history(ctx, enc, reads, case["mode"])
        elif check_name == "C05/random-streams":
            c = new_checks("quick")
            eval_random(ctx, c, enc, data, tuple(case.get("cuts", ())), tuple(case.get("fires", ())))
            cc = c["C05/random-streams"]
            ok, d = cc.failed == 0, (next(iter(cc.by_class.values()))[0] if cc.by_class else {})
        else:
            return {"outcome": "not-reproduced", "detail": {"why": f"unknown check {check_name}"}}
    finally:
        ctx.close()
        str_util.set_byte_encoding(saved)
    return {"outcome": "not-reproduced" if ok else "confirmed", "detail": d}
