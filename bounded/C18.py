"""C18 bounded stand-in: colour specifications round-trip and degrade to the nearest colour.

Runs the real `urwid.AttrSpec` on the statement's own finite domain (every basic name, h0..h255,
#000..#fff, g0..g100, g#00..g#ff, every subset and order of the six settings, depths 1/16/88/256/2^24,
foreground and background), on a sample / the whole of #000000..#ffffff, and on malformed strings, and
compares with the reference model `spec/colour.py` (documented grammar + xterm formulas; it does not
import urwid's parser).

Readings (DESIGN.md C18):
  * "rebuild an equal specification" is taken at the depth the specification was declared with:
    AttrSpec(s.foreground, s.background, depth) == s.
  * an 88-colour specification reports 88 (a different palette, not a smaller one).
  * "the palette" for *nearest* is the palette the library reports (its _COLOR_VALUES_256/88, read as
    plain data); whether that palette *is* xterm's is a separate check against xterm's formulas.
  * '#rrggbb' below true colour: checked against the documented-by-behaviour quantisation
    '#rrggbb' -> '#rgb' -> nearest cube entry (checks C18/true-colour-degrade-256, -88); the strict
    reading "nearest to the 8-bit value" is the separate check C18/degrade-nearest-8bit.
  * 'gN': nearest to N*255/100 exactly or to that value rounded half-up to 8 bits (see spec/colour.py).
  * 'hN' / 'gN' / 'g#XX' text that only Python's int() leniency turns into a number ('h+5', 'h 5', 'g#-0',
    'h١', 'h5\n') is neither demanded nor forbidden: either accepted or AttrSpecError, never another exception
    (the strict reading -- such text is an unknown colour name -- is the observation C18/number-text-strict).
  * '#' names are strict: '#' and exactly 3 or 6 ASCII hex digits; '#0_0', '#+12', '#ff\n', '#٣٣٣' are unknown
    colour names and must raise AttrSpecError (owner's ruling, known finding 8aac5af).
  * short forms ('#rgb', 'gN', 'g#XX', 'hN') at 2^24 denote the RGB value of the 256-palette entry.

Failures expected on the unchanged tree (genuine, kept red): 'h0' at 88 (description raises ValueError);
non-hex / signed '#...' text raising ValueError / TypeError / IndexError instead of AttrSpecError, or
being accepted (88 ignores the low hex digits; 2^24 pads 3-character bodies with zeros before int());
get_rgb_values of a basic name next to a true colour; palette entry 245 (0x84 for xterm's 0x8a);
the strict 8-bit nearest reading for 21 (256) / 19 (88) component values.
"""
from __future__ import annotations

import functools
import itertools
import multiprocessing
import re
import time

from bounded.common import Check, rng
from spec import colour as ref

from urwid.display import common as uc
from urwid.display.common import AttrSpec, AttrSpecError

DEPTHS = ref.DEPTHS
TRUE = 2**24

# the palette the library reports (plain data), and its geometry as seen by the reference
PAL256 = ref.Palette(uc._COLOR_VALUES_256)
PAL88 = ref.Palette(uc._COLOR_VALUES_88)
XT = {256: ref.xterm_palette(256), 88: ref.xterm_palette(88)}


@functools.lru_cache(maxsize=None)
def refspec(fg, bg, depth):
    return ref.parse_spec(fg, bg, depth, PAL256, PAL88)


_CLS = re.compile(r"'[^']*'|\"[^\"]*\"")
_NUM = re.compile(r"#[0-9a-fA-F]{3,6}\b|[-+]?\b0x[0-9a-fA-F]+|\d+")


def failure_class(detail):
    why = _NUM.sub("N", _CLS.sub("S", str((detail or {}).get("why", "?"))))
    return f"depth {(detail or {}).get('depth', '?')}: {why}"[:200]


class KCheck(Check):
    """Check that also counts all failing cases, groups them into classes (the why-string with literals
    removed, per depth) and keeps at most two failures of each class among the 20 it stores, so that one
    frequent defect does not hide another."""

    def __init__(self, *a, count_only=False, **k):
        super().__init__(*a, **k)
        self.classes = {}
        self.nfail = 0
        self.count_only = count_only  # keys are distinct by construction: count them instead of storing them
        self.distinct = 0

    def start(self):
        self.t0 = time.time()
        return self

    def case(self, key, ok, detail=None, nontrivial=True, sample=None):
        self.evaluations += 1
        if nontrivial:
            if self.count_only:
                self.distinct += 1
            else:
                self.nontrivial.add(key)
        if sample is not None and len(self.samples) < 3:
            self.samples.append(sample)
        if not ok:
            self.nfail += 1
            detail = detail if detail is not None else {"case": repr(key)}
            c = self.classes.setdefault(failure_class(detail), {"count": 0, "first": detail.get("repro")})
            c["count"] += 1
            if c["count"] <= 2 and len(self.failures) < 20:
                self.failures.append(detail)

    def stop(self):
        self.wall = round(time.time() - self.t0, 2)

    def result(self):
        r = super().result()
        if self.count_only:
            r["distinct_nontrivial"] = self.distinct
        if hasattr(self, "wall"):
            r["wall_s"] = self.wall
        r["failing_cases"] = self.nfail
        r["failure_classes"] = [{"class": k, **v} for k, v in sorted(self.classes.items(), key=lambda kv: -kv[1]["count"])][:40]
        return r


# ---------------------------------------------------------------------------------------------------
# running the real code
def build(fg, bg, depth):
    """('ok', spec) | ('lib', message) | ('foreign', 'Type: message')"""
    try:
        return "ok", AttrSpec(fg, bg, depth)
    except AttrSpecError as e:
        return "lib", str(e)
    except Exception as e:  # noqa: BLE001
        return "foreign", f"{type(e).__name__}: {e}"


def observe(s):
    """every observable the property names; (dict, None) or (partial dict, 'observer raised ...')"""
    out = {}
    for name, fn in (
        ("foreground", lambda: s.foreground),
        ("background", lambda: s.background),
        ("colors", lambda: s.colors),
        ("rgb", lambda: list(s.get_rgb_values())),
        ("hash", lambda: hash(s)),
        ("repr", lambda: repr(s)),
        ("eq_self", lambda: s == s and not (s != s)),
    ):
        try:
            out[name] = fn()
        except Exception as e:  # noqa: BLE001
            return out, f"{name} raised {type(e).__name__}: {e}"
    return out, None


def base_detail(fg, bg, depth):
    return {"fg": fg, "bg": bg, "depth": depth, "repro": f"AttrSpec({fg!r}, {bg!r}, {depth})"}


def roundtrip(s, depth, obs):
    """None if the reported descriptions rebuild an equal specification (and describing is idempotent,
    and the hashes agree); otherwise a why-string."""
    st, s2 = build(obs["foreground"], obs["background"], depth)
    if st != "ok":
        return f"rebuilding from the reported descriptions ({obs['foreground']!r}, {obs['background']!r}) -> {st}: {s2}"
    if not (s2 == s) or (s2 != s):
        return f"rebuilt specification {s2!r} != original {s!r}"
    if hash(s2) != hash(s):
        return "equal specifications with different hashes"
    obs2, err = observe(s2)
    if err:
        return "on the rebuilt specification: " + err
    if obs2["foreground"] != obs["foreground"] or obs2["background"] != obs["background"]:
        return f"describing is not idempotent: {obs2['foreground']!r}/{obs2['background']!r}"
    return None


def side_view(s, side):
    if side == "fg":
        return s.foreground_basic, s.foreground_high, s.foreground_true, s.foreground_number
    return s.background_basic, s.background_high, s.background_true, s.background_number


def kind_of(s, side):
    b, h, t, n = side_view(s, side)
    flags = [k for k, f in (("basic", b), ("high", h), ("true", t)) if f]
    return (flags[0] if len(flags) == 1 else ("default" if not flags else "+".join(flags))), n


def rgb_of_true(v):
    return [(v >> 16) & 255, (v >> 8) & 255, v & 255]


# ---------------------------------------------------------------------------------------------------
# evaluators: case dict -> (ok, detail).  `replay` calls the same functions.
def ev_roundtrip(case, built=None):
    """valid specification: accepted; every observer works; descriptions rebuild an equal spec; hash;
    colors <= declared depth."""
    fg, bg, depth = case["fg"], case["bg"], case["depth"]
    d = base_detail(fg, bg, depth)
    st, s = built or build(fg, bg, depth)
    if st != "ok":
        return False, d | {"why": f"valid specification not accepted -> {st}: {s}"}
    obs, err = observe(s)
    d["observed"] = obs
    if err:
        return False, d | {"why": err}
    if obs["colors"] > depth:
        return False, d | {"why": f"reports {obs['colors']} colours, more than declared"}
    why = roundtrip(s, depth, obs)
    if why:
        return False, d | {"why": why}
    return True, d


def ev_meaning(case, built=None):
    """kind and stored number against the reference: exact for h/names, nearest palette entry for
    #rgb / gN / g#XX (ties: either), and the reported RGB is that entry's RGB in the library palette."""
    fg, bg, depth = case["fg"], case["bg"], case["depth"]
    d = base_detail(fg, bg, depth)
    r = refspec(fg, bg, depth)
    st, s = built or build(fg, bg, depth)
    if st != "ok":
        return False, d | {"why": f"valid specification not accepted -> {st}: {s}"}
    try:
        rgb = list(s.get_rgb_values())
    except Exception as e:  # noqa: BLE001
        return False, d | {"why": f"get_rgb_values raised {type(e).__name__}: {e}"}
    for side, c, got_rgb in (("fg", r.fg, rgb[:3]), ("bg", r.bg, rgb[3:])):
        kind, n = kind_of(s, side)
        d[side + "_stored"] = {"kind": kind, "number": n, "rgb": got_rgb, "expected_kind": c.kind, "expected_numbers": sorted(c.numbers)[:6]}
        if kind != c.kind:
            return False, d | {"why": f"{side}: stored as {kind}, expected {c.kind}"}
        if n not in c.numbers:
            return False, d | {"why": f"{side}: stored number {n}, the nearest/exact entry is {sorted(c.numbers)}"}
        if c.kind == "default":
            want = [None, None, None]
        elif c.kind == "basic":
            want = list(PAL256.rgb[n])
        elif c.kind == "true":
            want = rgb_of_true(n)
        else:
            want = list((PAL88 if depth == 88 else PAL256).rgb[n])
        if got_rgb != want:
            return False, d | {"why": f"{side}: get_rgb_values gives {got_rgb}, the palette entry is {want}"}
    want_set = {x: (x in r.settings) for x in ref.SETTINGS}
    got_set = {x: getattr(s, x) for x in ref.SETTINGS}
    if want_set != got_set:
        return False, d | {"why": f"settings {got_set} expected {want_set}"}
    return True, d


def ev_depth(case, built=None):
    fg, bg, depth = case["fg"], case["bg"], case["depth"]
    d = base_detail(fg, bg, depth)
    r = refspec(fg, bg, depth)
    st, s = built or build(fg, bg, depth)
    if st != "ok":
        return False, d | {"why": f"valid specification not accepted -> {st}: {s}"}
    want = ref.expected_depth(r, depth)
    d["colors"] = s.colors
    if s.colors != want:
        return False, d | {"why": f"reports {s.colors}, the smallest depth that expresses it is {want}"}
    return True, d


def ev_xterm(case, built=None):
    """reported RGB against xterm's own tables (generated from xterm's formulas)."""
    fg, bg, depth = case["fg"], case["bg"], case["depth"]
    d = base_detail(fg, bg, depth)
    r = refspec(fg, bg, depth)
    st, s = built or build(fg, bg, depth)
    if st != "ok":
        return False, d | {"why": f"valid specification not accepted -> {st}: {s}"}
    try:
        rgb = list(s.get_rgb_values())
    except Exception as e:  # noqa: BLE001
        return False, d | {"why": f"get_rgb_values raised {type(e).__name__}: {e}"}
    d["rgb"] = rgb
    for side, c, got in (("fg", r.fg, rgb[:3]), ("bg", r.bg, rgb[3:])):
        if c.kind == "default":
            wants = [[None, None, None]]
        elif c.kind == "basic":
            wants = [list(ref.XTERM_BASIC[n]) for n in c.numbers]
        elif c.kind == "true":
            # 6-digit: the value itself; short forms: the xterm value of the 256 entry they name
            short = case.get(side + "_short256")
            wants = [list(XT[256][n]) for n in short] if short else [rgb_of_true(n) for n in c.numbers]
        else:
            wants = [list(XT[88 if depth == 88 else 256][n]) for n in c.numbers]
        if got not in wants:
            return False, d | {"why": f"{side}: get_rgb_values gives {got}, xterm's table has {wants[0]}"}
    return True, d


def ev_reject(case):
    fg, bg, depth = case["fg"], case["bg"], case["depth"]
    d = base_detail(fg, bg, depth) | {"reason": case.get("reason", "")}
    st, s = build(fg, bg, depth)
    if st == "lib":
        return True, d
    if st == "foreign":
        return False, d | {"why": f"raised {s} instead of AttrSpecError ({case.get('reason', '')})"}
    obs, err = observe(s)
    return False, d | {"why": f"accepted ({case.get('reason', '')}) as {obs.get('repr', '?')}" + (f"; then {err}" if err else ""), "observed": obs}


def ev_malformed(case):
    """arbitrary string: reference says must-accept / must-reject / either; never a foreign exception, at
    construction or from any observer; whatever is accepted round-trips."""
    fg, bg, depth = case["fg"], case["bg"], case["depth"]
    r = refspec(fg, bg, depth)
    d = base_detail(fg, bg, depth) | {"reference": r.status, "reference_why": r.why}
    st, s = build(fg, bg, depth)
    if st == "foreign":
        return False, d | {"why": f"raised {s} instead of AttrSpecError"}
    if st == "lib":
        if r.status == "ok":
            return False, d | {"why": f"valid specification rejected: {s}"}
        return True, d
    obs, err = observe(s)
    d["observed"] = obs
    if err:
        return False, d | {"why": f"accepted, then {err}"}
    if r.status == "invalid":
        return False, d | {"why": f"malformed specification accepted as {obs['repr']} ({r.why})"}
    why = roundtrip(s, depth, obs)
    if why:
        return False, d | {"why": why}
    return True, d


def ev_settings_order(case, built=None):
    """every order of the same settings (and position of the colour) is the same specification."""
    depth = case["depth"]
    d = base_detail(case["fg"], case["bg"], depth) | {"first_fg": case["first_fg"]}
    st, s = built or build(case["fg"], case["bg"], depth)
    st1, s1 = build(case["first_fg"], case["bg"], depth)
    if st != "ok" or st1 != "ok":
        return False, d | {"why": f"not accepted: {st}: {s} / {st1}: {s1}"}
    if not (s == s1) or s != s1:
        return False, d | {"why": f"{s!r} != {s1!r} though they list the same colour and settings"}
    if hash(s) != hash(s1):
        return False, d | {"why": "equal specifications with different hashes"}
    return True, d


def ev_pair(case):
    """relation 'same': same declared depth, same reference normal form -> equal and same hash;
    'different': same depth, different normal form -> unequal; 'any': equal => same hash."""
    a, b = case["a"], case["b"]
    d = {"a": a, "b": b, "relation": case["relation"], "repro": f"AttrSpec(*{tuple(a)!r}) == AttrSpec(*{tuple(b)!r})"}
    (sta, sa), (stb, sb) = build(*a), build(*b)
    if sta != "ok" or stb != "ok":
        return False, d | {"why": f"valid specification not accepted -> {sta}: {sa} / {stb}: {sb}"}
    eq = sa == sb
    if eq != (not (sa != sb)) or eq != (sb == sa):
        return False, d | {"why": "== and != disagree or == is not symmetric"}
    if eq and hash(sa) != hash(sb):
        return False, d | {"why": "equal specifications with different hashes"}
    if case["relation"] == "same" and not eq:
        return False, d | {"why": f"same meaning but unequal: {sa!r} vs {sb!r}"}
    if case["relation"] == "different" and eq:
        return False, d | {"why": f"different meaning but equal: {sa!r} vs {sb!r}"}
    return True, d


def ev_nearest8(case):
    """strict reading of 'degrade to the nearest colour' for '#rrggbb' at 256/88: the entry reached has
    the per-component nearest cube value to the 8-bit components."""
    depth, v = case["depth"], case["v"]
    desc = "#%06x" % v
    d = base_detail(desc, desc, depth)
    st, s = build(desc, desc, depth)
    if st != "ok":
        return False, d | {"why": f"valid specification not accepted -> {st}: {s}"}
    pal = PAL88 if depth == 88 else PAL256
    want = ref.nearest_cube_8bit(pal, *rgb_of_true(v))
    for side in ("fg", "bg"):
        kind, n = kind_of(s, side)
        if kind != "high" or n not in want:
            got = pal.rgb[n] if kind == "high" and 0 <= n < pal.n else None
            return False, d | {"why": f"{side}: {desc} -> entry {n} {got}; the nearest cube entry is {sorted(want)} {[pal.rgb[w] for w in sorted(want)]}", "number": n}
    return True, d


def ev_exact(case):
    """exact palette values are preserved: the RGB value of cube entry n written '#rrggbb', and the
    value of gray entry n written 'g#XX', come back as an entry with exactly that RGB value; 'hN' is N."""
    depth, n, via = case["depth"], case["n"], case["via"]
    pal = PAL88 if depth == 88 else PAL256
    rgbv = pal.rgb[n]
    desc = {"hex6": "#%02x%02x%02x" % rgbv, "gray": "g#%02x" % rgbv[0], "h": "h%d" % n}[via]
    d = base_detail(desc, desc, depth) | {"n": n, "via": via}
    st, s = build(desc, desc, depth)
    if st != "ok":
        return False, d | {"why": f"valid specification not accepted -> {st}: {s}"}
    try:
        rgb = list(s.get_rgb_values())
    except Exception as e:  # noqa: BLE001
        return False, d | {"why": f"get_rgb_values raised {type(e).__name__}: {e}"}
    d["rgb"] = rgb
    if rgb != list(rgbv) * 2:
        return False, d | {"why": f"palette value {rgbv} written {desc} comes back as {rgb}"}
    if via != "hex6":
        for side in ("fg", "bg"):
            if kind_of(s, side) != ("high", n):
                return False, d | {"why": f"{side}: entry {n} written {desc} is stored as {kind_of(s, side)}"}
    return True, d


# --- the #000000..#ffffff sweep ---------------------------------------------------------------------
_Q = {}


def _qtables():
    """per byte value: the cube index of the quantised reading ('#rrggbb' -> '#rgb' -> nearest), from the reference."""
    if not _Q:
        for depth, pal in ((256, PAL256), (88, PAL88)):
            tab = []
            for byte in range(256):
                idx = pal.nearest_cube_component((byte >> 4) * 17)
                tab.append(tuple(sorted(idx)))
            _Q[depth] = tab
    return _Q


def sweep_one(v, memo=None, which=("true", "256", "88")):
    """sub-results for the value v: at 2^24 (exact, round trip), at 256 and at 88 (quantised nearest,
    RGB of that entry, round trip).  Returns {name: (ok, detail-or-None)}."""
    q = _qtables()
    desc = "#%06x" % v
    r, g, b = (v >> 16) & 255, (v >> 8) & 255, v & 255
    out = {}
    if "true" in which:
        out["true"] = _sweep_true(v, desc, r, g, b)
    # degraded
    for depth, pal in ((256, PAL256), (88, PAL88)):
        if str(depth) not in which:
            continue
        st, s = build(desc, desc, depth)
        why = None
        if st != "ok":
            why = f"valid specification not accepted -> {st}: {s}"
        else:
            try:
                tab = q[depth]
                want = {pal.cube_number(i, j, k) for i in tab[r] for j in tab[g] for k in tab[b]}
                fn, bn = s.foreground_number, s.background_number
                if not (s.foreground_high and s.background_high) or s.foreground_basic or s.foreground_true or s.background_basic or s.background_true:
                    why = "not stored as a palette colour on both sides"
                elif fn not in want or bn not in want:
                    why = f"stored entries {fn}/{bn}; nearest cube entry to the quantised value is {sorted(want)}"
                elif s.colors != depth:
                    why = f"reports {s.colors} colours"
                elif s.get_rgb_values() != pal.rgb[fn] + pal.rgb[bn]:
                    why = f"get_rgb_values {s.get_rgb_values()} but the entries are {pal.rgb[fn]} {pal.rgb[bn]}"
                else:
                    # the rebuilt specification (and its descriptions) is memoised per description pair:
                    # only 216 / 64 distinct descriptions exist at these depths
                    fgd, bgd = s.foreground, s.background
                    key = (depth, fgd, bgd)
                    m = memo.get(key) if memo is not None else None
                    if m is None:
                        s2 = AttrSpec(fgd, bgd, depth)
                        m = (s2, s2.foreground, s2.background)
                        if memo is not None:
                            memo[key] = m
                    s2 = m[0]
                    if not (s2 == s) or s2 != s or hash(s2) != hash(s) or m[1] != fgd or m[2] != bgd:
                        why = f"reported descriptions {fgd!r}/{bgd!r} do not rebuild an equal specification"
            except Exception as e:  # noqa: BLE001
                why = f"raised {type(e).__name__}: {e}"
        out[str(depth)] = (why is None, None if why is None else base_detail(desc, desc, depth) | {"v": v, "why": why})
    return out


def _sweep_true(v, desc, r, g, b):
    st, s = build(desc, desc, TRUE)
    why = None
    if st != "ok":
        why = f"valid specification not accepted -> {st}: {s}"
    else:
        try:
            if not (s.foreground_true and s.background_true) or s.foreground_basic or s.foreground_high or s.background_basic or s.background_high:
                why = "not stored as a true colour on both sides"
            elif s.foreground_number != v or s.background_number != v:
                why = f"stored {s.foreground_number:#x}/{s.background_number:#x}"
            elif s.colors != TRUE:
                why = f"reports {s.colors} colours"
            elif s.get_rgb_values() != (r, g, b, r, g, b):
                why = f"get_rgb_values {s.get_rgb_values()}"
            else:
                fgd, bgd = s.foreground, s.background
                s2 = AttrSpec(fgd, bgd, TRUE)
                if not (s2 == s) or s2 != s or hash(s2) != hash(s) or s2.foreground != fgd or s2.background != bgd:
                    why = f"reported descriptions {fgd!r}/{bgd!r} do not rebuild an equal specification"
        except Exception as e:  # noqa: BLE001
            why = f"raised {type(e).__name__}: {e}"
    return (why is None, None if why is None else base_detail(desc, desc, TRUE) | {"v": v, "why": why})


def _sample_value(block, salt, size=256):
    """one value out of the `size` consecutive values of block `block` (the offset is a mix of the block
    number and the seed, so every byte varies over the sample)."""
    return block * size + ((block * 0x9E3779B1 + salt * 0x85EBCA6B + (block >> 8) * 0xC2B2AE35) >> 7) % size


def _sweep_worker(args):
    """args = (lo, hi, size, salt, which): size 1 -> every value lo..hi-1; otherwise one value from each
    block lo..hi-1 of `size` consecutive values.  `which`: the depths evaluated ('true', '256', '88')."""
    lo, hi, size, salt, which = args
    memo = {}
    res = {k: {"n": 0, "fail": [], "nfail": 0} for k in which}
    for x in range(lo, hi):
        v = x if size == 1 else _sample_value(x, salt, size)
        for k, (ok, det) in sweep_one(v, memo, which).items():
            a = res[k]
            a["n"] += 1
            if not ok:
                a["nfail"] += 1
                if len(a["fail"]) < 5:
                    a["fail"].append(det)
    return res


def sweep_plan(tier):
    """(chunks, {depth key: (exhaustive, bound text)}, processes)"""
    allk = ("true", "256", "88")
    if tier == "quick":
        txt = "one value from each of the 65536 blocks of 256 consecutive values of #000000..#ffffff (1/256 sample, seeded)"
        return [(lo, lo + 8192, 256, None, allk) for lo in range(0, 65536, 8192)], {k: (False, txt) for k in allk}, 1
    full = "all 16 777 216 values #000000..#ffffff (16 processes)"
    if tier == "exhaustive":  # ~1300 CPU-seconds: about 2.5 min on 16 idle cores
        return [(lo, lo + 65536, 1, None, allk) for lo in range(0, 2**24, 65536)], {k: (True, full) for k in allk}, 16
    # thorough: ~450 CPU-seconds.  The exhaustive sweep at all three depths was measured at 1330 CPU-s (856 s
    # wall on a machine shared with 13 other jobs, i.e. over the 10-minute budget there), so the two
    # degraded depths take a stated 1/16 sample; tier="exhaustive" runs everything.
    txt = "one value from each of the 1 048 576 blocks of 16 consecutive values of #000000..#ffffff (1/16 sample, seeded; 16 processes)"
    chunks = [(lo, lo + 65536, 1, None, ("true",)) for lo in range(0, 2**24, 65536)]
    chunks += [(lo, lo + 16384, 16, None, ("256", "88")) for lo in range(0, 2**20, 16384)]
    return chunks, {"true": (True, full), "256": (False, txt), "88": (False, txt)}, 16


class CountCheck(Check):
    """Check whose cases were evaluated in worker processes: only counts and the first failures come back."""

    def __init__(self, *a, **k):
        super().__init__(*a, **k)
        self.distinct = 0
        self.nfail = 0

    def bulk(self, n, failures, nfail):
        self.evaluations += n
        self.distinct += n
        self.nfail += nfail
        for f in failures:
            if len(self.failures) < 20:
                self.failures.append(f)

    def result(self):
        r = super().result()
        r["distinct_nontrivial"] = self.distinct
        r["failing_cases"] = self.nfail
        if hasattr(self, "wall"):
            r["wall_s"] = self.wall
        return r


# ---------------------------------------------------------------------------------------------------
# domains
def finite_descriptors():
    out = ["default", ""] + list(ref.BASIC_NAMES)
    out += ["h%d" % i for i in range(256)]
    out += ["#%03x" % i for i in range(4096)]
    out += ["g%d" % i for i in range(101)]
    out += ["g#%02x" % i for i in range(256)]
    return out


def settings_foregrounds(quick):
    """(canonical key, fg string) for every subset and order of the six settings, with no colour or a
    colour inside the list (thorough: five colours at every position; quick: two colours, every position
    for <= 2 settings, first position otherwise and also last for all six)."""
    cols = [None, "yellow", "#f80"] if quick else [None, "default", "yellow", "#f80", "#ff8800", "g#80"]
    idx = 0
    for k in range(7):
        for perm in itertools.permutations(ref.SETTINGS, k):
            for col in cols:
                if col is None:
                    positions = [None]
                elif not quick or k <= 2:
                    positions = range(k + 1)
                else:
                    positions = (0, 6) if k == 6 else (0,)
                for p in positions:
                    parts = list(perm)
                    if p is not None:
                        parts.insert(p, col)
                    idx += 1
                    joiner = (",", ", ", " ,")[idx % 3]
                    yield (frozenset(perm), col), joiner.join(parts)


REJECT_WORDS = [
    "red", "blue", "green", "grey", "gray", "orange", "purple", "none", "Black", "WHITE", "Yellow", "dark  red", "darkred", "dark_red",
    "light grey", "dark grey", "bright red", "light black", "yello", "yelloww", "defaul", "Default", "defaults", "bolder", "Bold", "underlined",
    "italic", "blinking", "strike", "h256", "h999", "h-1", "g101", "g999", "g-1", "g#100", "g#1ff", "g#gg", "g#", "g", "h", "#", "##", "x", "hh",
    "hx", "gx", "#ff", "#ffff", "#fffff", "#fffffff", "#ggg", "#gggggg", "#12345g", "#g12345", "#1234g5", "#-1-1-1", "#-12345", "#1z3z5z",
    "ff0000", "fff", "0", "16", "rgb(1,2,3)", "\x00", "h\x00", "é", "#ééé",
]


def reject_cases():
    for w in REJECT_WORDS:
        for depth in DEPTHS:
            if "," not in w:
                yield {"fg": w, "bg": "default", "depth": depth, "reason": "unknown colour name / malformed descriptor in the foreground"}
                yield {"fg": "bold," + w, "bg": "default", "depth": depth, "reason": "unknown colour name / malformed descriptor in the foreground"}
            yield {"fg": "default", "bg": w, "depth": depth, "reason": "unknown colour name / malformed descriptor in the background"}
    for depth in DEPTHS:
        for s_ in ref.SETTINGS:
            for fg in (f"{s_},{s_}", f"{s_}, {s_}", f"yellow,{s_},{s_}", f"{s_},yellow,{s_}", f"{s_},bold,underline,{s_}", f"{s_},{s_},{s_}"):
                if fg.count("bold") <= 2 or s_ != "bold":
                    yield {"fg": fg, "bg": "default", "depth": depth, "reason": "setting given twice"}
            yield {"fg": "default", "bg": s_, "depth": depth, "reason": "setting in the background"}
            yield {"fg": "default", "bg": "black," + s_, "depth": depth, "reason": "setting in the background"}
        cols = ["default", "black", "yellow", "white", "h1", "#fff", "#ffffff", "g50", "g#80"]
        for a in cols:
            for b in cols:
                for fg in (f"{a},{b}", f"{a}, {b}", f"{a},bold,{b}", f"bold,{a},{b}"):
                    yield {"fg": fg, "bg": "default", "depth": depth, "reason": "several colours in one foreground"}
                yield {"fg": "default", "bg": f"{a},{b}", "depth": depth, "reason": "several colours in the background"}
    for depth in (0, 2, 8, 15, 17, 87, 89, 255, 257, 2**24 - 1, 2**24 + 1, -1, -256, 2**32):
        for fg, bg in (("default", "default"), ("yellow", "black"), ("#fff", "g50"), ("bold", "")):
            yield {"fg": fg, "bg": bg, "depth": depth, "reason": "invalid number of colours"}


ALPHABET = "0123456789abcdefgGhH#xzX-+_ ,.\t٣１²\x00\n\r"
SEEDS = [
    "h0", "h12", "h255", "h87", "#abc", "#000", "#fff", "#a1b2c3", "#000000", "#ffffff", "g0", "g50", "g100", "g#00", "g#7f", "g#ff", "yellow",
    "default", "black", "dark red", "bold", "yellow,bold", "bold,#abc", "g50,blink", "", "#ABCDEF", "#AbC",
]


def mutate(r, s):
    n = r.randint(1, 3)
    for _ in range(n):
        op = r.randrange(6)
        p = r.randrange(len(s) + 1)
        c = ALPHABET[r.randrange(len(ALPHABET))]
        if op == 0:
            s = s[:p] + c + s[p:]
        elif op == 1 and s:
            p = min(p, len(s) - 1)
            s = s[:p] + c + s[p + 1 :]
        elif op == 2 and s:
            p = min(p, len(s) - 1)
            s = s[:p] + s[p + 1 :]
        elif op == 3 and s:
            p = min(p, len(s) - 1)
            s = s[: p + 1] + s[p] + s[p + 1 :]
        elif op == 4 and len(s) > 1:
            p = min(p, len(s) - 2)
            s = s[:p] + s[p + 1] + s[p] + s[p + 2 :]
        else:
            s = s[:p]
    return s


def short_strings():
    """exhaustive: prefix + every body of length <= 3 over a 12-character alphabet (digits that matter,
    a hex letter, a non-hex letter, and the characters int() is lenient about)."""
    alpha = "019afgz-+_ #"
    for prefix in ("h", "g", "g#", "#"):
        for k in range(0, 4):
            for body in itertools.product(alpha, repeat=k):
                yield prefix + "".join(body)


# one junk character inside an otherwise well-formed name: characters Python's int() is lenient about (blanks of
# every kind, signs, '_', non-ASCII decimal digits), characters a careless "is it hex?" test lets through (letters
# past f, 'x', other alphanumerics, fullwidth / mathematical digits and letters), line ends (a regex '$' holds
# before a trailing "\n"; str.splitlines / str.strip know more of them), separators of the specification itself.
JUNK = [
    "\n", "\r", " ", "\t", "\x0b", "\x0c", "\x1c", "\x1d", "\x1e", "\x1f", "\x85", "\xa0", "\u2028", "\u2029", "\u3000", "\x00",
    "+", "-", "_", ".", ",", "#", "x", "X", "g", "G", "h", "z", "o", "b", "l", "O",
    "٣", "３", "²", "\U0001d7d1", "ａ", "Ｆ", "é", "ß", "\u0660", "\u00bd",
]
JUNK_FORMS = (
    # prefix, body alphabets (each cut to the body length), body lengths: every accepted length and one less / more
    ("#", ("0123456", "fffffff", "AbCdEf0", "a5c0e9b"), (2, 3, 4, 5, 6, 7)),
    ("h", ("1234", "0000", "2559"), (1, 2, 3, 4)),
    ("g", ("1000", "5050", "0999"), (1, 2, 3, 4)),
    ("g#", ("7f00", "FFff", "0a1B"), (1, 2, 3)),
)


def junk_names():
    """(form prefix, name): every name of JUNK_FORMS with ONE character of the body replaced by a junk character,
    at EVERY position of the body (so the junk is first, inner and last), for every body length."""
    seen = set()
    for prefix, bodies, lengths in JUNK_FORMS:
        for n in lengths:
            for body in bodies:
                for pos in range(n):
                    for j in JUNK:
                        if prefix in ("#", "g#") and j in "b" or j in body[:n]:
                            continue  # not junk there ('b' is a hex digit)
                        name = prefix + body[:pos] + j + body[pos + 1 : n]
                        if name not in seen:
                            seen.add(name)
                            yield prefix, name


def junk_cases(depths):
    """the junk names as foreground (alone, after and before a setting), as background, and on both sides."""
    for prefix, name in junk_names():
        for depth in depths:
            for fg, bg in ((name, "default"), ("default", name), ("bold," + name, "default"), (name + ",underline", "black"), (name, name), ("yellow", name)):
                yield prefix, name, {"fg": fg, "bg": bg, "depth": depth}


# ---------------------------------------------------------------------------------------------------
def run(tier="quick", seed=0):
    quick = tier == "quick"
    t_start = time.time()
    r_ = rng(seed)
    salt = int(seed)
    # the #000000..#ffffff sweep runs in worker processes while this process does the other checks
    chunks, sweep_bounds, nproc = sweep_plan(tier)
    chunks = [(lo, hi, size, salt, which) for lo, hi, size, _, which in chunks]
    pool_ = pending = None
    if nproc > 1:
        pool_ = multiprocessing.get_context("fork").Pool(nproc)
        pending = pool_.map_async(_sweep_worker, chunks, chunksize=1)
    try:
        return _run(tier, seed, quick, t_start, r_, salt, chunks, sweep_bounds, pool_, pending)
    except BaseException:
        if pool_ is not None:
            pool_.terminate()
        raise


def _run(tier, seed, quick, t_start, r_, salt, chunks, sweep_bounds, pool_, pending):
    domain = "all basic names, default, '', h0..h255, #000..#fff, g0..g100, g#00..g#ff; depths 1/16/88/256/2^24; as foreground and as background"

    rt = KCheck("C18/round-trip", "every valid finite descriptor x depth x side: accepted; foreground/background/colors/get_rgb_values/hash/repr work; AttrSpec(s.foreground, s.background, depth) == s with equal hash; describing is idempotent; colors <= depth", True, domain)
    mean = KCheck("C18/nearest-and-exact", "same domain: stored kind and number against the reference (hN is N; #rgb, gN, g#XX are the nearest palette entry, ties either way; at 2^24 the RGB of that 256 entry) and get_rgb_values is that entry's value in the library palette", True, domain)
    dep = KCheck("C18/depth-smallest", "same domain: colors is 1 for default only, 16 with a basic name, 256 / 2^24 with a palette / true colour, 88 when declared 88 (DESIGN reading)", True, domain)
    rej = KCheck("C18/rejected-with-library-error", "unknown names, malformed descriptors, duplicated settings, several colours, settings in the background, colours beyond the declared depth, invalid depth: AttrSpecError and nothing else, and not accepted", True, "hand-written word list x 5 depths x fg/bg; every valid finite descriptor / mixed pair / settings list at every depth that cannot hold it; 14 invalid depths")
    descs = finite_descriptors()
    for depth in DEPTHS:
        for desc in descs:
            for side in ("fg", "bg"):
                fg, bg = (desc, "default") if side == "fg" else ("default", desc)
                case = {"fg": fg, "bg": bg, "depth": depth}
                r = refspec(fg, bg, depth)
                key = (fg, bg, depth)
                if r.status == "invalid":
                    ok, det = ev_reject(case | {"reason": r.why})
                    rej.case(key, ok, det, sample=case)
                    continue
                assert r.status == "ok", (case, r.status)
                built = build(fg, bg, depth)
                nt = desc not in ("default", "")
                ok, det = ev_roundtrip(case, built)
                rt.case(key, ok, det, nontrivial=nt, sample=case)
                ok, det = ev_meaning(case, built)
                mean.case(key, ok, det, nontrivial=nt, sample=case)
                ok, det = ev_depth(case, built)
                dep.case(key, ok, det, sample=case)
    for c in (rt, mean, dep):
        c.stop()
    for case in reject_cases():
        r = refspec(case["fg"], case["bg"], case["depth"])
        assert r.status == "invalid", (case, r.status, r.why)  # the hand-written list and the reference agree
        ok, det = ev_reject(case)
        rej.case((case["fg"], case["bg"], case["depth"]), ok, det, sample=case)

    # mixed sides: every kind on one side with every kind on the other
    reps = ["default", "black", "dark red", "light gray", "dark gray", "white", "h0", "h1", "h15", "h16", "h87", "#000", "#f80", "#fff", "g0", "g50", "g100", "g#80", "#123456", "#ffffff"]
    mixed = KCheck("C18/mixed-sides", "foreground kind x background kind (default, basic, palette/true by each descriptor form) x settings at every depth that admits both: round trip, meaning, smallest depth, and RGB against xterm's tables", True, f"{len(reps)} x {len(reps)} representative descriptors, with and without 'bold,underline', every depth that admits the pair").start()
    for depth in DEPTHS:
        for a in reps:
            for b in reps:
                for extra in ("", ",bold,underline"):
                    fg = a + extra
                    case = {"fg": fg, "bg": b, "depth": depth}
                    r = refspec(fg, b, depth)
                    if r.status == "invalid":
                        ok, det = ev_reject(case | {"reason": r.why})
                        rej.case((fg, b, depth), ok, det, sample=case)
                        continue
                    built = build(fg, b, depth)
                    xcase = _with_short(case, r)
                    for name, ev, c in (("round-trip", ev_roundtrip, case), ("meaning", ev_meaning, case), ("depth", ev_depth, case), ("xterm", ev_xterm, xcase)):
                        ok, det = ev(c, built)
                        if not ok:
                            det = det | {"clause": name}
                            break
                    mixed.case((fg, b, depth), ok, det, sample=case)
    mixed.stop()

    # RGB against xterm's tables
    xt = KCheck("C18/rgb-matches-xterm-tables", "get_rgb_values of every palette number (h0..h255 at 256 and 2^24, h0..h87 at 88) and every basic name against tables generated from xterm's formulas (256colres.pl, 88colres.pl, XTerm-col.ad)", True, "all palette numbers x fg/bg at 88/256/2^24; names at depths 16/88/256/2^24").start()
    for depth in (16, 88, 256, TRUE):
        names = list(ref.BASIC_NAMES)
        hs = [] if depth == 16 else ["h%d" % i for i in range(88 if depth == 88 else 256)]
        for desc in names + hs:
            for side in ("fg", "bg"):
                fg, bg = (desc, "default") if side == "fg" else ("default", desc)
                case = {"fg": fg, "bg": bg, "depth": depth}
                ok, det = ev_xterm(_with_short(case, None))
                xt.case((fg, bg, depth), ok, det, sample=case)
    xt.stop()

    # exact palette values preserved
    ex = KCheck("C18/exact-palette-values-preserved", "each cube entry's RGB written '#rrggbb', each gray entry's value written 'g#XX', each number written 'hN': comes back with exactly that RGB (and that number for g#/h)", True, "all 256 entries at 256, all 88 at 88, foreground and background together").start()
    for depth, pal in ((256, PAL256), (88, PAL88)):
        for n in range(pal.n):
            vias = ["h"] + (["hex6"] if 16 <= n < pal.gray_start else []) + (["gray"] if n >= pal.gray_start or n in (pal.cube_black, pal.cube_white) else [])
            for via in vias:
                case = {"depth": depth, "n": n, "via": via}
                ok, det = ev_exact(case)
                ex.case((depth, n, via), ok, det | {"case": case}, sample=case)
    ex.stop()

    # settings
    sett = KCheck("C18/settings-subsets-and-orders", "every subset and order of the six settings, colour absent or inside the list, three comma styles: accepted iff the colour fits the depth; flags are exactly the listed settings; round trip; every order of the same list is the same specification with the same hash", True, ("colour (yellow, #f80) at every position for <= 2 settings, first (and last for all six) otherwise" if quick else "colour (default, yellow, #f80, #ff8800, g#80) at every position") + "; 5 depths").start()
    for depth in DEPTHS:
        first = {}
        for key, fg in settings_foregrounds(quick):
            case = {"fg": fg, "bg": "default", "depth": depth}
            r = refspec(fg, "default", depth)
            if r.status == "invalid":
                ok, det = ev_reject(case | {"reason": r.why})
                rej.case((fg, "default", depth), ok, det, sample=case)
                continue
            assert r.status == "ok", (case, r.status, r.why)
            built = build(fg, "default", depth)
            ok, det = ev_roundtrip(case, built)
            if ok:
                ok, det = ev_meaning(case, built)
            if ok:
                listed = built[1].foreground.split(",")[1:]
                if sorted(listed) != sorted(key[0]):
                    ok, det = False, det | {"why": f"foreground lists {listed}, given {sorted(key[0])}"}
            if ok:
                k2 = (key[0], None if key[1] in (None, "default") else key[1])
                if k2 in first:
                    ok, det = ev_settings_order(case | {"first_fg": first[k2]}, built)
                else:
                    first[k2] = fg
            sett.case((fg, depth), ok, det, nontrivial=bool(key[0]), sample=case)
    sett.stop()
    rej.stop()

    # equality / hash over representatives
    eqc = KCheck("C18/equal-implies-equal-hash", "pairs of specifications: same depth and same reference meaning -> == and equal hash; same depth, different meaning -> !=; any pair (also across depths): == implies equal hash, == symmetric and the negation of !=", True, "", count_only=True).start()
    pool = []
    pdesc = ["default", "", "black", "white", "yellow", "h0", "h7", "h15", "h16", "h231", "h232", "h255", "h79", "h80", "h87", "#000", "#fff", "#008", "#006", "#f00", "#800", "g0", "g3", "g50", "g100", "g#00", "g#08", "g#80", "g#ff", "#000000", "#ffffff", "#5f87af", "#000001", "#010000"]
    psett = ["", ",bold", ",underline,bold", ",bold,underline", ",standout", ",italics,blink,strikethrough"]
    for depth in DEPTHS:
        for a in pdesc:
            for b in pdesc:
                for e in psett:
                    # ('h0' at 88 is left to the round-trip check: its description raises today, and this
                    # check's failure messages print the specifications)
                    if not (depth == 88 and "h0" in (a, b)) and refspec(a + e, b, depth).status == "ok":
                        pool.append((a + e, b, depth))
    r_.shuffle(pool)
    pool = pool[: (1000 if quick else 4000)]

    def nf(t):
        r = refspec(*t)
        if len(r.fg.numbers) != 1 or len(r.bg.numbers) != 1:
            return None
        return (t[2], r.fg.kind, min(r.fg.numbers), r.bg.kind, min(r.bg.numbers), r.settings)

    nfs = [nf(t) for t in pool]
    for i in range(len(pool)):
        a = pool[i]
        for j in range(i, len(pool)):
            b = pool[j]
            rel = "any"
            if a[2] == b[2] and nfs[i] is not None and nfs[j] is not None:
                rel = "same" if nfs[i] == nfs[j] else "different"
            ok, det = _fast_pair(a, b, rel)
            eqc.case(None, ok, det, nontrivial=rel != "different", sample={"a": list(a), "b": list(b), "relation": rel})
    eqc.bound = f"{len(pool)} specifications drawn (seeded) from {len(pdesc)}x{len(pdesc)} descriptors x {len(psett)} setting lists x 5 depths; all pairs"
    eqc.stop()

    # malformed strings
    mal = KCheck("C18/malformed-strings", "arbitrary strings as foreground and as background at every depth: accepted or AttrSpecError, never another exception at construction or from foreground/background/colors/get_rgb_values/hash/repr; must-accept / must-reject follow the reference grammar (int()-leniency: either); whatever is accepted round-trips", False, "").start()
    nshort = 0
    for s_ in short_strings():
        nshort += 1
        for depth in (88, 256, TRUE) if quick else DEPTHS:
            for fg, bg in ((s_, "default"), ("default", s_)):
                case = {"fg": fg, "bg": bg, "depth": depth}
                ok, det = ev_malformed(case)
                mal.case((fg, bg, depth), ok, det, sample=case)
    nmut = 6000 if quick else 120000
    for _ in range(nmut):
        s_ = mutate(r_, SEEDS[r_.randrange(len(SEEDS))])
        if r_.random() < 0.25:
            s_ = s_ + "," + mutate(r_, SEEDS[r_.randrange(len(SEEDS))])
        depth = DEPTHS[r_.randrange(5)]
        for fg, bg in ((s_, "default"), ("default", s_), (s_, s_)):
            case = {"fg": fg, "bg": bg, "depth": depth}
            ok, det = ev_malformed(case)
            mal.case((fg, bg, depth), ok, det, sample=case)
    mal.bound = f"exhaustive: h/g/g#/# + every body of length <= 3 over 12 characters ({nshort} strings) x {'3 colour' if quick else '5'} depths x fg/bg; plus {nmut} seeded mutations (1-3 edits over a {len(ALPHABET)}-character alphabet) of {len(SEEDS)} valid specifications x fg/bg/both at a random depth"
    mal.stop()

    # one junk character in a well-formed name
    junk = KCheck("C18/junk-character-in-a-name", "'#rgb' / '#rrggbb' / 'hN' / 'gN' / 'g#XX' names (and the same one character shorter / longer) with ONE character replaced by a character that is not a digit of the form, at every position, as foreground (alone, next to a setting), as background and on both sides: a '#' name is an unknown colour name -> AttrSpecError and nothing else, never accepted; h/g/g# text: by the reference grammar (int()-leniency: accepted or AttrSpecError), never another exception, whatever is accepted round-trips", True, "").start()
    strict = KCheck("C18/number-text-strict", "observation (strict reading): 'hN' / 'gN' / 'g#XX' text that only int()'s leniency reads as a number (blanks, signs, '_', non-ASCII digits inside or after the number) is an unknown colour name -> AttrSpecError", True, "the names of C18/junk-character-in-a-name the reference classes as lenient").start()
    jdepths = (88, 256, TRUE) if quick else DEPTHS
    nj = 0
    for prefix, name, case in junk_cases(jdepths):
        nj += 1
        r = refspec(case["fg"], case["bg"], case["depth"])
        if prefix == "#" and case["bg"] == name and not ref.parse_colour(name.strip(), 256, PAL256, PAL88).status == "ok":
            # oracle self-check: a damaged '#' name in the background is never "either way" (only a blank at the very
            # end / start of an otherwise complete name falls under the undocumented blanks-around-the-background case)
            assert r.status == "invalid", (case, r.status, r.why)
        ok, det = ev_malformed(case)
        junk.case((case["fg"], case["bg"], case["depth"]), ok, det, nontrivial=r.status == "invalid", sample=case)
        if r.status == "lenient" and prefix != "#":
            ok, det = ev_reject(case | {"reason": "text that only int()'s leniency reads as a number"})
            strict.case((case["fg"], case["bg"], case["depth"]), ok, det, sample=case)
    junk.bound = f"{len(JUNK)} junk characters x every position x bodies of {', '.join(f'{p!r}: lengths {list(ls)} x {len(b)} digit strings' for p, b, ls in JUNK_FORMS)} x 6 placements (fg, bg, after / before a setting, both sides, next to a basic colour) x depths {list(jdepths)}: {nj} specifications"
    junk.stop()
    strict.stop()

    # strict nearest for 6-digit colours
    n8 = KCheck("C18/degrade-nearest-8bit", "strict reading of 'degrade to the nearest colour': '#rrggbb' at 256 / 88 reaches the cube entry whose components are nearest to the 8-bit components (ties either way)", True, "each component over all 256 values with the other two at 00 / 80 / ff, and the gray diagonal; depths 256 and 88").start()
    for depth in (256, 88):
        seen = set()
        for byte in range(256):
            for other in (0x00, 0x80, 0xFF):
                for v in ((byte << 16) | (other << 8) | other, (other << 16) | (byte << 8) | other, (other << 16) | (other << 8) | byte, byte * 0x010101):
                    if v in seen:
                        continue
                    seen.add(v)
                    case = {"depth": depth, "v": v}
                    ok, det = ev_nearest8(case)
                    n8.case((depth, v), ok, det | {"case": case}, sample=case)
    n8.stop()

    # the 2^24 sweep: collect
    sw = {
        "true": CountCheck("C18/true-colour-round-trip", "'#rrggbb' as foreground and background at 2^24: stored exactly, colors = 2^24, get_rgb_values = (r,g,b), descriptions rebuild an equal specification with equal hash", *sweep_bounds["true"]),
        "256": CountCheck("C18/true-colour-degrade-256", "'#rrggbb' at 256: both sides stored as the cube entry nearest to the quantised value ('#rrggbb' -> '#rgb'), get_rgb_values is that entry, colors = 256, round trip", *sweep_bounds["256"]),
        "88": CountCheck("C18/true-colour-degrade-88", "'#rrggbb' at 88: same, 88-colour cube", *sweep_bounds["88"]),
    }
    t_sw = t_start if pending is not None else time.time()
    if pending is not None:
        try:
            parts = pending.get()
        finally:
            pool_.close()
            pool_.join()
    else:
        parts = [_sweep_worker(c) for c in chunks]
    for part in parts:
        for k, a_ in part.items():
            sw[k].bulk(a_["n"], a_["fail"], a_["nfail"])
    for k in sw:
        sw[k].wall = round(time.time() - t_sw, 2)
        first = [c for c in chunks if k in c[4]][0]
        sw[k].samples = [{"fg": "#%06x" % (x if first[2] == 1 else _sample_value(x, salt, first[2])), "depth": k} for x in (0, 1, 2)]
    bound = "; ".join(f"#rrggbb at {k}: {sweep_bounds[k][1]}" for k in sw)

    checks = [rt, mean, dep, mixed, xt, ex, sett, eqc, rej, mal, junk, strict, n8, sw["true"], sw["256"], sw["88"]]
    return {
        "checks": [c.result() for c in checks],
        "bound": f"finite descriptor domain exhaustive at 5 depths x fg/bg; settings: all subsets and orders; {bound}; malformed: {mal.bound}; wall {time.time() - t_start:.1f}s",
    }


def _with_short(case, r):
    """for short forms at 2^24 the xterm check needs the 256-palette numbers they name."""
    if case["depth"] != TRUE:
        return case
    out = dict(case)
    fgcol = [p.strip() for p in case["fg"].split(",") if p.strip() not in ref.SETTINGS]
    for side, desc in (("fg", fgcol[0] if fgcol else ""), ("bg", case["bg"])):
        c = ref.parse_colour(desc, 256, PAL256, PAL88)
        if c.kind == "high" and not (desc.startswith("#") and len(desc) == 7):
            out[side + "_short256"] = sorted(c.numbers)
    return out


_SPEC_CACHE = {}


def _fast_pair(a, b, rel):
    """ev_pair with the constructed specifications cached (4.5 M pairs in thorough)."""
    sa = _SPEC_CACHE.get(a) or _SPEC_CACHE.setdefault(a, build(*a)[1])
    sb = _SPEC_CACHE.get(b) or _SPEC_CACHE.setdefault(b, build(*b)[1])
    if not isinstance(sa, AttrSpec) or not isinstance(sb, AttrSpec):
        return ev_pair({"a": list(a), "b": list(b), "relation": rel})
    eq = sa == sb
    if eq == (sa != sb) or eq != (sb == sa) or (eq and hash(sa) != hash(sb)) or (rel == "same" and not eq) or (rel == "different" and eq):
        return ev_pair({"a": list(a), "b": list(b), "relation": rel})
    return True, None


EVALUATORS = {
    "C18/round-trip": ev_roundtrip,
    "C18/nearest-and-exact": ev_meaning,
    "C18/depth-smallest": ev_depth,
    "C18/rgb-matches-xterm-tables": lambda c: ev_xterm(_with_short(c, None)),
    "C18/rejected-with-library-error": ev_reject,
    "C18/malformed-strings": ev_malformed,
    "C18/junk-character-in-a-name": ev_malformed,
    "C18/number-text-strict": ev_reject,
    "C18/equal-implies-equal-hash": ev_pair,
    "C18/degrade-nearest-8bit": lambda c: ev_nearest8(c.get("case", c)),
    "C18/exact-palette-values-preserved": lambda c: ev_exact(c.get("case", c)),
}


def replay(check_name, case):
    if check_name in ("C18/true-colour-round-trip", "C18/true-colour-degrade-256", "C18/true-colour-degrade-88"):
        k = {"C18/true-colour-round-trip": "true", "C18/true-colour-degrade-256": "256", "C18/true-colour-degrade-88": "88"}[check_name]
        ok, det = sweep_one(case["v"] if "v" in case else int(case["fg"][1:], 16))[k]
    elif check_name == "C18/mixed-sides":
        c = {"fg": case["fg"], "bg": case["bg"], "depth": case["depth"]}
        ok, det = True, {}
        for ev in (ev_roundtrip, ev_meaning, ev_depth, lambda x: ev_xterm(_with_short(x, None))):
            ok, det = ev(c)
            if not ok:
                break
    elif check_name == "C18/settings-subsets-and-orders":
        c = {"fg": case["fg"], "bg": case["bg"], "depth": case["depth"]}
        ok, det = ev_roundtrip(c)
        if ok:
            ok, det = ev_meaning(c)
        if ok and "first_fg" in case:
            ok, det = ev_settings_order(c | {"first_fg": case["first_fg"]})
    else:
        ok, det = EVALUATORS[check_name](case)
    return {"outcome": "not-reproduced" if ok else "confirmed", "detail": det}


# Reading decided by the framework owner (DESIGN.md §6 C18): the statement's "nearest entry" clause is about
# colour-cube (#rgb) and gray (gN, g#xx) values; a 24-bit #rrggbb given below true-colour depth is first
# reduced to its #rgb form (high nibbles) by design and then mapped to the nearest entry. The strict
# reading (nearest entry to the full 24-bit value) is kept as an observation, not a violation.
# The second entry: the recorded reading (docstring above, DESIGN.md C18) leaves 'h+5' / 'h 5' / 'g#-0' / 'h١' / 'h5\n'
# open ("neither demanded nor forbidden"); the strict reading is reported as an observation until the owner rules on
# it the way he ruled on '#' names (known finding 8aac5af).
INFORMATIONAL = {
    "C18/number-text-strict": "hN / gN / g#XX text that only int()'s leniency reads as a number: recorded reading is 'either accepted or AttrSpecError' (checked in C18/junk-character-in-a-name and C18/malformed-strings); the strict reading is an observation",
    "C18/degrade-nearest-8bit": "strict nearest-entry for #rrggbb below true colour is not demanded by the statement (quantised reading passes on all 16.7 M values)",
}
