"""C13 bounded stand-in: event loops under scripted schedules.

Primary: the real urwid.SelectEventLoop driven under a *virtual clock*: inside this process (never in
/repo) the names `time` and `selectors` of urwid.event_loop.select_loop are rebound to a scripted clock
and a scripted selector, so waits are instantaneous, readiness is scripted, and every wait of the loop
(timeout, descriptors handed over, descriptors reported) is observed.  Scripts: <= 3 alarms (equal and
different due times), <= 2 descriptors, <= 2 idle callbacks; alarm / remove_alarm / watch_file /
remove_watch_file / enter_idle / remove_enter_idle performed before run() and from within callbacks;
ExitMainLoop and other exceptions raised from any callback.  The oracle is spec/evloop_model.judge
(an acceptor over the recorded trace, written from the statement).

Secondary: the same script language (a) against urwid.ZMQEventLoop under the same virtual clock (its
zmq.Poller replaced by a scripted one that keeps pyzmq's integer-millisecond timeout), (b) "vtime"
boards: SelectEventLoop, AsyncioEventLoop, TornadoEventLoop, TwistedEventLoop (a fresh SelectReactor
per script), TrioEventLoop and ZMQEventLoop with their REAL third-party scheduler and real os.pipe
descriptors, one forked child per script, but on a *virtual clock*: in the child only, the clock each
library reads (loop.time, IOLoop.time, reactor.seconds, a trio.abc.Clock, the module's `time`) is a
counter, and the library's blocking primitive is replaced by "poll the real descriptors without
blocking; if nothing is readable the wait lasts exactly its timeout on the counter".  Nothing sleeps
and nothing races, so the outcome does not depend on machine load; every wait the loop asks for is
still observed with the timeout it asked for.  (c) thorough tier only: the former real-time boards
(unit 30 ms, real sleeps).  They depend on the wall clock and on how the OS schedules the child --
on a loaded machine two alarms 30 ms apart become overdue together and a scheduler that orders
overdue timers arbitrarily fails or passes by chance -- so all their checks are INFORMATIONAL.
"""
from __future__ import annotations

import itertools
import json
import logging
import os
import select as _select
import selectors
import signal
import threading
import time as _time
import types
from collections import defaultdict

from bounded.common import Check, rng
from spec.evloop_model import CLAUSES, judge

from urwid.event_loop import select_loop as _sl
from urwid.event_loop.abstract_loop import ExitMainLoop

UNIT = 0.03  # seconds per script time unit in real-time runs


class HarnessStop(BaseException):
    """The scripted world is quiescent for ever (nothing can wake the loop)."""


class HarnessAbort(BaseException):
    """The loop did not come to rest within the iteration budget."""


class _Base(BaseException):
    pass


def _exc_of(kind):
    if kind == "exit":
        return ExitMainLoop()
    if kind == "zmqeintr":
        import errno

        import zmq

        return zmq.error.ZMQError(errno.EINTR)
    cls = {
        "value": ValueError,
        "interrupted": InterruptedError,
        "keyboard": KeyboardInterrupt,
        "stopiter": StopIteration,
        "oserror": OSError,
        "blocking": BlockingIOError,
        "timeout": TimeoutError,
        "base": _Base,
        "runtime": RuntimeError,
        "assertion": AssertionError,
    }[kind]
    return cls("boom")


# ----------------------------------------------------------------------------------------------
# the script driver (shared by the virtual and the real-time harness)


class Driver:
    """Executes script operations against a loop and records the trace.  The driver's own bookkeeping
    (which slot is pending / registered) only decides which script operations are *skipped* as
    meaningless (re-arming a pending alarm, watching a watched descriptor); it is driven by the script,
    never by what the loop answers."""

    def __init__(self, loop, scen, trace, now, pipes, scale=1.0, sleeper=None, watch_arg=None):
        self.loop, self.scen, self.trace, self.now, self.pipes = loop, scen, trace, now, pipes
        self.scale = scale
        self.sleeper = sleeper
        self.watch_arg = watch_arg or (lambda p: p)
        self.serial = defaultdict(int)
        self.latest = {}  # slot name -> instance id
        self.handle = {}
        self.live = set()  # instance ids the script considers pending / registered
        self.count = defaultdict(int)
        self.excs = {}  # label -> exception object
        self.nexc = 0
        self.raises_enabled = True
        self.acts = scen.get("acts", {})
        self.noread = {int(k): v for k, v in scen.get("noread", {}).items()}

    def _new(self, slot):
        self.serial[slot] += 1
        inst = f"{slot}#{self.serial[slot]}"
        self.latest[slot] = inst
        return inst

    def how_of(self, e):
        for label, obj in self.excs.items():
            if obj is e:
                return "raise:" + label
        if isinstance(e, BaseExceptionGroup):
            labs = []
            for sub in e.exceptions:
                h = self.how_of(sub)
                if not h.startswith("raise:"):
                    return "raise-unexpected:" + repr(e)[:200]
                labs.append(h[6:])
            return "raise-group:" + ",".join(sorted(labs))
        return "raise-unexpected:" + repr(e)[:200]

    def callback(self, inst, slot):
        kind = slot[0]
        pipe = int(slot[1:]) if kind == "P" else None

        def cb(*_a):
            self.count[slot] += 1
            n = self.count[slot]
            self.live.discard(inst) if kind in "AZ" else None
            self.trace.append(["call", inst, self.now()])
            label = None
            try:
                if kind == "P" and n > self.noread.get(pipe, 0) and self.pipes.unread[pipe] > 0:
                    self.pipes.read(pipe)
                    self.trace.append(["read", inst, pipe, self.now()])
                for op in self.acts.get(slot, {}).get(str(n), ()):
                    self.do(op, inst)
            except BaseException as e:
                h = self.how_of(e)
                label = h[6:] if h.startswith("raise:") else None
                if label is None:
                    raise  # HarnessStop / HarnessAbort or something foreign: not ours to label
                self.trace.append(["ret", inst, self.now(), label])
                raise
            self.trace.append(["ret", inst, self.now(), None])

        cb.__name__ = inst
        return cb

    def do(self, op, ctx):
        name = op[0]
        tr, loop, now = self.trace, self.loop, self.now
        try:
            if name == "alarm":
                slot = f"A{op[1]}" if op[1] != "Z" else "Z"
                if self.latest.get(slot) in self.live:
                    return
                inst = self._new(slot)
                delay = op[2] * self.scale
                lo = now() + delay
                self.handle[inst] = loop.alarm(delay, self.callback(inst, slot))
                self.live.add(inst)
                hi = now() + delay if self.scale != 1.0 else lo
                tr.append(["alarm", ctx, inst, op[2], lo, hi])
            elif name == "rm_alarm":
                inst = self.latest.get(f"A{op[1]}")
                if inst is None:
                    return
                res = loop.remove_alarm(self.handle[inst])
                self.live.discard(inst)
                tr.append(["rm_alarm", ctx, inst, res, now()])
            elif name == "watch":
                slot = f"P{op[1]}"
                if self.latest.get(slot) in self.live:
                    return
                inst = self._new(slot)
                self.handle[inst] = loop.watch_file(self.watch_arg(op[1]), self.callback(inst, slot))
                self.live.add(inst)
                tr.append(["watch", ctx, inst, op[1], now()])
            elif name == "rm_watch":
                inst = self.latest.get(f"P{op[1]}")
                if inst is None:
                    return
                res = loop.remove_watch_file(self.handle[inst])
                self.live.discard(inst)
                tr.append(["rm_watch", ctx, inst, op[1], res, now()])
            elif name == "idle":
                slot = f"I{op[1]}"
                if self.latest.get(slot) in self.live:
                    return
                inst = self._new(slot)
                self.handle[inst] = loop.enter_idle(self.callback(inst, slot))
                self.live.add(inst)
                tr.append(["idle", ctx, inst, now()])
            elif name == "rm_idle":
                inst = self.latest.get(f"I{op[1]}")
                if inst is None:
                    return
                res = loop.remove_enter_idle(self.handle[inst])
                self.live.discard(inst)
                tr.append(["rm_idle", ctx, inst, res, now()])
            elif name == "write":
                self.pipes.write(op[1])
                tr.append(["write", ctx, op[1], now()])
            elif name == "sleep":
                self.sleeper(op[1])
            elif name == "raise":
                if not self.raises_enabled:
                    return
                self.nexc += 1
                label = f"{op[1]}#{self.nexc}"
                e = _exc_of(op[1])
                self.excs[label] = e
                raise e
            else:
                raise AssertionError(op)
        except (HarnessStop, HarnessAbort):
            raise
        except BaseException as e:
            if name == "raise" and any(e is x for x in self.excs.values()):
                raise
            tr.append(["op_error", ctx, name, repr(e)[:200]])

    def run(self, n):
        self.trace.append(["start", n])
        try:
            self.loop.run()
            how = "return"
        except HarnessStop:
            how = "stop"
        except HarnessAbort as e:
            how = "abort:" + str(e)
        except BaseException as e:
            how = self.how_of(e)
        self.trace.append(["end", n, how])
        return how


# ----------------------------------------------------------------------------------------------
# virtual world: clock, pipes, scripted selector / poller


class World:
    MAX_WAITS = 400

    def __init__(self, scen, trace):
        self.now = 0.0
        self.drift = scen.get("drift", 0)
        self.trace = trace
        self.arrivals = sorted((t, int(p)) for p, ts in scen.get("arrivals", {}).items() for t in ts)
        self.unread = defaultdict(int)
        self.desc = scen.get("order", "asc") == "desc"
        self.waits = 0
        self.activity = 0
        self.last_activity = -1

    # clock handed to the loop: every reading may cost `drift`
    def time(self):
        v = self.now
        self.now += self.drift
        return v

    def peek(self):
        return self.now

    def sleep(self, d):
        self.now += d

    # pipes
    def write(self, p):
        self.unread[p] += 1

    def read(self, p):
        self.unread[p] -= 1

    def deliver(self):
        while self.arrivals and self.arrivals[0][0] <= self.now:
            t, p = self.arrivals.pop(0)
            self.unread[p] += 1
            self.trace.append(["arrive", p, t])

    def wait(self, registered, timeout):
        self.activity += 1
        self.waits += 1
        if self.waits > self.MAX_WAITS:
            raise HarnessAbort(f"more than {self.MAX_WAITS} waits")
        t0 = self.now
        self.deliver()
        ready = [p for p in registered if self.unread[p] > 0]
        if not ready and (timeout is None or timeout > 0):
            nxt = min((t for t, p in self.arrivals if p in registered), default=None)
            end = None if timeout is None else t0 + timeout
            if nxt is not None and (end is None or nxt <= end):
                self.now = max(self.now, nxt)
            elif end is not None:
                self.now = max(self.now, end)
            else:
                self.trace.append(["select", None, sorted(registered), [], t0, t0])
                raise HarnessStop
            self.deliver()
            ready = [p for p in registered if self.unread[p] > 0]
        ready.sort(reverse=self.desc)
        self.trace.append(["select", timeout, sorted(registered), list(ready), t0, self.now])
        return ready


FD0 = 100  # virtual descriptor number of pipe 0


def _fake_selector_class(world):
    class FakeSelector:
        def __init__(self):
            if world.activity == world.last_activity:
                # a whole iteration without a wait or a callback: the loop spins in a fixed state
                world.trace.append(["select", None, [], [], world.now, world.now])
                raise HarnessStop
            world.last_activity = world.activity
            self.reg = {}

        def __enter__(self):
            return self

        def __exit__(self, *a):
            return False

        def register(self, fd, events, data=None):
            self.reg[fd] = data

        def close(self):
            pass

        def select(self, timeout=None):
            ready = world.wait([fd - FD0 for fd in self.reg], timeout)
            return [(selectors.SelectorKey(p + FD0, p + FD0, selectors.EVENT_READ, self.reg[p + FD0]), selectors.EVENT_READ) for p in ready]

    return FakeSelector


class _FakeFile:
    def __init__(self, fd):
        self._fd = fd

    def fileno(self):
        return self._fd


class _FakePoller:
    """zmq.Poller stand-in: objects registered by identity, poll(timeout in ms, floats truncated to
    int as pyzmq's Poller.poll does), integer fds reported for non-socket objects."""

    def __init__(self, world):
        self.world = world
        self.objs = {}

    def register(self, obj, flags=1):
        self.objs[obj] = flags

    def unregister(self, obj):
        del self.objs[obj]

    def poll(self, timeout=None):
        if timeout is None or timeout < 0:
            secs = None
        else:
            if isinstance(timeout, float):
                timeout = int(timeout)
            secs = timeout / 1000.0
        if not self.objs:
            # pyzmq's zmq_poll returns [] at once when nothing is registered, whatever the timeout
            # (checked against the installed pyzmq: zmq.Poller().poll(300) takes microseconds)
            w = self.world
            if secs is None:
                if w.activity == w.last_activity:
                    w.trace.append(["select", None, [], [], w.now, w.now])
                    raise HarnessStop
                w.last_activity = w.activity
            w.waits += 1
            if w.waits > w.MAX_WAITS:
                raise HarnessAbort(f"more than {w.MAX_WAITS} waits")
            w.trace.append(["select", secs, [], [], w.now, w.now])  # asked to wait `secs`, came back at once
            return []
        fds = {o.fileno() - FD0: o for o in self.objs}
        ready = self.world.wait(list(fds), secs)
        return [(p + FD0, 1) for p in ready]


def run_virtual(kind, scen):
    """Runs one script on a real loop object under the virtual clock; returns the trace."""
    trace = []
    world = World(scen, trace)
    if kind == "select":
        saved = (_sl.time, _sl.selectors)
        _sl.time = types.SimpleNamespace(time=world.time)
        _sl.selectors = types.SimpleNamespace(DefaultSelector=_fake_selector_class(world), EVENT_READ=selectors.EVENT_READ)

        def restore():
            _sl.time, _sl.selectors = saved

        mk = _sl.SelectEventLoop
        watch_arg = lambda p: p + FD0  # noqa: E731
    else:
        from urwid.event_loop import zmq_loop as _zl

        saved_t = _zl.time

        def vsleep(d):  # a loop that sleeps blocks: recorded like a wait (descriptor sets not visible)
            t0 = world.now
            world.sleep(d)
            trace.append(["select", d, None, None, t0, world.now])

        _zl.time = types.SimpleNamespace(time=world.time, sleep=vsleep)

        def restore():
            _zl.time = saved_t

        def mk():
            lp = _zl.ZMQEventLoop()
            lp._poller = _FakePoller(world)
            return lp

        files = {}
        watch_arg = lambda p: files.setdefault(p, _FakeFile(p + FD0))  # noqa: E731
    try:
        loop = mk()
        drv = Driver(loop, scen, trace, world.peek, world, 1.0, world.sleep, watch_arg)

        def counted(cbmaker):
            def callback(inst, slot):
                inner = cbmaker(inst, slot)

                def cb(*a):
                    world.activity += 1
                    return inner(*a)

                return cb

            return callback

        drv.callback = counted(drv.callback)
        for op in scen.get("pre", ()):
            drv.do(op, "pre")
        how = drv.run(1)
        if how.startswith("raise:"):
            drv.raises_enabled = False
            world.waits = 0
            world.last_activity = -1
            drv.run(2)
    finally:
        restore()
    return trace


# ----------------------------------------------------------------------------------------------
# real-time harness (runs in a forked child)


class _RealPipes:
    def __init__(self):
        self.fds = {}
        self.unread = defaultdict(int)

    def fd(self, p):
        if p not in self.fds:
            r, w = os.pipe()
            os.set_blocking(r, False)
            self.fds[p] = (r, w)
        return self.fds[p][0]

    def write(self, p):
        self.fd(p)
        os.write(self.fds[p][1], b"x")
        self.unread[p] += 1

    def read(self, p):
        os.read(self.fds[p][0], 1)
        self.unread[p] -= 1


def available_loops():
    out = {"select": None, "asyncio": None}
    for kind, mod in (("tornado", "tornado.ioloop"), ("twisted", "twisted.internet.selectreactor"), ("trio", "trio"), ("zmq", "zmq")):
        try:
            __import__(mod)
            out[kind] = None
        except Exception as e:  # noqa: BLE001
            out[kind] = f"{type(e).__name__}: {e}"
    return out


class VClock:
    """Virtual clock of a forked child ("vtime" boards): it advances only when the loop waits with
    nothing readable (by exactly the timeout it asked for) or when the script 'sleeps'."""

    FOREVER = 3600.0  # a wait this long with nothing readable is quiescence for ever (trio caps at 24 h)
    MAX_WAITS = 5000

    def __init__(self, start=1000.0):
        self.now = start
        self.waits = 0
        self.bail = None  # set by the child: called with a reason when the loop can never wake up

    def time(self):
        return self.now

    def advance(self, d):
        if d > 0:
            self.now += d

    def waited(self, timeout, got_events, registered=True):
        """Bookkeeping of one non-blocking poll that stands for a wait of `timeout` seconds."""
        self.waits += 1
        if self.waits > self.MAX_WAITS:
            self.bail(f"more than {self.MAX_WAITS} waits of the blocking primitive (the loop spins)")
        if got_events or not registered:
            return
        if timeout is None or timeout >= self.FOREVER:
            self.bail("the loop waits for ever: nothing is readable and no timer is pending")
        self.advance(timeout)


def _build_real(kind, trace, now, scen=None, vclock=None):
    """Returns (loop, cleanup).  The blocking primitive of the loop is wrapped to record every wait.
    With `vclock` (vtime boards) the loop's clock is the virtual one and the blocking primitive polls
    the real descriptors with timeout 0, the wait "lasting" its timeout on the virtual clock when
    nothing is readable: the third-party scheduler and the descriptors are real, time is not."""

    def rec(timeout):
        ev = ["select", timeout, None, None, now(), None]
        trace.append(ev)
        return ev

    def vt(timeout, poll0, got=bool):
        r = poll0()
        vclock.waited(timeout, got(r))
        return r

    if kind == "select":
        if vclock is not None:
            _sl.time = types.SimpleNamespace(time=vclock.time)

        class RecSelector(selectors.DefaultSelector):
            def select(self, timeout=None):
                ev = rec(timeout)
                sup = super()
                r = sup.select(timeout) if vclock is None else vt(timeout, lambda: sup.select(0))
                ev[5] = now()
                return r

        _sl.selectors = types.SimpleNamespace(DefaultSelector=RecSelector, EVENT_READ=selectors.EVENT_READ)
        return _sl.SelectEventLoop(), None
    if kind in ("asyncio", "tornado"):
        import asyncio

        aloop = asyncio.new_event_loop()
        sel = aloop._selector
        orig = sel.select
        if vclock is not None:
            aloop.time = vclock.time  # call_later / _run_once read the clock through self.time()

        def select(timeout=None):
            ev = rec(timeout)
            r = orig(timeout) if vclock is None else vt(timeout, lambda: orig(0))
            ev[5] = now()
            return r

        sel.select = select
        if kind == "asyncio":
            from urwid.event_loop.asyncio_loop import AsyncioEventLoop

            return AsyncioEventLoop(loop=aloop), None
        import tornado.ioloop

        from urwid.event_loop.tornado_loop import TornadoEventLoop

        asyncio.set_event_loop(aloop)
        ioloop = tornado.ioloop.IOLoop.current()
        if vclock is not None:
            ioloop.time = vclock.time  # IOLoop.call_at turns its deadline into a delay with self.time()
        return TornadoEventLoop(ioloop), None
    if kind == "twisted":
        from twisted.internet.selectreactor import SelectReactor

        from urwid.event_loop.twisted_loop import TwistedEventLoop

        reactor = SelectReactor()
        orig = reactor.doIteration
        if vclock is not None:
            import twisted.internet.selectreactor as _sr

            reactor.seconds = vclock.time  # callLater / timeout() / runUntilCurrent read self.seconds()
            real_select = _sr._select
            _sr._select = lambda r, w, e, timeout=None: vt(timeout, lambda: real_select(r, w, e, 0), lambda res: any(res))

        def do_iteration(timeout):
            ev = rec(None if timeout is None else float(timeout))
            r = orig(timeout)
            ev[5] = now()
            return r

        reactor.doIteration = do_iteration
        return TwistedEventLoop(reactor), None
    if kind == "trio":
        import trio

        from urwid.event_loop.trio_loop import TrioEventLoop

        # trio reverses each batch of runnable tasks with probability 1/2 (trio/_core/_run.py, "_r");
        # the script's "order" field pins that choice (asc: never, desc: always), so both schedules are
        # explored deterministically instead of by chance
        import trio._core._run as _trun

        rev = (scen or {}).get("order", "asc") == "desc"
        _trun._r = types.SimpleNamespace(random=(lambda: 0.0) if rev else (lambda: 1.0), shuffle=lambda batch: None, uniform=lambda a, b: a)
        orig_run = trio.run
        extra = {}
        if vclock is not None:

            class VTrioClock(trio.abc.Clock):
                def start_clock(self):
                    pass

                def current_time(self):
                    return vclock.now

                def deadline_to_sleep_time(self, deadline):
                    return deadline - vclock.now

            extra["clock"] = VTrioClock()
            iom = _trun.TheIOManager  # the I/O manager class of this platform (EpollIOManager on Linux)
            real_get = iom.get_events
            iom.get_events = lambda self, timeout: vt(timeout, lambda: real_get(self, 0))

        class RecInstrument(trio.abc.Instrument):
            def before_io_wait(self, timeout):
                rec(timeout)

        def run(fn, *a, instruments=(), **kw):
            return orig_run(fn, *a, instruments=[*instruments, RecInstrument()], **extra, **kw)

        trio.run = run  # in the forked child only
        return TrioEventLoop(), None
    if kind == "zmq":
        from urwid.event_loop import zmq_loop as _zl

        lp = _zl.ZMQEventLoop()
        real = lp._poller
        if vclock is not None:

            def vsleep(d):  # a loop that sleeps is a loop that blocks: recorded like a wait
                ev = rec(d)
                vclock.advance(d)
                ev[5] = now()

            _zl.time = types.SimpleNamespace(time=vclock.time, sleep=vsleep)

        class RecPoller:
            def register(self, *a, **kw):
                return real.register(*a, **kw)

            def unregister(self, *a, **kw):
                return real.unregister(*a, **kw)

            def poll(self, timeout=None):
                forever = timeout is None or timeout < 0
                ev = rec(None if forever else timeout / 1000.0)
                if vclock is None:
                    r = real.poll(timeout)
                else:
                    # pyzmq truncates the timeout to whole milliseconds, and returns at once (whatever
                    # the timeout) while nothing is registered -- both checked against the installed pyzmq
                    r = real.poll(0)
                    vclock.waited(None if forever else int(timeout) / 1000.0, bool(r), registered=bool(real.sockets))
                ev[5] = now()
                return r

        lp._poller = RecPoller()
        return lp, None
    raise ValueError(kind)


def _horizon(scen):
    tot = 0.0
    ops = list(scen.get("pre", ()))
    for per in scen.get("acts", {}).values():
        for lst in per.values():
            ops.extend(lst)
    for op in ops:
        if op[0] in ("alarm",):
            tot += op[2]
        elif op[0] == "sleep":
            tot += op[1]
    return tot + 2


def _real_child(kind, scen, out_fd, vtime=True):
    """Body of the forked child: run the script (vtime: on a virtual clock, see _build_real; else in
    real time, unit UNIT), write the trace as JSON to out_fd."""
    logging.disable(logging.CRITICAL)
    devnull = os.open(os.devnull, os.O_WRONLY)
    os.dup2(devnull, 1)
    os.dup2(devnull, 2)
    trace = []
    vclock = VClock() if vtime else None
    now = vclock.time if vtime else _time.monotonic
    unit = 1.0 if vtime else UNIT
    done = threading.Event()
    runno = [1]

    def dump(final=None):
        tr = list(trace)
        if final is not None:
            tr.append(final)
        data = json.dumps(tr, default=repr).encode()
        while data:
            n = os.write(out_fd, data)
            data = data[n:]

    def bail(reason):
        dump(["end", runno[0], "abort:" + reason])
        os._exit(0)

    def watchdog():
        # wall-clock safety net only (a loop spinning without ever calling its blocking primitive)
        if not done.wait(12.0 if not vtime else 30.0):
            bail("run() still running after 12 s" if not vtime else "run() still running after 30 s of wall time")

    threading.Thread(target=watchdog, daemon=True).start()
    try:
        if vtime:
            vclock.bail = bail
        loop, _ = _build_real(kind, trace, now, scen, vclock)
        pipes = _RealPipes()
        sleeper = (lambda d: vclock.advance(d)) if vtime else (lambda d: _time.sleep(d * UNIT))
        drv = Driver(loop, scen, trace, now, pipes, unit, sleeper, pipes.fd)
        for op in scen.get("pre", ()):
            drv.do(op, "pre")
        stop_at = _horizon(scen)
        drv.acts = dict(drv.acts)
        drv.acts["Z"] = {"1": [["raise", "exit"]], "2": [["raise", "exit"]]}
        drv.do(["alarm", "Z", stop_at], "pre")
        how = drv.run(1)
        if how.startswith("raise:") and kind != "twisted":  # a twisted reactor cannot be restarted
            drv.raises_enabled = False
            runno[0] = 2
            drv.live.discard(drv.latest.get("Z"))

            def stop2(*_a):
                trace.append(["call", "Z#2", now()])
                e = ExitMainLoop()
                drv.excs["exit#stop2"] = e
                trace.append(["ret", "Z#2", now(), "exit#stop2"])
                raise e

            lo = now() + 2 * unit
            loop.alarm(2 * unit, stop2)
            trace.append(["alarm", "pre", "Z#2", 2, lo, now() + 2 * unit])
            drv.run(2)
        done.set()
        dump()
    except BaseException as e:  # harness trouble: report, never hide
        done.set()
        dump(["end", runno[0], "abort:harness " + repr(e)[:200]])
    os._exit(0)


def run_real_many(tasks, par=10, timeout=45.0, vtime=True):
    """tasks: list of (kind, scen).  Forks one child per task (at most `par` at a time) and returns
    the list of traces (None when a child died without a trace).  The timeout is a wall-clock safety
    net only (a vtime child needs milliseconds of CPU; generous so that a loaded machine cannot hit it)."""
    results = [None] * len(tasks)
    pending = list(enumerate(tasks))[::-1]
    active = {}  # read fd -> [idx, pid, chunks, deadline]
    while pending or active:
        while pending and len(active) < par:
            idx, (kind, scen) = pending.pop()
            r, w = os.pipe()
            pid = os.fork()
            if pid == 0:
                os.close(r)
                try:
                    _real_child(kind, scen, w, vtime)
                finally:
                    os._exit(1)
            os.close(w)
            active[r] = [idx, pid, [], _time.monotonic() + timeout]
        rl, _, _ = _select.select(list(active), [], [], 0.5)
        tnow = _time.monotonic()
        for r in list(active):
            idx, pid, chunks, deadline = active[r]
            fin = False
            if r in rl:
                data = os.read(r, 1 << 16)
                if data:
                    chunks.append(data)
                else:
                    fin = True
            elif tnow > deadline:
                try:
                    os.kill(pid, signal.SIGKILL)
                except OSError:
                    pass
                fin = True
            if fin:
                os.close(r)
                try:
                    os.waitpid(pid, 0)
                except OSError:
                    pass
                del active[r]
                raw = b"".join(chunks)
                try:
                    results[idx] = json.loads(raw) if raw else None
                except ValueError:
                    results[idx] = None
    return results


def _thr(kind):
    # TwistedEventLoop documents that it approximates enter-idle by a timer 1/256 s after each callback
    # (urwid/event_loop/twisted_loop.py, _enable_twisted_idle): the wait for that timer itself is not
    # counted as "going quiescent"; any longer wait is.
    return 1.0 / 256 + 1e-4 if kind == "twisted" else 0.0


def judge_real(kind, trace, vtime=True):
    if trace is None:
        return {"viol": {**{c: [] for c in CLAUSES}, "exc": ["the child process produced no trace (crashed or was killed)"]}, "used": dict.fromkeys(CLAUSES, True), "notes": []}
    # vtime: the clock is exact (tol only absorbs float rounding of now + (due - now)); real time: 2 ms
    return judge(trace, thr=_thr(kind), tol=1e-6 if vtime else 0.002, strict=False, have_ready=False, rerun_exc_only=True)


# ----------------------------------------------------------------------------------------------
# script enumeration


def mk(delays=(), pipes=(), nidle=0, pre_extra=(), acts=None, arrivals=None, noread=None, order="asc", drift=0):
    """pipes: tuple of (pipe, bytes written before run()[, watched before run() = True]); arrivals: {pipe: [times]}."""
    pre = [["alarm", i, d] for i, d in enumerate(delays)]
    for p, n, *w in pipes:
        if not w or w[0]:
            pre.append(["watch", p])
        pre.extend([["write", p]] * n)
    pre.extend(["idle", k] for k in range(nidle))
    pre.extend(list(op) for op in pre_extra)
    scen = {"pre": pre}
    if acts:
        scen["acts"] = {slot: {str(n): [list(o) for o in ops] for n, ops in per.items()} for slot, per in acts.items()}
    if arrivals:
        scen["arrivals"] = {str(p): list(ts) for p, ts in arrivals.items()}
    if noread:
        scen["noread"] = {str(p): n for p, n in noread.items()}
    if order != "asc":
        scen["order"] = order
    if drift:
        scen["drift"] = drift
    return scen


def _callbacks(delays, pipes, nidle):
    return [f"A{i}" for i in range(len(delays))] + [f"P{p[0]}" for p in pipes] + [f"I{k}" for k in range(nidle)]


def _actions(delays, pipes, nidle, full=True):
    na = len(delays)
    ps = [p[0] for p in pipes]
    out = []
    for s in range(na):
        out.append((("rm_alarm", s),))
    slots = list(range(na)) + ([na] if na < 3 else [])
    for s in slots if full else slots[-1:] + slots[:1]:
        for d in (0, 1) if full else (0,):
            out.append((("alarm", s, d),))
    for p in ps:
        out.append((("rm_watch", p),))
        out.append((("write", p),))
    for p in (0, 1) if full else ():
        out.append((("watch", p),))
    for k in range(nidle):
        out.append((("rm_idle", k),))
    for k in (0, 1) if full else ():
        out.append((("idle", k),))
    out += [(("raise", "exit"),), (("raise", "value"),), (("sleep", 1.5),)]
    if full:
        for s in range(na):
            out.append((("rm_alarm", s), ("rm_alarm", s)))
        for p in ps:
            out.append((("rm_watch", p), ("watch", p)))
            out.append((("rm_watch", p), ("rm_watch", p)))
        for k in range(nidle):
            out.append((("rm_idle", k), ("idle", k)))
            out.append((("rm_idle", k), ("rm_idle", k)))
    else:
        if ps:
            out.append((("rm_watch", ps[0]), ("watch", ps[0])))
        if nidle:
            out.append((("rm_idle", 0), ("idle", 0)))
    # de-duplicate, keep order
    seen, res = set(), []
    for a in out:
        if a not in seen:
            seen.add(a)
            res.append(a)
    return res


PIPE_PATTERNS = [
    # (pipes written before run, arrivals)
    ((), {}),
    (((0, 1),), {}),
    (((0, 0),), {0: [1]}),
    (((0, 1), (1, 0)), {0: [1], 1: [1]}),
    (((0, 0), (1, 0)), {0: [1], 1: [1]}),
    (((0, 1), (1, 1)), {}),
    (((0, 2), (1, 1)), {1: [1.5]}),
    (((0, 0), (1, 0)), {0: [0.5, 2], 1: [2]}),
    (((0, 1), (1, 1, False)), {1: [1]}),  # descriptor 1 has data but is not watched before run()
]


def gen_passive(tier):
    """No callback does anything: pure interleavings of timer expiry and readiness."""
    for n in range(4):
        for delays in itertools.product((0, 1, 2), repeat=n):
            for pipes, arr in PIPE_PATTERNS:
                for nidle in (0, 2) if tier == "quick" else (0, 1, 2):
                    for order in ("asc", "desc") if len(pipes) == 2 else ("asc",):
                        for drift in (0, 1 / 1024):
                            yield mk(delays, pipes, nidle, arrivals=arr, order=order, drift=drift)


def gen_pre_removal(tier):
    """Entities removed (twice) or removed and re-added before run()."""
    base = [((1, 1, 2), ((0, 1), (1, 1)), 2, {}), ((0, 2), ((0, 0),), 1, {0: [1]})]
    for delays, pipes, nidle, arr in base:
        ents = [("alarm", i) for i in range(len(delays))] + [("watch", p[0]) for p in pipes] + [("idle", k) for k in range(nidle)]
        for r in (1, 2):
            for sub in itertools.combinations(ents, r):
                for mode in ("once", "twice", "readd"):
                    extra = []
                    for k, x in sub:
                        extra.append(("rm_" + k, x))
                        if mode == "twice":
                            extra.append(("rm_" + k, x))
                        if mode == "readd":
                            extra.append((k, x, 1) if k == "alarm" else (k, x))
                    yield mk(delays, pipes, nidle, pre_extra=extra, arrivals=arr)


def gen_k1(tier):
    """Exactly one callback acts (full action list), on its first or second invocation."""
    alarm_sets = [d for n in (1, 2, 3) for d in itertools.product((0, 1, 2), repeat=n)]
    pipe_sets = [PIPE_PATTERNS[0], PIPE_PATTERNS[6], PIPE_PATTERNS[3], PIPE_PATTERNS[8]] if tier != "quick" else [PIPE_PATTERNS[6]]
    for delays in alarm_sets:
        for pipes, arr in pipe_sets:
            nidle = 2
            for cb in _callbacks(delays, pipes, nidle):
                for act in _actions(delays, pipes, nidle, True):
                    for nth in (1, 2) if cb[0] != "A" and tier != "quick" else (1,):
                        yield mk(delays, pipes, nidle, acts={cb: {nth: act}}, arrivals=arr)
    # descriptors / idle only
    for pipes, arr in PIPE_PATTERNS[1:]:
        for nidle in (0, 1, 2):
            for order in ("asc", "desc") if len(pipes) == 2 else ("asc",):
                for cb in _callbacks((), pipes, nidle):
                    for act in _actions((), pipes, nidle, True):
                        for nth in (1, 2):
                            yield mk((), pipes, nidle, acts={cb: {nth: act}}, arrivals=arr, order=order, noread={0: 1} if nth == 2 else None)


def gen_k2(tier):
    """Two callbacks act (core action list)."""
    if tier == "quick":
        configs = [((1, 1, 2), PIPE_PATTERNS[5], 2, "asc"), ((2, 1), PIPE_PATTERNS[3], 1, "desc")]
    else:
        configs = [(d, pp, ni, o) for d in [(1, 1, 2), (2, 1, 0), (1, 1, 1), (0, 1), (1,)] for pp in (PIPE_PATTERNS[5], PIPE_PATTERNS[3], PIPE_PATTERNS[6]) for ni in (1, 2) for o in ("asc", "desc")]
    for delays, (pipes, arr), nidle, order in configs:
        cbs = _callbacks(delays, pipes, nidle)
        actions = _actions(delays, pipes, nidle, False)
        for c1, c2 in itertools.combinations(cbs, 2):
            for a1 in actions:
                for a2 in actions:
                    yield mk(delays, pipes, nidle, acts={c1: {1: a1}, c2: {1: a2}}, arrivals=arr, order=order)


def gen_random(tier, seed, count):
    r = rng(seed)
    for _ in range(count):
        na = r.randint(0, 3)
        delays = tuple(r.choice((0, 0.5, 1, 1, 2)) for _ in range(na))
        pipes, arr = r.choice(PIPE_PATTERNS)
        nidle = r.randint(0, 2)
        cbs = _callbacks(delays, pipes, nidle)
        actions = _actions(delays, pipes, nidle, True)
        acts = {}
        for cb in r.sample(cbs, min(len(cbs), r.randint(1, 4))):
            per = {}
            for nth in r.sample((1, 2, 3), r.randint(1, 2)):
                a = list(r.choice(actions))
                if r.random() < 0.3:
                    a += list(r.choice(actions))
                per[nth] = a
            acts[cb] = per
        noread = {p[0]: r.randint(0, 2) for p in pipes if r.random() < 0.3}
        extra = []
        if r.random() < 0.2 and cbs:
            c = r.choice(cbs)
            extra.append(({"A": "rm_alarm", "P": "rm_watch", "I": "rm_idle"}[c[0]], int(c[1:])))
        yield mk(delays, pipes, nidle, pre_extra=extra, acts=acts, arrivals=arr, noread=noread, order=r.choice(("asc", "desc")), drift=r.choice((0, 0, 1 / 1024)))


EXC_KINDS = ["exit", "value", "runtime", "assertion", "stopiter", "oserror", "blocking", "timeout", "interrupted", "keyboard", "base"]


def gen_exc_types(kinds):
    """Each exception class raised from an alarm, a watch and an idle callback."""
    for kind in kinds:
        for cb in ("A0", "P0", "I0"):
            yield mk((1,), ((0, 1),), 1, acts={cb: {1: [("raise", kind)]}})


def gen_real(tier):
    """Scripts for the real-time runs: no scripted arrivals (data is written before run() or by callbacks)."""
    delays, pipes, nidle = (1, 1, 2), ((0, 2), (1, 1)), 2
    out = [mk(delays, pipes, nidle)]
    cbs = _callbacks(delays, pipes, nidle)
    full = _actions(delays, pipes, nidle, True)
    if tier == "quick":
        pick = {
            "A0": [(("rm_alarm", 1),), (("rm_alarm", 2), ("rm_alarm", 2)), (("alarm", 0, 1),), (("sleep", 1.5),), (("rm_watch", 0),), (("rm_idle", 1),), (("raise", "exit"),), (("raise", "value"),), (("write", 1),)],
            "A1": [(("rm_alarm", 0),), (("raise", "value"),)],
            "A2": [(("idle", 0),), (("raise", "exit"),)],
            "P0": [(("rm_watch", 1),), (("rm_watch", 0),), (("rm_watch", 0), ("watch", 0)), (("rm_alarm", 0),), (("raise", "exit"),), (("raise", "value"),), (("rm_idle", 0),)],
            "P1": [(("rm_watch", 0),), (("alarm", 0, 0),)],
            "I0": [(("rm_idle", 1),), (("rm_idle", 0),), (("rm_idle", 0), ("idle", 0)), (("raise", "exit"),), (("raise", "value"),), (("rm_alarm", 2),), (("alarm", 0, 1),)],
            "I1": [(("rm_idle", 0),), (("rm_watch", 0),)],
        }
        for cb, acts in pick.items():
            for a in acts:
                out.append(mk(delays, pipes, nidle, acts={cb: {1: a}}))
    else:
        for cb in cbs:
            for a in full:
                out.append(mk(delays, pipes, nidle, acts={cb: {1: a}}))
    # a new alarm / a watch on a descriptor that already has data / a new idle callback, registered
    # from each kind of callback (idle callbacks run when the loop is about to block)
    for cb in ("A0", "P0", "I0"):
        for a in ((("watch", 1),), (("alarm", 2, 0),), (("alarm", 2, 1),), (("idle", 1),)):
            out.append(mk((1, 2), ((0, 2), (1, 1, False)), 1, acts={cb: {1: a}}))
    out.append(mk((), ((0, 1),), 1, acts={"I0": {1: [("alarm", 0, 0)]}}))
    out.append(mk((), ((0, 1), (1, 1, False)), 1, acts={"I0": {1: [("watch", 1)]}}))
    # removal before run (True then False), alarms overdue together, both raising in one pass
    out.append(mk(delays, pipes, nidle, pre_extra=[("rm_alarm", 1), ("rm_alarm", 1), ("rm_watch", 1), ("rm_watch", 1), ("rm_idle", 0), ("rm_idle", 0)]))
    # a slow callback makes the later alarms overdue together (several variants: a scheduler that
    # orders them arbitrarily gets it right by chance half of the time)
    for nidle in (0, 1, 2):
        out.append(mk((0, 1, 2), ((0, 1),), nidle, acts={"A0": {1: [("sleep", 2.5)]}}))
        out.append(mk((2, 1, 0), ((0, 1),), nidle, acts={"A2": {1: [("sleep", 2.5)]}}))
    out.append(mk((0, 1, 2), (), 1, acts={"A0": {1: [("sleep", 2.5)]}}))
    out.append(mk((2, 1, 0), (), 1, acts={"A2": {1: [("sleep", 2.5)]}}))
    out.append(mk((1, 1), (), 0, acts={"A0": {1: [("raise", "value")]}, "A1": {1: [("raise", "value")]}}))
    out.append(mk((), ((0, 2),), 1, noread={0: 1}))
    out.append(mk((1,), ((0, 0),), 1, acts={"A0": {1: [("write", 0)]}}))
    # time passes between alarm() and run(): A0 is due at 2, run() starts at 1, A1 (overdue) registers
    # A2 due at 2.5 -- a loop that counts an alarm's delay from the start of run() serves A2 before A0.
    # (The real-time boards showed this by accident, through the start-up time of the library; on the
    # virtual clock the gap has to be scripted.)
    out.append(mk((2, 0), (), 1, pre_extra=[("sleep", 1)], acts={"A1": {1: [("alarm", 2, 1.5)]}}))
    # every exception class from an alarm, a watch and an idle callback (both tiers: on the virtual
    # clock a script costs milliseconds)
    for s in gen_exc_types(["runtime", "stopiter", "oserror", "interrupted", "keyboard", "base"]):
        out.append(s)
    return out


# ----------------------------------------------------------------------------------------------
# evaluation


def _key(scen):
    return json.dumps(scen, sort_keys=True)


def _why(res):
    return "; ".join(f"[{c}] {m}" for c in CLAUSES for m in res["viol"][c][:2])


def _shape(scen):
    """Distinguishing inputs of a script, as flat fields of the failure detail (known findings match on
    them): which kinds of callback act (A alarm / P watch / I idle), which operations they perform
    ("raise:<kind>" for raises), which operations are made before run(), the ready / batch order."""
    acts = scen.get("acts", {})
    opname = lambda o: f"raise:{o[1]}" if o[0] == "raise" else o[0]  # noqa: E731
    return {
        "actors": sorted(acts),
        "actor_kinds": sorted({a[0] for a in acts}),
        "act_ops": sorted({opname(o) for per in acts.values() for ops in per.values() for o in ops}),
        "pre_ops": sorted({o[0] for o in scen.get("pre", ())}),
        "order": scen.get("order", "asc"),
    }


class _Board:
    """One Check per (loop label, clause).  Cases are buffered and handed to the Checks with one
    representative of every distinct kind of failure first, so that the (capped) failure lists show
    every kind."""

    def __init__(self, label, rule_prefix, bound, exhaustive=True):
        self.label = label
        self.checks = {c: Check(f"C13/{label}/{c}", f"{rule_prefix}: clause '{c}' of spec/evloop_model.judge", exhaustive, bound) for c in CLAUSES}
        self.fail_kinds = defaultdict(int)
        self.bad_cases = {c: [] for c in CLAUSES}
        self.overflow = {c: [] for c in CLAUSES}

    @staticmethod
    def _kind(msg):
        import re

        m = msg.split(": ", 1)[1]
        return re.sub(r"[0-9]+(\.[0-9]+)?(e-?[0-9]+)?", "N", m)[:110]

    def add_ok(self, key, used, sample=None):
        for c, u in zip(CLAUSES, used):
            self.checks[c].case(key, True, None, nontrivial=u, sample=sample if u else None)

    def add(self, scen, res, extra=None, family=""):
        key = _key(scen)
        for c in CLAUSES:
            if not res["viol"][c]:
                self.checks[c].case(key, True, None, nontrivial=res["used"][c], sample={"family": family, "scenario": scen} if res["used"][c] else None)
                continue
            detail = {"loop": self.label, "clause": c, "family": family, "scenario": scen, "why": "; ".join(res["viol"][c][:3]), **_shape(scen)}
            if extra:
                detail.update(extra)
            kind = self._kind(res["viol"][c][0])
            self.fail_kinds[(c, kind)] += 1
            if len(self.bad_cases[c]) < 2000 or kind not in {k for k, *_ in self.bad_cases[c]}:
                self.bad_cases[c].append((kind, key, res["used"][c], detail))
            else:
                self.overflow[c].append((key, res["used"][c]))

    def results(self):
        out = []
        for c in CLAUSES:
            chk = self.checks[c]
            seen, first, rest = set(), [], []
            for item in self.bad_cases[c]:
                (rest if item[0] in seen else first).append(item)
                seen.add(item[0])
            for _kind, key, used, detail in first + rest:
                chk.case(key, False, detail, nontrivial=used)
            for key, used in self.overflow[c]:
                chk.case(key, False, {"case": key}, nontrivial=used)
            self.bad_cases[c] = []
            self.overflow[c] = []
            r = chk.result()
            if r["evaluations"]:
                out.append(r)
        return out


def _virtual_families(tier, seed):
    fams = [("passive", gen_passive(tier)), ("pre-removal", gen_pre_removal(tier)), ("one-actor", gen_k1(tier)), ("two-actors", gen_k2(tier)), ("exception-types", gen_exc_types(EXC_KINDS)), ("random", gen_random(tier, seed, 3000 if tier == "quick" else 600000))]
    return fams


def _eval_virtual_chunk(args):
    """Returns compact results: ("ok", key, used bits, family) or ("bad", family, scen, judge result)."""
    kind, scens = args
    out = []
    for fam, scen in scens:
        res = judge(run_virtual(kind, scen))
        if any(res["viol"].values()):
            out.append(("bad", fam, scen, res))
        else:
            out.append(("ok", _key(scen), tuple(res["used"][c] for c in CLAUSES), fam))
    return out


def _run_virtual_board(kind, label, tier, seed, fams, procs):
    bound = "<= 3 alarms (delays 0,1,2, random: also 0.5), <= 2 descriptors (<= 2 bytes each, scripted arrival times), <= 2 idle callbacks; <= 2 acting callbacks exhaustively, <= 4 in the seeded random family; clock drift 0 or 1/1024 s per reading"
    board = _Board(label, f"real {label.split('-')[0]} loop under a virtual clock and scripted readiness; trace judged against the statement", bound, True)
    items = [(fam, scen) for fam, g in fams for scen in g]
    counts = defaultdict(int)
    for fam, _ in items:
        counts[fam] += 1
    chunks = [(kind, items[i : i + 1000]) for i in range(0, len(items), 1000)]
    nsample = [0]

    def take(part):
        for rec in part:
            if rec[0] == "ok":
                sample = None
                if nsample[0] < 40:
                    nsample[0] += 1
                    sample = {"family": rec[3], "scenario": json.loads(rec[1])}
                board.add_ok(rec[1], rec[2], sample)
            else:
                board.add(rec[2], rec[3], family=rec[1])

    if procs > 1 and len(items) > 20000:
        import multiprocessing as mp

        with mp.get_context("fork").Pool(procs) as pool:
            for part in pool.imap_unordered(_eval_virtual_chunk, chunks):
                take(part)
    else:
        for ch in chunks:
            take(_eval_virtual_chunk(ch))
    return board, dict(counts)


def _run_real_board(kind, tier, scens, par, vtime=True):
    label = f"{kind}-vtime" if vtime else f"{kind}-realtime"
    if vtime:
        rule = f"real {kind} loop (its real scheduler, real os.pipe descriptors) on a virtual clock: the library's clock is a counter and its blocking primitive polls without blocking, a wait with nothing readable lasting exactly its timeout; load-independent"
    else:
        rule = f"real {kind} loop in real time (unit {UNIT}s, os.pipe), blocking primitive observed; failures are re-run twice and carry seen_in_runs k/3; INFORMATIONAL (depends on the wall clock)"
    board = _Board(label, rule, f"{len(scens)} scripts on 3 alarms (delays 1,1,2), 2 pipes, 2 idle callbacks: one acting callback + hand-picked two-actor / lateness scripts", False)
    if kind == "trio":  # both batch orders of trio's scheduler (see _build_real)
        scens = [dict(s, order=o) if o == "desc" else s for s in scens for o in ("asc", "desc")]
    traces = run_real_many([(kind, s) for s in scens], par, vtime=vtime)
    res = [judge_real(kind, t, vtime) for t in traces]
    # Failing scripts are re-run twice: the count is reported with the failure (vtime boards are
    # deterministic: always 3/3), and a failure that consists only of a missing / aborted run (child
    # killed by the wall-clock safety net on an overloaded machine) is dropped when the re-runs are clean.
    bad = [i for i, r in enumerate(res) if any(r["viol"].values())]
    repro = {i: 1 for i in bad}
    flaky = 0
    for _attempt in range(2):
        if not bad:
            break
        again = run_real_many([(kind, scens[i]) for i in bad], par, vtime=vtime)
        for i, t in zip(bad, again):
            r2 = judge_real(kind, t, vtime)
            if any(r2["viol"].values()):
                repro[i] += 1
    for i in bad:
        infra = all("did not finish: abort:run() still running" in m or "produced no trace" in m for c in CLAUSES for m in res[i]["viol"][c])
        if repro[i] == 1:
            flaky += 1
            if infra:
                res[i] = {"viol": {c: [] for c in CLAUSES}, "used": res[i]["used"], "notes": res[i]["notes"]}
    # scripts in which time passes between alarm() and run() get checks of their own
    # (C13/<loop>-prerun/<clause>): they probe "the delay counts from the alarm() call", a defect class
    # of its own, which must stay tellable from the ordering failures of the main board
    board2 = _Board(label + "-prerun", rule + "; scripts in which time passes between the alarm() calls and run()", "scripts with a 'sleep' before run()", False)
    notes = defaultdict(int)
    for i, (s, r) in enumerate(zip(scens, res)):
        b = board2 if any(o[0] == "sleep" for o in s.get("pre", ())) else board
        b.add(s, r, {"seen_in_runs": f"{repro[i]}/3"} if i in repro else None, family="real")
        for n in r["notes"]:
            notes[n.split("#")[0][:60]] += 1
    return [board, board2], flaky, dict(notes)


REAL_KINDS = ("select", "asyncio", "tornado", "twisted", "trio", "zmq")

# The real-time boards (thorough tier only) sleep on the wall clock (unit 30 ms): whether two alarms
# 30 ms apart are "overdue together" when the child is finally scheduled, and hence what an
# arbitrary-order scheduler does with them, depends on machine load (seen: trio-realtime/alarm failing
# in 1 of 3 runs of the *passive* script).  The statement is decided on the vtime boards, which run the
# same scripts on the same loops deterministically; the real-time runs are kept as observations.
INFORMATIONAL = {
    f"C13/{_k}-realtime{_s}/{_c}": "real-time run (30 ms units, real sleeps): outcome depends on wall-clock scheduling of the child process; the same scripts are decided deterministically by C13/" + _k + "-vtime/" + _c
    for _k in REAL_KINDS
    for _s in ("", "-prerun")
    for _c in CLAUSES
}


def run(tier="quick", seed=0):
    quick = tier == "quick"
    procs = 1 if quick else 14
    checks = []
    info = {}
    avail = available_loops()
    # forked boards first: they fork one child per script, which is cheap while this process is small
    real_checks = []
    scens = gen_real(tier)
    par = 10 if quick else 12
    for kind in REAL_KINDS:
        if avail.get(kind) is not None:
            info[f"{kind}-vtime"] = {"skipped": avail[kind]}
            continue
        # quick tier: virtual time only (no wall-clock dependence at all); thorough: also real time (INFORMATIONAL)
        for vtime in (True,) if quick else (True, False):
            t1 = _time.time()
            boards, flaky, notes = _run_real_board(kind, tier, scens, par, vtime)
            for b in boards:
                real_checks += b.results()
            info[boards[0].label] = {"scripts": len(scens) * (2 if kind == "trio" else 1), "seen_once_only_on_rerun": flaky, "failure_kinds": {f"{b.label}/{c}: {m}": n for b in boards for (c, m), n in b.fail_kinds.items()}, "notes": notes, "wall_s": round(_time.time() - t1, 1)}
    t0 = _time.time()
    board, counts = _run_virtual_board("select", "select-virtual", tier, seed, _virtual_families(tier, seed), procs)
    checks += board.results()
    info["select-virtual"] = {"scripts": counts, "failure_kinds": {f"{c}: {m}": n for (c, m), n in board.fail_kinds.items()}, "wall_s": round(_time.time() - t0, 1)}
    if avail.get("zmq") is None:
        t1 = _time.time()
        zf = [("passive", (s for s in gen_passive(tier) if not s.get("drift"))), ("pre-removal", gen_pre_removal(tier)), ("one-actor", gen_k1("quick")), ("exception-types", gen_exc_types([*EXC_KINDS, "zmqeintr"]))]
        if not quick:
            zf.append(("two-actors", gen_k2("quick")))
            zf.append(("random", (s for s in gen_random(tier, seed, 20000) if not s.get("drift"))))
        zb, zc = _run_virtual_board("zmq", "zmq-virtual", tier, seed, zf, procs)
        checks += zb.results()
        info["zmq-virtual"] = {"scripts": zc, "failure_kinds": {f"{c}: {m}": n for (c, m), n in zb.fail_kinds.items()}, "wall_s": round(_time.time() - t1, 1)}
        # pyzmq's Poller.poll truncates a float timeout to whole milliseconds; shown separately so that
        # it does not drown the main zmq checks: same passive scripts with a drifting clock, at least one
        # descriptor watched (with none, pyzmq does not wait at all: that is in zmq-virtual/alarm)
        sub = Check("C13/zmq-virtual/alarm-submillisecond", "ZMQEventLoop under the virtual clock with 1/8192 s spent per clock reading (poll timeout truncated to whole ms as pyzmq does), a descriptor watched: alarm clause", True, "passive scripts, <= 3 alarms, >= 1 descriptor")
        for s in gen_passive(tier):
            if s.get("drift") and any(o[0] == "alarm" for o in s["pre"]) and any(o[0] == "watch" for o in s["pre"]):
                s["drift"] = 1 / 8192  # a clock reading costs 0.12 ms: less than the millisecond lost by truncation
                r = judge(run_virtual("zmq", s))
                sub.case(_key(s), not r["viol"]["alarm"], {"loop": "zmq-virtual", "clause": "alarm", "scenario": s, "why": "; ".join(r["viol"]["alarm"][:2]), **_shape(s)}, sample=s)
        checks.append(sub.result())
    checks += real_checks
    return {
        "checks": checks,
        "bound": "SelectEventLoop (and ZMQEventLoop) under a virtual clock: all scripts with <= 3 alarms (delays 0/1/2), <= 2 descriptors, <= 2 idle callbacks, <= 2 acting callbacks (add/remove/raise/sleep/write from within callbacks and before run), both ready orders, clock drift 0 or 1/1024, plus seeded random scripts with <= 4 actors; the same script language against the real select/asyncio/tornado/twisted/trio/zmq loops (real schedulers, real pipes) on a virtual clock",
        "info": info,
    }


def replay(check_name, case):
    scen = case["scenario"]
    label = case.get("loop") or check_name.split("/")[1]
    clause = case.get("clause") or check_name.split("/")[2]
    kind = label.split("-")[0]
    if label.endswith("-virtual"):
        res = judge(run_virtual(kind, scen))
        bad = res["viol"].get(clause) if clause in res["viol"] else [m for c in CLAUSES for m in res["viol"][c]]
    else:
        # vtime boards are deterministic (one run decides); a real-time race inside a third-party
        # scheduler need not show on every run, so up to 5 runs are made there
        vtime = "-realtime" not in label
        bad = []
        for _ in range(1 if vtime else 5):
            (tr,) = run_real_many([(kind, scen)], 1, vtime=vtime)
            res = judge_real(kind, tr, vtime)
            bad = res["viol"].get(clause, [])
            if bad:
                break
    return {"outcome": "confirmed" if bad else "not-reproduced", "detail": {"why": "; ".join(bad[:3]) if bad else "", "notes": res["notes"][:5]}}
