"""Run-time tuning only (no semantic content): how many processes share the path space of a heavy function
(pyvc/engine.py State.choose: sharding by the first `depth` choices; results are merged by (obligation, path))."""
SHARDS = {
    "urwid/widget/pile.py:Pile.keypress": (16, 13),
    "urwid/widget/overlay.py:Overlay.render": (8, 8),
    "urwid/widget/frame.py:Frame.mouse_event": (8, 8),
    "urwid/widget/overlay.py:Overlay.mouse_event": (6, 4),
    "urwid/widget/padding.py:Padding.render": (6, 4),
    "urwid/widget/overlay.py:Overlay.get_cursor_coords": (4, 3),
    "urwid/widget/overlay.py:Overlay.keypress": (4, 3),
    "urwid/widget/frame.py:Frame.render": (4, 7),
    "urwid/widget/pile.py:Pile.mouse_event": (4, 4),
    "urwid/widget/columns.py:Columns.keypress": (4, 4),
    "urwid/widget/scrollable.py:Scrollable.render": (6, 4),
    "urwid/widget/scrollable.py:ScrollBar.render": (4, 3),
    "urwid/display/escape.py:KeyqueueTrie.read_sgrmouse_info": (8, 4),
    "urwid/display/escape.py:KeyqueueTrie.get_recurse": (4, 4),
    "urwid/display/escape.py:process_keyqueue": (4, 4),
    "urwid/display/_raw_display_base.py:Screen.get_input#after-a-resize": (8, 10),
}

# Proofs that take minutes: verified by `--tier thorough` only (quick: bounded stand-in decides these functions).
THOROUGH_ONLY = (
    "urwid/widget/columns.py:Columns.column_widths",
    "urwid/widget/columns.py:Columns.render",
    "urwid/widget/columns.py:Columns.move_cursor_to_coords",
    "urwid/widget/columns.py:Columns.mouse_event",
    "urwid/vterm.py:TermCanvas.resize",
    "urwid/display/common.py:AttrSpec.foreground",
    "urwid/display/common.py:AttrSpec.__set_foreground",
    "urwid/util.py:rle_product",
    "urwid/display/_raw_display_base.py:Screen.get_input#after-a-resize",  # 1109 paths, ~40 s on one core: the resize-throttling half of get_input (quick: the not-throttling instance + bounded C05/get-input-resize)
    "urwid/canvas.py:TextCanvas.__init__#two-rows",  # 4810 paths, ~9 min on one core (the one-row instance runs in the quick tier)
)
SHARDS.update({
    "urwid/canvas.py:TextCanvas.__init__#up-to-one-row": (12, 6),
    "urwid/canvas.py:TextCanvas.__init__#two-rows": (16, 8),
    "urwid/widget/columns.py:Columns.column_widths": (16, 12),
    "urwid/vterm.py:TermCanvas.resize": (10, 6),
    "urwid/vterm.py:TermCanvas.remove_lines": (4, 4),
    "urwid/vterm.py:TermCanvas.insert_lines": (4, 4),
    "urwid/vterm.py:TermCanvas.insert_chars": (4, 4),
    "urwid/vterm.py:TermCanvas.remove_chars": (4, 4),
    "urwid/vterm.py:TermCanvas.erase": (6, 4),
    "urwid/vterm.py:TermCanvas.parse_csi": (8, 2),
    "urwid/vterm.py:TermCanvas.set_tabstop": (4, 4),
})

# Solver-strategy flags per contract file (no semantic content).
MODULE_FLAGS = {
    "contracts.C15_vterm": {"qf_forall_only": True},
    "contracts.C15_parser": {"qf_forall_only": True},
}

SHARDS.update({
    "urwid/widget/columns.py:Columns.render": (16, 10),
    "urwid/widget/columns.py:Columns.move_cursor_to_coords": (16, 10),
    "urwid/widget/columns.py:Columns.mouse_event": (12, 8),
    "urwid/widget/columns.py:Columns.get_pref_col": (4, 5),
    "urwid/widget/columns.py:Columns.get_cursor_coords": (4, 5),
    "urwid/display/common.py:AttrSpec.foreground": (12, 5),
    "urwid/display/common.py:AttrSpec.__set_foreground": (8, 5),
    "urwid/display/common.py:AttrSpec.__set_background": (6, 4),
    "urwid/display/common.py:AttrSpec.get_rgb_values": (6, 5),
    "urwid/display/common.py:_parse_color_88": (6, 5),
    "urwid/display/common.py:_parse_color_256": (6, 5),
    "urwid/display/common.py:AttrSpec.__init__": (4, 4),
    "urwid/util.py:rle_product": (6, 4),
    "urwid/canvas.py:CanvasCache.invalidate": (4, 3),
    "urwid/widget/edit.py:Edit.keypress": (6, 5),
})

SHARDS.update({
    "urwid/widget/overlay.py:Overlay.render#fixed": (4, 4),
    "urwid/widget/overlay.py:Overlay.render#flow": (4, 4),
    "urwid/widget/padding.py:Padding.render#fixed": (4, 4),
})

# A contract written for one property also serves the others whose statement depends on the same function
# (the check of each listed property verifies it too).  Keys are registry keys or "module:<contract module>".
ALSO_SERVES = {
    "C08": ["module:contracts.C16_focuslist"],      # container contents are MonitoredFocusLists: focus validity after edits
    "C12": ["urwid/display/_raw_display_base.py:Screen.parse_input", "urwid/display/_raw_display_base.py:Screen.get_available_raw_input"],
    "C01": ["urwid/widget/listbox.py:ListBox.render", "urwid/widget/listbox.py:ListBox.render#empty",  # a box widget like any other
            "urwid/widget/listbox.py:ListBox.calculate_visible", "urwid/widget/listbox.py:ListBox.calculate_visible#empty",
            "urwid/widget/scrollable.py:Scrollable.render", "urwid/widget/scrollable.py:Scrollable._adjust_trim_top", "urwid/widget/scrollable.py:ScrollBar.render"],
    "C07": ["module:contracts.C08_listbox",        # ListBox focus handling
            "module:contracts.C16_focuslist",      # "insertions or deletions in the list": SimpleFocusListWalker is a MonitoredFocusList
            # "rendering a ListBox never raises": the item canvases are padded / trimmed / combined with these
            "urwid/canvas.py:CompositeCanvas.trim#real-fields", "urwid/canvas.py:CompositeCanvas.trim_end#real-fields",
            "urwid/canvas.py:CompositeCanvas.pad_trim_left_right#real-fields", "urwid/canvas.py:CompositeCanvas.pad_trim_top_bottom#real-fields"],
    "C20": ["urwid/canvas.py:cview_trim_top", "urwid/canvas.py:cview_trim_rows", "urwid/canvas.py:cview_trim_cols", "urwid/canvas.py:cview_trim_left"],  # the slice a Scrollable shows is cut with these
    "C10": ["module:contracts.C14_signals",        # 'change' / 'postchange' are delivered by Signals.emit / _call_callback
            # "never inside a multi-byte character", "move by one character": the character stepping of str_util
            "urwid/str_util.py:move_prev_char", "urwid/str_util.py:move_next_char", "urwid/str_util.py:decode_one",
            "urwid/str_util.py:within_double_byte", "urwid/str_util.py:is_wide_char"],
    "C09": [  # "reported cursor == cursor of the focused rendering" also needs the rendering to be the current one: every
              # mutator of a container that moves the focus or the contents invalidates (static effect obligations of C06)
            "effects:urwid.widget.frame.Frame", "effects:urwid.widget.pile.Pile", "effects:urwid.widget.columns.Columns",
            "effects:urwid.widget.overlay.Overlay", "effects:urwid.widget.padding.Padding", "effects:urwid.widget.filler.Filler",
            "effects:urwid.widget.grid_flow.GridFlow", "effects:urwid.widget.box_adapter.BoxAdapter", "effects:urwid.widget.listbox.ListBox"],       # 'change' / 'postchange' are delivered by Signals.emit / _call_callback
    "C06": ["module:contracts.C16_focuslist",      # the 'modified' callback of a contents list is what invalidates its container
            "urwid/widget/listbox.py:ListBox.shift_focus",  # (clause `invalidated`)
            "urwid/canvas.py:CompositeCanvas.trim#real-fields", "urwid/canvas.py:CompositeCanvas.trim_end#real-fields",
            # a cached (finalized) canvas refuses to be padded / trimmed, and padding a wrapper never writes to the lists it shares with the cached canvas
            "urwid/canvas.py:CompositeCanvas.pad_trim_left_right#real-fields", "urwid/canvas.py:CompositeCanvas.pad_trim_top_bottom#real-fields"],
    "C17": ["urwid/display/common.py:AttrSpec.__init__", "urwid/display/common.py:AttrSpec.__set_background"],
    "C03": ["urwid/util.py:calc_trim_text", "urwid/str_util.py:calc_text_pos", "urwid/str_util.py:calc_width",
            # "every character once, in order": the layout cuts lines at offsets found by calc_text_pos (which asks within_double_byte
            # whether a column falls inside a double-byte character) and backs up over characters with move_prev_char / move_next_char /
            # is_wide_char (text_layout.py calculate_text_segments); seed C03-f1 (lead byte 0x81) sat in within_double_byte
            "urwid/str_util.py:within_double_byte", "urwid/str_util.py:move_prev_char", "urwid/str_util.py:move_next_char",
            "urwid/str_util.py:is_wide_char", "urwid/str_util.py:decode_one"],
    "C04": ["urwid/util.py:calc_trim_text"],
}
# C16 "the monitored lists used for container contents": the callbacks those lists call in their owners.  The validators
# (before the list changes: a refusal leaves the list as it was) serve C16 as they stand; the `modified` / focus-changed
# callbacks are verified a second time in the state the list really calls them in (contracts/C16_clients.py).
ALSO_SERVES["C16"] = ["urwid/widget/grid_flow.py:GridFlow._contents_modified",
                      "urwid/widget/pile.py:Pile._contents_modified", "urwid/widget/columns.py:Columns._contents_modified",
                      "urwid/widget/grid_flow.py:GridFlow._invalidate"]
# draw_screen's skip-unchanged-rows test (`osb[y] == row`), its attribute-switch test (`last_attributes != a`) and the
# `a in self._pal_escape` lookup are AttrSpec.__eq__ / __hash__ when AttrSpec objects are canvas attributes; AttrMap's
# attribute dictionaries are keyed by them too: equal exactly when the packed words are equal, hash a function of the word.
_ATTRSPEC_IDENTITY = ["urwid/display/common.py:AttrSpec.__eq__", "urwid/display/common.py:AttrSpec.__hash__", "lemma:equal-attrspecs-have-equal-hashes"]
# C19 "the requested size when it fits beside the fixed margins" for a Padding asked for its natural size (size ())
ALSO_SERVES["C19"] = ["urwid/widget/padding.py:Padding.padding_values#fixed"]
ALSO_SERVES["C04"] = ALSO_SERVES["C04"] + _ATTRSPEC_IDENTITY
ALSO_SERVES["C17"] = ALSO_SERVES["C17"] + _ATTRSPEC_IDENTITY

SHARDS.update({
    "urwid/widget/listbox.py:ListBox.calculate_visible": (16, 14),
    "urwid/widget/listbox.py:ListBox.mouse_event": (4, 6),
    "urwid/widget/listbox.py:ListBox.change_focus": (4, 6),
    "urwid/vterm.py:TermCanvas.csi_set_attr": (12, 6),
    "urwid/vterm.py:TermCanvas.sgi_to_attrspec": (6, 4),
})

SHARDS.update({
    "urwid/widget/listbox.py:ListBox.change_focus#C07-scroll": (4, 6),
})

# ListBox page up / page down: ~2600 paths each, ~45 min on one core -> thorough tier only, 16 shards
THOROUGH_ONLY = THOROUGH_ONLY + (
    "urwid/widget/listbox.py:ListBox._keypress_page_up",
    "urwid/widget/listbox.py:ListBox._keypress_page_down",
)
SHARDS.update({
    "urwid/widget/listbox.py:ListBox._keypress_page_up": (16, 12),
    "urwid/widget/listbox.py:ListBox._keypress_page_down": (16, 12),
})
# contracts/C10_editgeo.py: the two functions that go through the whole chain translation -> cursor cell -> line position
# TextCanvas.content (contracts/C02_content.py): one row in full generality (~190 paths, ~30 s on one core); two rows over the
# whole width (quick); every row window x every column window x with / without a map of two / three rows: ~3 min / ~10 min on one core
SHARDS.update({
    "urwid/canvas.py:TextCanvas.content": (6, 8),
    "urwid/canvas.py:TextCanvas.content#two-rows-any-columns": (8, 8),
    "urwid/canvas.py:TextCanvas.content#three-rows": (16, 10),
})
THOROUGH_ONLY += ("urwid/canvas.py:TextCanvas.content#two-rows-any-columns", "urwid/canvas.py:TextCanvas.content#three-rows")

SHARDS.update({
    "urwid/widget/edit.py:Edit.keypress#up-down-home-end": (8, 9),
    "urwid/widget/edit.py:Edit.move_cursor_to_coords": (6, 4),
    "urwid/widget/edit.py:Edit.get_line_translation": (3, 3),
})
SHARDS.update({
    # palette registration (contracts/C17_palette.py): the first two choices are the None / text alternatives of the two
    # high-colour fields (primary) and name x form of mono (mono-forms)
    "urwid/display/common.py:BaseScreen.register_palette_entry": (4, 2),
    "urwid/display/common.py:BaseScreen.register_palette_entry#mono-forms": (4, 2),
    # (three functions of ~20 s each on one core: two shards keep each below the critical path of the property's
    #  quick run without multiplying the shared prefix work)
    "urwid/widget/pile.py:Pile._get_fixed_rows_sizes": (2, 5),
    "urwid/widget/columns.py:Columns._get_fixed_column_sizes": (2, 5),
    "urwid/widget/columns.py:Columns.get_column_sizes#sized": (2, 5),
})

# contracts/C20_shards.py shards_trim_sides: the full two-shard bound (~5900 paths, ~6 min on one core) in the thorough tier;
# the quick tier verifies the instance "two cviews over none" (the second shard shows only what hangs down from the first)
THOROUGH_ONLY += ("urwid/canvas.py:shards_trim_sides#two-shards",)
SHARDS.update({
    "urwid/canvas.py:shards_trim_sides#two-shards": (16, 8),
})
