"""C14 — registration through the metaclass: `MetaSignals.__init__` (urwid/signals.py), run once per class statement.

Statement: "connecting to a signal name not registered for the sender's class is rejected" (mechanism anchor:
"registration through metaclasses -- MetaSignals, Signals.register"; docstring of MetaSignals: "register the list of
signals in the class variable signals, including signals in superclasses").  What a class statement registers decides
what `connect` accepts for ever after -- for the new class AND, through the list objects it touches, for every other
class: a base's `signals` list that is extended in place makes every later subclass of that base accept foreign names.

Model of a class statement `class C(B0, .., Bk-1): [signals = [...]]` (k <= 3):
  * `d` -- the class namespace: a dict with or without the key "signals" (a list of names);
  * each base Bi -- an object whose VISIBLE attribute `signals` (own or inherited, as `getattr` sees it) is a list of
    names of unknown length, or is absent; two bases may see the very same list object (siblings that inherited it);
  * `cls` -- the new class: `__bases__`; its visible `signals` is the namespace's list if the class body has one, else
    what the first base that has one shows (attribute lookup along the MRO), else absent;
  * names are opaque individuals (kind "SigName"), lists have unknown length.
`register_signal` (`Signals.register`, verified in contracts/C14_disconnect.py: the registry maps the class to exactly
the list it is given) is seen as a ghost event.  `list(dict.fromkeys(xs).keys())` is a builtin model (first occurrences
in order; per-index facts below, cross-checked against CPython by a static check); `type.__init__` is a no-op (pyvc).
The ORDER of the registered names (own, then base by base) is how the collection is pinned down here; the statement
itself only needs the two membership clauses derived from it.

The last clause (what the new class's attribute `signals` shows to ITS subclasses) failed on the tree before /repo fix
ca3255d: `d["signals"] = ...` wrote the namespace dict after type.__new__ had copied it, the attribute of a class
without an own declaration stayed the first base's list, and a grandchild of `class AB(A, B): pass` lost B's names
(found by the bounded check C14/metaclass-inherited-names)."""
import itertools

import z3

from pyvc import seqs as Q
from pyvc import shapes as S
from pyvc import values as V
from pyvc.api import *
from pyvc.seqs import DRef, LRef, ModelObj, SObj
from pyvc.values import cur, mk_bool, mk_int

from urwid import signals as _sig

SG = "urwid/signals.py:"
NAME = Opaque("SigName")
NAMELIST = ListOf(NAME)
MAXBASES = 3


class _Base:  # the class of the model objects standing for base classes (no attributes of its own)
    pass


def length(x):
    return Q.seq_len(x)


def item(x, i):
    return Q.seq_get(x, i)


def cat(parts):
    """The concatenation of sequence values, as a (length, getter) pair written independently of pyvc's seq_concat."""
    lens = [length(p) for p in parts]
    total = 0
    for n in lens:
        total = total + n

    def get(j):
        out, off = None, total
        # from the last part to the first: out = part_k[j - offset_k] if j >= offset_k
        offs, acc = [], 0
        for n in lens:
            offs.append(acc)
            acc = acc + n
        for p, o in reversed(list(zip(parts, offs))):
            v = item(p, j - o)
            out = v if out is None else ite(j >= off, out, v)
            off = o
        return out

    return total, get


def same_content(x, y, i):
    """Same length, and the same value at the (arbitrary) index i."""
    n = length(x)
    return both(length(y) == n, implies(both(i >= 0, i < n), eq(item(x, i), item(y, i))))


# ---- builtin model: list(dict.fromkeys(xs).keys()) = the first occurrences of xs, in order

def dedup_facts(X, R, idx, pos):
    """R = X without repeated values, first occurrences kept in order.  idx: position in X of the j-th kept value
    (strictly increasing); pos: for each position of X the position in R of its value (at or before it in X).
    -> (ground fact, [(lo, hi, per-index fact)]); the per-index facts are instantiated at the indices in play only
    (quantified, idx(pos(i)) / pos(idx(j)) make a matching loop)."""
    n, m = length(X), length(R)
    if isinstance(n, int) and n == 0:
        return m == 0, []
    return both(m >= 0, m <= n), [
        # kept values are values of xs, in order
        (0, m, lambda j: both(idx(j) >= 0, idx(j) < n, eq(item(R, j), item(X, idx(j))), implies(j + 1 < m, idx(j) < idx(j + 1)))),
        # every value of xs is kept
        (0, n, lambda i: both(pos(i) >= 0, pos(i) < m, eq(item(R, pos(i)), item(X, i)), idx(pos(i)) <= i)),
        # no value twice: a kept value sits where its first occurrence says
        (0, m, lambda j: pos(idx(j)) == j),
    ]


class _Fromkeys(ModelObj):
    """dict.fromkeys(xs): only `.keys()` is modelled -- the deduplicated sequence."""

    def __init__(self, st, lst):
        X = Q.to_sseq(lst.seq if isinstance(lst, LRef) else lst, NAME)
        self.arg_list = lst          # the list object handed over
        self.arg = X                 # ... and its content at that moment (a value)
        m = st.fresh_int("dedup_len")
        self.keys_seq = Q.fresh_seq(st, m, NAME, "dedup")
        fi = z3.Function(st.fresh_name("dedup_idx"), z3.IntSort(), z3.IntSort())
        fp = z3.Function(st.fresh_name("dedup_pos"), z3.IntSort(), z3.IntSort())
        self.idx = lambda t: mk_int(fi(V._z(t)))
        self.pos = lambda t: mk_int(fp(V._z(t)))
        ground, per_index = dedup_facts(X, self.keys_seq, self.idx, self.pos)
        st.assume(ground)
        for lo, hi, fn in per_index:
            V.lazy_forall(lo, hi, fn)

    def py_call(self, ip, st, name, args, kwargs):
        if name == "keys" and not args and not kwargs:
            return self.keys_seq
        raise Unsupported(f"dict.fromkeys(...).{name}")


def _ref_dedup(xs):
    out = []
    for x in xs:
        if x not in out:
            out.append(x)
    return out


def _check_dedup_model():
    """The axioms hold of CPython's list(dict.fromkeys(xs).keys()) -- and pin it down -- for every list over 3 values
    of length <= 5."""
    for n in range(6):
        for xs in itertools.product("abc", repeat=n):
            r = list(dict.fromkeys(list(xs)).keys())
            if r != _ref_dedup(xs):
                return False, f"{xs}: {r}"
            idx = [xs.index(v) for v in r]
            pos = [r.index(v) for v in xs]
            ok = (len(r) <= n and all(r[j] == xs[idx[j]] for j in range(len(r))) and all(idx[j] < idx[j + 1] for j in range(len(r) - 1))
                  and all(r[pos[i]] == xs[i] and idx[pos[i]] <= i for i in range(n)) and all(pos[idx[j]] == j for j in range(len(r))))
            if not ok:
                return False, f"axioms fail for {xs}"
    return True, "364 lists"


def _check_type_init():
    """type.__init__(cls, name, bases, ns) changes nothing: neither the class, nor the namespace dict, nor a list in it."""
    lst = ["x"]
    ns = {"signals": lst, "k": 1}
    cls = type("K", (), dict(ns))
    before = (dict(vars(cls)), dict(ns), list(lst), cls.__bases__)
    r = type.__init__(cls, "Other", (int,), ns)
    after = (dict(vars(cls)), dict(ns), list(lst), cls.__bases__)
    return r is None and before == after and cls.__name__ == "K", f"{r!r}"


# ---- the class statement

def fresh_class(st, hint):
    """The new class object as MetaSignals.__init__ finds it (see the module docstring)."""
    k = st.fork(MAXBASES + 1)
    bases = []
    for i in range(k):
        b = SObj(_Base, {})
        how = st.fork(3 if i > 0 and "signals" in bases[i - 1].fields else 2)
        if how == 1:
            b.fields["signals"] = NAMELIST.fresh(st, f"base{i}.signals")
        elif how == 2:
            b.fields["signals"] = bases[i - 1].fields["signals"]  # siblings showing the same inherited list object
        bases.append(b)
    c = SObj(_sig.MetaSignals, {"__bases__": tuple(bases)})
    return c


def visible_signals(bases):
    for b in bases:
        if "signals" in b.fields:
            return b.fields["signals"]
    return None


def _setup(st, self_obj, vals):
    d = vals["d"]
    bases = self_obj.fields["__bases__"]
    own = d.d.get("signals")
    vis = own if own is not None else visible_signals(bases)
    if vis is not None:
        self_obj.fields["signals"] = vis
    st.ghost["events"] = []
    st.ghost["own_ref"] = own
    st.ghost["fromkeys"] = []
    st.ghost["entry"] = dict(own=own.snapshot() if own is not None else None,
                             bases=[b.fields["signals"].snapshot() if "signals" in b.fields else None for b in bases])


def _meta_real(ip, st, f, args, kwargs):
    if f == _sig.register_signal:
        st.ghost["events"].append(("register", *args))
        return None
    if f == dict.fromkeys and len(args) == 1 and not kwargs:
        m = _Fromkeys(st, args[0])
        st.ghost["fromkeys"].append(m)
        return m
    return NotImplemented


NAMESPACE = Custom(lambda st, hint: DRef({"signals": NAMELIST.fresh(st, "own")}) if st.fork(2) else DRef({}), "class namespace")


@contract(SG + "MetaSignals.__init__", property="C14", replayable=False)
class metasignals_init:
    self_shape = Custom(fresh_class, "new class")
    params = dict(name=Opaque("ClassName"), bases=Opaque("BasesArg"), d=NAMESPACE)
    raises = ()
    setup = staticmethod(_setup)
    call_real = staticmethod(_meta_real)

    def ensures(old, s, a, result):
        st = cur()
        entry = st.ghost["entry"]
        bases = s.fields["__bases__"]
        own0 = entry["own"]
        base_lists0 = [b for b in entry["bases"] if b is not None]
        parts = ([own0.seq] if own0 is not None else []) + [b.seq for b in base_lists0]
        n_spec, spec = cat(parts) if parts else (0, None)
        regs = [ev for ev in st.ghost["events"] if ev[0] == "register"]
        yield "registered-exactly-once", len(regs) == 1
        fk = st.ghost["fromkeys"]
        yield "one-deduplication", len(fk) == 1
        if len(regs) != 1 or len(fk) != 1:
            return
        _ev, r_cls, L = regs[0]
        yield "registered-for-the-new-class", r_cls is s
        X, pos, idx = fk[0].arg, fk[0].pos, fk[0].idx
        R = L.seq if isinstance(L, LRef) else ()
        # "for every index": proved for an arbitrary one (universal generalisation; the builtin model's per-index facts
        # are instantiated at the indices in play)
        i, j = V.arbitrary("i"), V.arbitrary("j")
        V.instantiate(i, j)
        in_spec = lambda k: both(k >= 0, k < n_spec)  # noqa: E731
        yield "names-collected-are-own-names-then-each-base's-in-base-order", both(
            length(X) == n_spec, *([implies(in_spec(k), eq(item(X, k), spec(k))) for k in (i, idx(j))] if parts else []))
        yield "registered-list-is-the-deduplicated-collection", isinstance(L, LRef) and L.seq is fk[0].keys_seq
        if not isinstance(L, LRef):
            return
        # ... so, in terms of the lists as they were when the class statement ran (idx / pos: the model's witnesses):
        if parts:
            yield "every-own-and-inherited-name-is-registered", implies(in_spec(i), both(pos(i) >= 0, pos(i) < length(R), eq(item(R, pos(i)), spec(i))))
            yield "nothing-else-is-registered", implies(both(j >= 0, j < length(R)), both(in_spec(idx(j)), eq(item(R, j), spec(idx(j)))))
        else:
            yield "nothing-is-registered", length(R) == 0
        # a NEW list object: later in-place changes of any class's `signals` cannot change this registration, and
        # this registration aliases nobody's class attribute
        own_ref = st.ghost["own_ref"]
        others = [b.fields["signals"] for b in bases if "signals" in b.fields] + ([own_ref] if own_ref is not None else [])
        yield "registered-list-is-a-new-object", all(L is not o for o in others)
        # no base class is touched: its visible list is the same object with the same content as before
        for bi, b in enumerate(bases):
            if "signals" in b.fields:
                yield f"base{bi}-signals-untouched", same_content(b.fields["signals"].seq, entry["bases"][bi].seq, i)
            else:
                yield f"base{bi}-gains-no-attribute", "signals" not in b.fields
        # what SUBCLASSES will read through getattr(superclass, "signals") -- the new class's visible attribute -- must show
        # every name registered for it, or a grandchild loses inherited names: it is the registered list itself, or
        # the class's own declaration extended in place with the inherited names, or (nothing assigned, no own
        # declaration) the first base's list, which is enough only if no other base contributes a list of its own
        vis = s.fields.get("signals")
        base_refs = [b.fields["signals"] for b in bases if "signals" in b.fields]
        if vis is L or (isinstance(vis, LRef) and vis.seq is R):
            shows = True
        elif own_ref is not None and vis is own_ref:
            shows = both(length(own_ref.seq) == n_spec, implies(in_spec(i), eq(item(own_ref.seq, i), spec(i))))
        elif vis is None:
            shows = n_spec == 0
        else:
            shows = both(own_ref is None, *[True if o is vis else length(o.seq) == 0 for o in base_refs])
        yield "class-attribute-shows-every-registered-name-to-subclasses", shows
        yield "returns-None", result is None

    static_checks = [
        lambda: ("builtin-model-dedup-agrees-with-cpython", *_check_dedup_model()),
        lambda: ("type-init-is-a-no-op", *_check_type_init()),
    ]
