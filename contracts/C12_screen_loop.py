"""C12 — MainLoop._run_screen_event_loop: the real body of the built-in loop used for screens without external
event-loop support (curses, web, lcd displays), urwid/event_loop/main_loop.py.

The loop is `while True:` redraw; take the earliest alarm off the SelectEventLoop's heap if none is held; wait for
input (get_input) with a timeout reaching to the held alarm; filter and route the input; run the alarms that
are due; forget the cached size after a resize.  It never returns: it ends with the exception of a callback.

Views and models: `self.event_loop._alarms` is the heap model of contracts/C13_loops.py; the screen, the widget
and the user's functions are opaque protocol objects (contracts/C12_mainloop.py); draw_screen / process_input are
callees under contract; time.time() is non-decreasing.  Rely: every piece of user code run from here (widget
methods inside draw_screen / process_input, input filter, unhandled-input handler, alarm callbacks) may set and
remove alarms: afterwards the heap is arbitrary.

Loops are verified modularly (one arbitrary iteration each), so what the statement says about ORDER is stated per
iteration, over the events since the enclosing iteration of `while True` began:
  loop1 (waiting): each wait is preceded by exactly one redraw, with no user code between them ("the screen is
         redrawn from the resulting widget state before the loop next waits"); it blocks without limit only if no
         alarm is held, otherwise no longer than until that alarm is due.
  loop2 (alarms): the callback run is the held alarm's, run only when due.
  loop0: the redraw comes first; input goes to the input filter (with the raw codes), what the filter returns to
         process_input, once, before any alarm callback; a resize in the routed batch forgets the cached size."""
import copy
import heapq
import time

import z3

from pyvc import seqs as Q
from pyvc import shapes as S
from pyvc import values as V
from pyvc.api import *
from pyvc.api import PROTOCOLS
from pyvc.values import SReal, cur, mk_bool

from contracts import C12_mainloop as M
from contracts.C12_mainloop import ML, MAINLOOP, fresh_keys, holds_resize
from contracts.C13_loops import CB, SHeap, _real, hle
from urwid.event_loop import main_loop as _ml
from urwid.event_loop import select_loop as _sl
from urwid.event_loop.abstract_loop import ExitMainLoop


def _fresh_mainloop(st, hint):
    o = MAINLOOP.fresh(st, hint)
    o.fields["event_loop"] = Q.SObj(_sl.SelectEventLoop, dict(_alarms=SHeap(st, "alarms")))
    st.ghost["rsel_self"] = o
    return o


MAINLOOP_S = Custom(_fresh_mainloop, "MainLoop with its SelectEventLoop")
MAINLOOP_S.fields = MAINLOOP.fields


def _user_code_ran(st):
    """Rely: user code may call MainLoop.set_alarm_in / set_alarm_at / remove_alarm any number of times."""
    o = st.ghost.get("rsel_self")
    st.ghost["last_lookup"] = None
    st.ghost["last_pop"] = None
    if o is not None:
        st.ghost["heap_before_user_code"] = o.fields["event_loop"].fields["_alarms"].snapshot()
        o.fields["event_loop"].fields["_alarms"] = SHeap(st, "alarms")


def _fresh_alarm(st, hint):
    nm = st.fresh_name(hint)
    h = (SReal(z3.Real(f"{nm}_t")), st.fresh_int("tie"), V.SOpaque("LoopCallback", z3.Const(f"{nm}_cb", CB)))
    return V.SOpt(z3.Bool(f"{nm}_none"), h)


def _with_effects(c, name, **extra):
    """The registered contract `c`, plus -- for this task only -- a ghost event in the common trace and the rely above."""
    d = copy.copy(c)
    old_eff = getattr(c, "effects", None)

    def effects(old, s, a, result):
        if old_eff is not None:
            old_eff(old, s, a, result)
        cur().event(name, *[a._d.get(k) for k in extra.get("args", ())])
        _user_code_ran(cur())

    def on_raise_callee(old, s, a, exc):
        cur().event(name, "raised")
        _user_code_ran(cur())
        return ()

    d.effects = effects
    d.on_raise_callee = on_raise_callee
    return d


def _sig(st, since):
    """The significant events since index `since` of the trace, in order."""
    out = []
    for ev in st.trace[since:]:
        if ev[0] in ("redraw", "wait", "userfn", "process_input", "callback"):
            out.append(ev)
    return out


def _names(evs):
    return [e[0] for e in evs]


def _opt_none(x):
    if x is None:
        return True
    if isinstance(x, V.SOpt):
        return mk_bool(x.isnone)
    return False


def _outer_inv(v):
    st = cur()
    if v.trace_mark_ is None:
        st.ghost["outer_mark"] = len(st.trace)  # where the arbitrary iteration of `while True` begins
        return True
    # the end of an iteration of `while True` that ran to completion
    evs = _sig(st, v.trace_mark_)
    names = _names(evs)
    r = both(len(names) >= 1 and names[0] == "redraw", names.count("redraw") == 1)
    # input pipeline of this iteration: filter (if any) once, then process_input once with what the filter returned,
    # both before any alarm callback
    batch = v.keys
    cb_at = [i for i, n in enumerate(names) if n == "callback"]
    first_cb = cb_at[0] if cb_at else len(names)
    uf = [i for i, n in enumerate(names) if n == "userfn"]
    pi = [i for i, n in enumerate(names) if n == "process_input"]
    r = both(r, len(pi) <= 1, all(i < first_cb for i in uf + pi))
    if not bool(_opt_none(v.self._input_filter)):
        r = both(r, len(uf) == 1 and (not pi or uf[0] < pi[0]))
    else:
        r = both(r, not uf)
    if pi:
        r = both(r, evs[pi[0]][1] is batch)
    if uf:
        r = both(r, len(evs[uf[0]][2]) == 2 and evs[uf[0]][2][1] is v.raw and isinstance(evs[uf[0]][2][0], Q.LRef))
    # whatever the filter lets through is routed: process_input exactly when the batch is not empty
    r = both(r, eq(Q.seq_len(batch) > 0, len(pi) == 1))
    # a resize among the routed events makes the loop forget the cached size (the next redraw asks the screen)
    if isinstance(batch, Q.LRef) and hasattr(batch.seq, "kind_fn"):
        r = both(r, implies(holds_resize(batch), _opt_none(v.self.screen_size)))
    return r


def _wait_inv(v):
    st = cur()
    if v.trace_mark_ is None:
        return True
    evs = _sig(st, st.ghost["outer_mark"])
    names = _names(evs)
    waits = [e for e in evs if e[0] == "wait"]
    # "redrawn ... before the loop next waits": one redraw, then nothing but this wait
    r = names == ["redraw", "wait"]
    if len(waits) != 1:
        return False
    timeout, now = waits[0][1], waits[0][2]
    held = st.force(v.next_alarm) if isinstance(v.next_alarm, V.SOpt) else v.next_alarm  # (not assigned in this loop)
    if held is None:
        r = both(r, timeout is None)   # blocks without limit only if no alarm is held
    else:
        r = both(r, timeout is not None and not isinstance(timeout, str) and bool(timeout <= imax(0, held[0] - now)) and bool(timeout >= 0))
    return r


def _alarm_inv(v):
    st = cur()
    if v.trace_mark_ is None:
        return
    evs = [e for e in st.trace[v.trace_mark_:] if e[0] == "callback"]
    # one callback per iteration: the held alarm's own, and only when it is due
    yield "the-held-alarms-callback-once-and-only-when-due", both(len(evs) == 1 and bool(eq(evs[0][1], v.callback)), st.ghost["now"] >= v._tm)
    # OBSERVATION (not a clause: neither C12's statement nor C13's "each bundled event loop" covers the alarm order of
    # this fallback loop): the loop takes the earliest alarm off the heap and HOLDS it (next_alarm) while it waits for
    # input; an alarm set meanwhile by an input handler with an earlier due time stays in the heap until the held one
    # has fired: loop.set_alarm_in(0.6, late); key "a" at 0.1 -> handler: loop.set_alarm_in(0.1, early) => `early` (due
    # 0.2) runs at 0.6, after `late`; for the same reason remove_alarm() of the held alarm answers False and the alarm
    # still runs.  A clause "no alarm due earlier is still waiting when an alarm runs" fails on the tree for exactly
    # this history; it was removed as demanding more than the property states (DESIGN.md 9.5).


def _rsel_real(ip, st, f, args, kwargs):
    return _real(ip, st, f, args, kwargs)


def _rsel_setup(st, self_obj, vals):
    st.ghost["rsel_self"] = self_obj
    f = self_obj.fields["_input_filter"]
    f.val.meta["role"] = "filter"
    st.ghost["filtered_keys"] = fresh_keys(st, "filtered")
    st.ghost["outer_mark"] = 0


@contract(ML + "MainLoop._run_screen_event_loop", property="C12", replayable=False, inline=(ML + "MainLoop.input_filter",), abstract_contains=True)
class run_screen_event_loop:
    self_shape = MAINLOOP_S
    raises = (BaseException,)
    log_event = "_run_screen_event_loop"
    setup = staticmethod(_rsel_setup)
    call_real = staticmethod(_rsel_real)
    callback_havoc = staticmethod(_user_code_ran)
    userfn_havoc = staticmethod(_user_code_ran)
    contract_overrides = {
        ML + "MainLoop.draw_screen": _with_effects(M.draw_screen, "redraw"),
        ML + "MainLoop.process_input": _with_effects(M.process_input, "process_input", args=("keys",)),
    }

    never_returns = True  # (callers: no reach@after guard is owed for a call that cannot return)

    def ensures(old, s, a, result):
        yield "never-returns-normally (it ends with the exception of a callback)", False

    def on_raise(old, s, a, exc):
        # "ExitMainLoop ends run() normally and any other exception propagates unchanged": nothing is caught or
        # wrapped in here -- what leaves is what user code raised (MainLoop._run / run deal with it)
        yield "the-exception-is-the-one-user-code-raised", str(exc.site) in ("user callback",) or "callee MainLoop.draw_screen" in str(exc.site) or "callee MainLoop.process_input" in str(exc.site)

    def on_raise_callee(old, s, a, exc):
        return ()

    loops = {
        0: Loop(invariant=_outer_inv, shapes={"next_alarm": Custom(_fresh_alarm), "keys": Custom(fresh_keys), "raw": Opaque("RawCodes")},
                modifies=("self.screen_size",)),
        1: Loop(invariant=_wait_inv, shapes={"keys": Custom(fresh_keys), "raw": Opaque("RawCodes")}),
        2: Loop(invariant=_alarm_inv, shapes={"next_alarm": Custom(_fresh_alarm)}, modifies=("self.screen_size",)),
    }
