"""C01 — BigText, the bundled fixed widget: render(()) is exactly pack(()).

The font is an opaque protocol object (urwid.font.Font): `height` (positive: the constructor refuses anything else),
`char_width(ch)` (0 for a character the font does not have) and `render(ch)`, a canvas of char_width(ch) columns and
`height` rows.  The natural width is the sum of the character widths: spec function BW (prefix sums over the text),
defined by its one-step unfolding, instantiated groundly at the loop index."""
import z3

from pyvc import seqs as Q
from pyvc import values as V
from pyvc.api import *
from pyvc.api import PROTOCOLS
from pyvc.protocol import PMethod, Protocol
from pyvc.values import cur, is_none, mk_bool, mk_int
from contracts.proto_widget import *
from contracts.proto_widget import JoinFold, JoinList

from urwid import canvas as _canvas
from urwid.widget import big_text as _bt

BT = "urwid/widget/big_text.py:"


def _ens_font_render(st, font, a, canv):
    P = PROTOCOLS["Font"]
    w = P.call_quiet(st, font, "char_width", dict(character=a["character"]))
    h = P.getattr(None, st, font, "height")
    return [canv.fields["ncols"] == w, canv.fields["nrows"] == h, mk_bool(canv.fields["cursor"].isnone), neg(canv.fields["noshards"]),
            canv.fields["top_off"] == 0, canv.fields["left_off"] == 0]


class FontProtocol(Protocol):
    kind = "Font"
    methods = {
        "char_width": PMethod(Dim, params=["character"]),
        "render": PMethod(canvas_shape(_canvas.TextCanvas), params=["character"], ensures=_ens_font_render),
    }
    attrs = {"height": Int(1, PARTMAX - 1)}
    has = {"char_width": True, "render": True}


PROTOCOLS["Font"] = FontProtocol()
PROTOCOLS.setdefault("Attr", type("AttrProtocol", (Protocol,), {"kind": "Attr", "methods": {}})())
FONT = Opaque("Font")
BIGTEXT = Obj(_bt.BigText, dict(text=Text("str"), attrib=ListOf(Tup(Opt(Opaque("Attr")), Nat)), font=FONT))


def font_height(s):
    return PROTOCOLS["Font"].getattr(None, cur(), s.font, "height")


def cw(s, j):
    """char_width of the j-th character of the text"""
    return PROTOCOLS["Font"].call_quiet(cur(), s.font, "char_width", dict(character=s.text.get(j)))


def BW(s, i):
    """Sum of the character widths of the first i characters (uninterpreted; unfolded by bw_unfold)."""
    f = z3.Function("BigText.BW", z3.IntSort(), z3.IntSort())
    cur().assume(mk_bool(f(z3.IntVal(0)) == 0))
    return mk_int(f(V._z(i)))


def bw_unfold(s, i):
    """BW(i+1) = BW(i) + cw(i) for 0 <= i < len(text) (definition, ground instance); BW >= 0 there."""
    n = s.text.length
    cur().assume(implies(both(0 <= i, i < n), both(BW(s, i + 1) == BW(s, i) + cw(s, i))))


@lemma("bigtext-width-nonnegative", property="C01")
class bw_nonneg:
    """BW(i) >= 0 for 0 <= i <= len(text), by induction on i: BW(0) = 0; BW(i+1) = BW(i) + cw(i) with cw(i) >= 0."""
    params = dict(s=Int, t=Int)

    def requires(x):
        return both(x.s >= 0, x.t >= 0)  # induction hypothesis BW(i) = s >= 0, the next width t >= 0

    def claim(x):
        yield "base", 0 >= 0
        yield "step", x.s + x.t >= 0


def bw_nonnegative(s, i):
    """Instance of lemma `bigtext-width-nonnegative` at i."""
    cur().assume(implies(both(0 <= i, i <= s.text.length), BW(s, i) >= 0))


@contract(BT + "BigText.pack", property="C01", replayable=False)
class bigtext_pack:
    self_shape = BIGTEXT
    params = dict(size=Union(Tup(), Const(None)), focus=Bool)
    result = Tup(Int, Int)
    raises = ()

    def ensures(old, s, a, result):
        n = old.text.length
        yield "cols-are-the-sum-of-the-character-widths", result[0] == BW(old, n)
        yield "rows-are-the-fonts-height", result[1] == font_height(old)
        yield "at-least-one-row", result[1] >= 1
        bw_nonnegative(old, n)
        yield "cols-nonnegative", result[0] >= 0

    def _loop(v):
        i = v.i_
        bw_unfold(v.self, i - 1)
        bw_unfold(v.self, i)
        yield "cols-so-far", v.cols == BW(v.self, i)

    loops = {0: Loop(invariant=_loop)}


@contract("urwid/canvas.py:TextCanvas.__init__", property=(), assumed=True,
          notes="canvas protocol, the form BigText.render uses for a text without drawable characters: TextCanvas(lines, maxcol=m, "
                "check_width=False) is m columns wide and has one row per line, no cursor (TextCanvas.__init__: _maxcol = maxcol, "
                "rows() = len(text)); owned by C02")
class textcanvas_init:
    constructs = canvas_shape(_canvas.TextCanvas)
    ctor_params = ("text", "attr", "cs", "cursor", "maxcol", "check_width")
    ctor_defaults = dict(text=None, attr=None, cs=None, cursor=None, maxcol=None, check_width=True)

    def requires(a):
        return both(a.check_width is False, a.attr is None, a.cs is None, a.cursor is None, a.maxcol is not None, a.text is not None)

    def ensures(old, s, a, result):
        yield "size", both(s.ncols == a.maxcol, s.nrows == Q.seq_len(a.text), mk_bool(s.cursor.isnone), neg(s.noshards))


@lemma("attribute-runs-total-nonnegative", property="C01")
class runs_nonneg:
    """R(k) >= 0 for 0 <= k <= len(attrib), R the prefix sums of the (non-negative) run lengths: induction on k."""
    params = dict(s=Int, t=Int)

    def requires(x):
        return both(x.s >= 0, x.t >= 0)

    def claim(x):
        yield "base", 0 >= 0
        yield "step", x.s + x.t >= 0


def R(p, k):
    """Total length of the first k attribute runs of the widget."""
    return Q.comp_psum(p.attrib, 1, k)


def _walk_invariant(v):
    """The attribute walk never runs off the run list: `attrib` is the widget's runs plus a final run as long as the
    text, so while characters remain either the current run still has `ak` of them (i + ak = total of the runs fetched,
    which stays below the grand total) or a zero-length run was met (ak < 0: nothing is fetched any more)."""
    p, i = v.self, v.i_
    A = p.attrib
    m, n = Q.seq_len(A), p.text.length
    ai, ak = v.ai, v.ak
    Q.comp_psum_unfold(A, 1, ai)
    Q.comp_psum_unfold(A, 1, ai - 1)
    cur().assume(R(p, m) >= 0)  # instance of lemma attribute-runs-total-nonnegative at len(attrib)
    fetched = ite(ai <= m, R(p, ai), R(p, m) + n)
    yield "runs-fetched-in-range", both(0 <= ai, ai <= m + 1)
    yield "current-run-accounts-for-the-characters-seen", either(ak < 0, both(ak >= 0, i + ak == fetched))


def _render_loop(v):
    yield from _walk_invariant(v)
    p = v.self
    i = v.i_
    bw_unfold(p, i - 1)
    bw_unfold(p, i)
    bw_nonnegative(p, i)
    f = JoinFold.of(v.o)
    h = font_height(p)
    yield "joined-width-is-the-width-so-far", f["cols"] == BW(p, i)
    yield "every-part-fits-its-width", f["ok"]
    yield "parts-are-font-height-tall", f["rows"] == ite(f["n"] > 0, h, 0)
    yield "nothing-drawn-nothing-wide", both(f["n"] >= 0, implies(f["n"] == 0, BW(p, i) == 0))
    yield "no-cursor", neg(f["has"])
    yield "rows-is-the-fonts-height", v.rows == h


@contract(BT + "BigText.render", property="C01", replayable=False, inline=("urwid/widget/widget.py:fixed_size",))
class bigtext_render:
    """Fixed sizing: the canvas is exactly pack(()) -- the sum of the character widths by the font's height -- for every
    text, the empty one and one without a single drawable character included (0 columns, `height` rows)."""
    self_shape = BIGTEXT
    params = dict(size=Tup(), focus=Bool)
    result = CCANVAS
    raises = ()

    def ensures(old, s, a, r):
        n = old.text.length
        yield "cols-equal-own-packs", r.ncols == BW(old, n)
        yield "rows-equal-own-packs", r.nrows == font_height(old)
        yield "no-cursor", is_none(r.cursor)

    loops = {0: Loop(invariant=_render_loop, shapes={"o": JoinList()})}


from contracts.C01_leafs import ANYSIZE, _inherited_sizing  # noqa: E402
from urwid.widget.constants import Sizing  # noqa: E402

bigtext_sizing = _inherited_sizing("BigText", BIGTEXT, (Sizing.FIXED,))


@contract("urwid/widget/widget.py:fixed_size", property="C01", replayable=False)
class fixed_size_c:
    """The guard of fixed-only widgets: accepts exactly the empty size, ValueError (the documented error) for any other."""
    params = dict(size=ANYSIZE)
    raises = (ValueError,)
    raises_iff = {ValueError: lambda a: len(a.size) != 0}

    def ensures(a, result):
        yield "only-the-empty-size-passes", len(a.size) == 0

    def on_raise(a, exc):
        yield "only-for-a-size-that-is-not-empty", len(a.size) != 0


@contract(BT + "BigText.render", property="C01", alias="wrong-mode", replayable=False)
class bigtext_render_wrong_mode:
    """sizing() tells the truth: a flow or box size is refused with ValueError before anything is drawn."""
    self_shape = BIGTEXT
    params = dict(size=Union(Tup(Int), Tup(Int, Int)), focus=Bool)
    raises = (ValueError,)

    def ensures(old, s, a, r):
        yield "never-answers", False

    def on_raise(old, s, a, exc):
        yield "nothing-asked-of-the-font", len([ev for ev in cur().trace if ev[0] == "call"]) == 0
