"""C13 — ZMQEventLoop: contracts on the real methods of urwid/event_loop/zmq_loop.py (same scheme as the
SelectEventLoop contracts of contracts/C13_loops.py, whose heap / map / counter models are reused).

Views: alarms = multiset of handles (due time, tie-break, callback) kept as a heap; watch = map key -> callback
(`_queue_callbacks`; a key is a zmq socket or the fileno of a watched file -- both abstracted to integer ids,
which only adds collisions that cannot happen in CPython: an over-approximation); idle = map handle -> callback.

The zmq Poller is opaque (SPoller, trusted -- see `POLLER_NOTES`): register / unregister keep a set of keys,
unregister raises KeyError for an unknown key, poll(t) returns (key, event) pairs for ANY subset of the registered
keys, or raises ZMQError.  Class invariant: the poller's keys are exactly the keys of `_queue_callbacks`.
time.time() is non-decreasing; time.sleep(d) advances it by at least d.  User callbacks are opaque, may raise
anything and may re-enter the loop's public operations (rely: the eight operations proved below keep the class
invariant and the counters' monotonicity, nothing else is assumed after a callback)."""
import errno
import heapq
import os
import time

import z3
import zmq

from pyvc import seqs as Q
from pyvc import shapes as S
from pyvc import values as V
from pyvc.api import *
from pyvc.api import PROTOCOLS
from pyvc.engine import PyRaise, SExc
from pyvc.protocol import OpaqueCall, Protocol
from pyvc.seqs import ModelObj
from pyvc.values import SReal, cur, mk_bool, mk_int

from contracts.C13_loops import CB, SCounter, SHeap, SMap, _guard, _real, same_multiset_except, stored_ties_below
from urwid.event_loop import zmq_loop as _zl
from urwid.event_loop.abstract_loop import ExitMainLoop

ZL = "urwid/event_loop/zmq_loop.py:"
ZMQError = zmq.error.ZMQError

POLLER_NOTES = ("zmq.Poller (external, opaque): register(key, flags) adds the key (re-registering keeps it), unregister(key) "
                "removes it or raises KeyError when it is not registered, poll(timeout) returns (key, event) pairs of "
                "registered keys only (any subset, distinct keys; for a file object the key is its fileno) or raises "
                "ZMQError; a file object is identified with its fileno")

_FILENO = z3.Function("File.fileno", S.opaque_sort("File"), z3.IntSort())


class FileProtocol(Protocol):
    """A file object (io.TextIOWrapper): only fileno() is used; it is not an int."""
    kind = "File"
    methods = {}

    def getattr(self, ip, st, obj, name):
        if name == "fileno":
            return OpaqueCall(obj, name, self)
        raise Unsupported(f"attribute {name} of a file object")

    def call(self, ip, st, recv, name, args, kwargs):
        return mk_int(_FILENO(recv.e))

    def isinstance(self, ip, st, obj, cls):
        return False if cls is int else NotImplemented


PROTOCOLS["File"] = FileProtocol()


def key_of(x):
    """The poller's / the callback map's key for a watched thing: a socket id itself, a file's fileno."""
    if isinstance(x, V.SOpaque) and x.kind == "File":
        return mk_int(_FILENO(x.e))
    return x


class SReady(ModelObj):
    """dict(poller.poll(..)): the ready keys (distinct, all registered when polled)."""

    def __init__(self, st, reg):
        self.n = st.fresh_int("nready")
        st.assume(self.n >= 0)
        nm = st.fresh_name("ready")
        fk = z3.Function(f"{nm}$key", z3.IntSort(), z3.IntSort())

        def getter(j):
            k = mk_int(fk(V._z(j)))
            cur().assume(reg(k))
            return k

        self.keys = Q.SSeq(self.n, getter, None, None, "ready")

    def py_truth(self, st):
        return self.n > 0

    def py_iter(self, ip, st):
        return self.keys


class SPoller(ModelObj):
    def __init__(self, st, name="poller"):
        nm = st.fresh_name(name)
        fr = z3.Function(f"{nm}$reg", z3.IntSort(), z3.BoolSort())
        self.reg = lambda k: mk_bool(fr(V._z(k)))

    def py_call(self, ip, st, name, args, kwargs):
        if name == "register":
            k = key_of(args[0])
            oreg = self.reg
            self.reg = lambda x: either(oreg(x), eq(x, k))
            st.event("poller.register", k)
            return None
        if name == "unregister":
            k = key_of(args[0])
            oreg = self.reg
            if not st.branch(oreg(k)):
                raise PyRaise(SExc(KeyError, ("<not registered>",), site="poller.unregister"))
            self.reg = lambda x: both(oreg(x), neg(eq(x, k)))
            st.event("poller.unregister", k)
            return None
        if name == "poll":
            timeout = args[0] if args else kwargs.get("timeout")
            st.event("wait", timeout, st.ghost.get("now"))
            if st.fork(2) == 1:
                raise PyRaise(_zmq_error(st, "poller.poll"))
            return SReady(st, self.reg)
        raise Unsupported(f"poller.{name}")


def _zmq_error(st, site):
    e = SExc(ZMQError, ("<zmq error>",), site=site)
    e.attrs["errno"] = st.fresh_int("errno")
    return e


def poller_matches(s):
    """Class invariant: registered with the poller <=> has a callback."""
    k = V.SInt(z3.Int("anykey"))
    return mk_bool(z3.ForAll([k.e], V._zb(eq(s._poller.reg(k), s._queue_callbacks.has(k)))))


def _fresh_zmq(st, hint):
    o = Q.SObj(_zl.ZMQEventLoop, dict(
        _alarms=SHeap(st, "alarms"), _queue_callbacks=SMap(st, "queues"), _idle_callbacks=SMap(st, "idle"),
        _idle_handle=st.fresh_int("idle_handle"), _alarm_break=SCounter(st, "tie"), _did_something=st.fresh_bool("did"),
        _poller=SPoller(st)))
    st.assume(o.fields["_alarms"].max_tie <= o.fields["_alarm_break"].value)
    k = z3.Int(st.fresh_name("qk"))
    st.assume(z3.ForAll([k], z3.Implies(V._zb(o.fields["_idle_callbacks"].has(V.SInt(k))), k <= V._z(o.fields["_idle_handle"]))))
    st.assume(poller_matches(o))
    return o


ZLOOP = Custom(_fresh_zmq, "ZMQEventLoop")
ZLOOP.fields = {}


def _zreal(ip, st, f, args, kwargs):
    if f is time.sleep:
        d = args[0]
        st.event("sleep", d, st.ghost.get("now"))
        prev = st.ghost.get("now")
        if prev is not None:
            st.ghost["now"] = prev + d  # the clock has advanced by at least d
        return None
    if f is dict and len(args) == 1 and isinstance(args[0], SReady):
        return args[0]  # dict of (key, event) pairs with distinct keys: truthiness and iteration are those of the keys
    if f is os.fdopen:
        fd = args[0]
        fo = V.SOpaque("File", z3.Const(st.fresh_name("fdopen"), S.opaque_sort("File")))
        st.assume(mk_int(_FILENO(fo.e)) == fd)
        st.event("fdopen", fd, kwargs.get("closefd"))
        return fo
    return _real(ip, st, f, args, kwargs)


def _smap_pop(self, ip, st, name, args, kwargs, _old=SMap.py_call):
    """dict.pop(k, default) on a symbolic map (the default is returned -- and nothing changes -- if k is absent)."""
    if name == "pop" and len(args) == 2:
        k = key_of(st.force(args[0]))
        if st.branch(self.has(k)):
            v = self.val(k)
            oh = self.has
            self.size = self.size - 1
            self.has = lambda x: both(oh(x), neg(eq(x, k)))
            return v
        return args[1]
    return _old(self, ip, st, name, args, kwargs)


SMap.py_call = _smap_pop


def _zsetup(st, self_obj, vals):
    st.ghost["loop_obj"] = self_obj
    st.ghost["did_at_entry"] = self_obj.fields["_did_something"]
    st.assume(stored_ties_below(self_obj.fields["_alarms"], self_obj.fields["_alarm_break"].value))


def untouched_maps(old, s, *names):
    k = V.SInt(z3.Int("anyk"))
    out = []
    for nm in names:
        o, n = getattr(old, nm), getattr(s, nm)
        if isinstance(o, SMap):
            out.append(mk_bool(z3.ForAll([k.e], V._zb(both(eq(n.has(k), o.has(k)), eq(n.val(k), o.val(k)))))))
        elif isinstance(o, SPoller):
            out.append(mk_bool(z3.ForAll([k.e], V._zb(eq(n.reg(k), o.reg(k))))))
        elif isinstance(o, SHeap):
            out.append(both(n.n == o.n, n.cnt is o.cnt))
        else:
            out.append(eq(n, o))
    return both(*out)


# ---- alarms

@contract(ZL + "ZMQEventLoop.alarm", property="C13", replayable=False)
class z_alarm:
    self_shape = ZLOOP
    params = dict(seconds=Int, callback=Opaque("LoopCallback"))
    call_real = staticmethod(_zreal)
    setup = staticmethod(_zsetup)
    invariant = staticmethod(poller_matches)

    def ensures(old, s, a, result):
        st = cur()
        tm, tie, cb = result
        yield "due-time-is-now-plus-delay", eq(tm, st.ghost["now"] + a.seconds)
        yield "carries-the-callback", eq(cb, a.callback)
        yield "fresh-handle", both(tie == old._alarm_break.value, old._alarms.cnt(result) == 0)
        yield "exactly-this-handle-added", both(s._alarms.n == old._alarms.n + 1, same_multiset_except(s._alarms, old._alarms, result, 1))
        yield "heap-order-kept", s._alarms.heap is True
        yield "ties-stay-below-the-counter", stored_ties_below(s._alarms, s._alarm_break.value)
        yield "nothing-else-touched", untouched_maps(old, s, "_queue_callbacks", "_idle_callbacks", "_poller", "_did_something", "_idle_handle")


@contract(ZL + "ZMQEventLoop.remove_alarm", property="C13", replayable=False)
class z_remove_alarm:
    self_shape = ZLOOP
    params = dict(handle=Tup(Int, Int, Opaque("LoopCallback")))
    result = Bool
    call_real = staticmethod(_zreal)
    invariant = staticmethod(poller_matches)

    def ensures(old, s, a, result):
        present = old._alarms.cnt(a.handle) > 0
        yield "reports-whether-it-was-pending", eq(result, present)
        if result:
            yield "exactly-this-handle-removed", both(s._alarms.n == old._alarms.n - 1, same_multiset_except(s._alarms, old._alarms, a.handle, -1))
        else:
            yield "nothing-changed", both(s._alarms.n == old._alarms.n, same_multiset_except(s._alarms, old._alarms, a.handle, 0))
        yield "heap-order-restored", s._alarms.heap is True
        yield "nothing-else-touched", untouched_maps(old, s, "_queue_callbacks", "_idle_callbacks", "_poller", "_did_something", "_idle_handle")


# ---- watches

def _others_untouched(old, s, key):
    k = V.SInt(z3.Int("anykey"))
    return mk_bool(z3.ForAll([k.e], V._zb(implies(neg(eq(k, key)), both(
        eq(s._queue_callbacks.has(k), old._queue_callbacks.has(k)), eq(s._queue_callbacks.val(k), old._queue_callbacks.val(k)),
        eq(s._poller.reg(k), old._poller.reg(k)))))))


@contract(ZL + "ZMQEventLoop.watch_queue", property="C13", replayable=False)
class z_watch_queue:
    self_shape = ZLOOP
    params = dict(queue=Int, callback=Opaque("LoopCallback"), flags=Int)
    result = Int
    raises = (ValueError,)
    invariant = staticmethod(poller_matches)

    def ensures(old, s, a, result):
        yield "was-not-watched-before", neg(old._queue_callbacks.has(a.queue))
        yield "handle-is-the-queue", result == a.queue
        yield "watched-with-that-callback", both(s._queue_callbacks.has(a.queue), eq(s._queue_callbacks.val(a.queue), a.callback))
        yield "polled", s._poller.reg(a.queue)
        yield "others-untouched", _others_untouched(old, s, a.queue)
        yield "nothing-else-touched", untouched_maps(old, s, "_idle_callbacks", "_did_something", "_idle_handle", "_alarms")

    def on_raise(old, s, a, exc):
        yield "only-a-queue-already-watched-is-refused", old._queue_callbacks.has(a.queue)
        yield "nothing-changed", untouched_maps(old, s, "_queue_callbacks", "_poller", "_idle_callbacks", "_did_something", "_idle_handle", "_alarms")


@contract(ZL + "ZMQEventLoop.watch_file", property="C13", replayable=False)
class z_watch_file:
    self_shape = ZLOOP
    params = dict(fd=Union(Int, Opaque("File")), callback=Opaque("LoopCallback"), flags=Int)
    call_real = staticmethod(_zreal)
    invariant = staticmethod(poller_matches)

    def ensures(old, s, a, result):
        st = cur()
        fd = st.force(a.fd)
        key = key_of(fd)
        opened = [ev for ev in st.trace if ev[0] == "fdopen"]
        if isinstance(fd, V.SOpaque):
            yield "a-file-object-is-its-own-handle", both(result is fd, not opened)
        else:
            yield "the-handle-is-a-file-object-for-the-descriptor-which-stays-the-callers", both(
                isinstance(result, V.SOpaque) and result.kind == "File", mk_int(_FILENO(result.e)) == fd, len(opened) == 1 and opened[0][2] is False)
        yield "watched-under-its-fileno-with-that-callback", both(s._queue_callbacks.has(key), eq(s._queue_callbacks.val(key), a.callback))
        yield "polled", s._poller.reg(key)
        yield "others-untouched", _others_untouched(old, s, key)
        yield "nothing-else-touched", untouched_maps(old, s, "_idle_callbacks", "_did_something", "_idle_handle", "_alarms")


def _removal_claims(old, s, key, result):
    yield "reports-whether-it-was-watched", eq(result, old._queue_callbacks.has(key))
    yield "no-longer-watched-nor-polled", both(neg(s._queue_callbacks.has(key)), neg(s._poller.reg(key)))
    yield "others-untouched", _others_untouched(old, s, key)
    yield "nothing-else-touched", untouched_maps(old, s, "_idle_callbacks", "_did_something", "_idle_handle", "_alarms")


@contract(ZL + "ZMQEventLoop.remove_watch_queue", property="C13", replayable=False)
class z_remove_watch_queue:
    self_shape = ZLOOP
    params = dict(handle=Int)
    result = Bool
    invariant = staticmethod(poller_matches)

    def ensures(old, s, a, result):
        yield from _removal_claims(old, s, a.handle, result)


@contract(ZL + "ZMQEventLoop.remove_watch_file", property="C13", replayable=False)
class z_remove_watch_file:
    self_shape = ZLOOP
    params = dict(handle=Opaque("File"))
    result = Bool
    invariant = staticmethod(poller_matches)

    def ensures(old, s, a, result):
        yield from _removal_claims(old, s, key_of(a.handle), result)


# ---- idle

@contract(ZL + "ZMQEventLoop.enter_idle", property="C13", replayable=False)
class z_enter_idle:
    self_shape = ZLOOP
    params = dict(callback=Opaque("LoopCallback"))
    result = Int
    invariant = staticmethod(poller_matches)

    def ensures(old, s, a, result):
        yield "fresh-handle", both(neg(old._idle_callbacks.has(result)), result == old._idle_handle + 1, s._idle_handle == result)
        yield "registered", both(s._idle_callbacks.has(result), eq(s._idle_callbacks.val(result), a.callback))
        k = V.SInt(z3.Int("anyh"))
        yield "others-untouched", mk_bool(z3.ForAll([k.e], V._zb(implies(neg(eq(k, result)), both(eq(s._idle_callbacks.has(k), old._idle_callbacks.has(k)), eq(s._idle_callbacks.val(k), old._idle_callbacks.val(k)))))))
        yield "nothing-else-touched", untouched_maps(old, s, "_queue_callbacks", "_poller", "_did_something", "_alarms")


@contract(ZL + "ZMQEventLoop.remove_enter_idle", property="C13", replayable=False)
class z_remove_enter_idle:
    self_shape = ZLOOP
    params = dict(handle=Int)
    result = Bool
    invariant = staticmethod(poller_matches)

    def ensures(old, s, a, result):
        yield "reports-whether-it-was-registered", eq(result, old._idle_callbacks.has(a.handle))
        yield "no-longer-registered", neg(s._idle_callbacks.has(a.handle))
        k = V.SInt(z3.Int("anyh"))
        yield "others-untouched", mk_bool(z3.ForAll([k.e], V._zb(implies(neg(eq(k, a.handle)), both(eq(s._idle_callbacks.has(k), old._idle_callbacks.has(k)), eq(s._idle_callbacks.val(k), old._idle_callbacks.val(k)))))))
        yield "nothing-else-touched", untouched_maps(old, s, "_queue_callbacks", "_poller", "_did_something", "_idle_handle", "_alarms")


# ---- one iteration of the loop

def _zmq_havoc(st):
    """Rely: a user callback may call any of the loop's public operations any number of times; each keeps the
    class invariant (poller keys = callback-map keys) and lets the two counters only grow."""
    o = st.ghost.get("loop_obj")
    st.ghost["last_lookup"] = None
    st.ghost["last_pop"] = None
    if o is None:
        return
    old_tie, old_idle = o.fields["_alarm_break"].value, o.fields["_idle_handle"]
    o.fields["_alarms"] = SHeap(st, "alarms")
    o.fields["_queue_callbacks"] = SMap(st, "queues")
    o.fields["_idle_callbacks"] = SMap(st, "idle")
    o.fields["_poller"] = SPoller(st)
    o.fields["_alarm_break"] = SCounter(st, "tie")
    o.fields["_idle_handle"] = st.fresh_int("idle_handle")
    st.assume(both(o.fields["_alarm_break"].value >= old_tie, o.fields["_idle_handle"] >= old_idle))
    st.assume(stored_ties_below(o.fields["_alarms"], o.fields["_alarm_break"].value))
    st.assume(poller_matches(o))


def _third(st):
    return _zmq_error(st, "user callback")


@contract(ZL + "ZMQEventLoop._entering_idle", property="C13", replayable=False)
class z_entering_idle:
    self_shape = ZLOOP
    raises = (ExitMainLoop, ZMQError, Exception)
    setup = staticmethod(_zsetup)
    call_real = staticmethod(_zreal)
    callback_guard = staticmethod(_guard)
    callback_havoc = staticmethod(_zmq_havoc)
    callback_third_exception = staticmethod(_third)
    log_event = "_entering_idle"

    def ensures(old, s, a, result):
        yield "flag-untouched", eq(s._did_something, old._did_something)

    def on_raise(old, s, a, exc):
        yield "flag-untouched", eq(s._did_something, old._did_something)
        yield "only-an-idle-callbacks-exception", exc.site == "user callback"

    def on_raise_callee(old, s, a, exc):
        if exc.cls is ZMQError:
            exc.attrs["errno"] = cur().fresh_int("errno")
        return ()

    def effects(old, s, a, result):
        _zmq_havoc(cur())

    # every callback invoked is a currently registered idle callback: obligation at each call site
    loops = {0: Loop(invariant=lambda v: eq(v.self._did_something, cur().ghost["did_at_entry"]))}


def _pop_now(self, st, _old=SHeap.pop_min):
    """Ghost: what the clock is known to show (at least) when an alarm is taken off the heap."""
    st.ghost.setdefault("pop_clock", []).append(st.ghost.get("now"))
    return _old(self, st)


SHeap.pop_min = _pop_now


def _ready_inv(v):
    st = cur()
    same_or_set = either(eq(v.self._did_something, v.at_entry.self._did_something), v.self._did_something == True)  # noqa: E712
    r = both(same_or_set, implies(v.i_ == 0, eq(v.self._did_something, v.at_entry.self._did_something)), poller_matches(v.self))
    mark = v.trace_mark_
    if mark is not None:
        # (checked at the end of an iteration only) a ready key is passed over only if its watch is gone:
        # "a watched descriptor's callback runs whenever the descriptor is readable until the watch is removed"
        called = [ev for ev in st.trace[mark:] if ev[0] == "callback"]
        lk = st.ghost.get("last_lookup")
        if not called:
            r = both(r, lk is not None and neg(lk[1]))
        else:
            r = both(r, len(called) == 1, v.self._did_something == True)  # noqa: E712
    return r


@contract(ZL + "ZMQEventLoop._loop", property="C13", replayable=False)
class z_loop:
    self_shape = ZLOOP
    raises = (ExitMainLoop, ZMQError, Exception)
    setup = staticmethod(_zsetup)
    call_real = staticmethod(_zreal)
    callback_guard = staticmethod(_guard)
    callback_havoc = staticmethod(_zmq_havoc)
    callback_third_exception = staticmethod(_third)
    log_event = "_loop"

    def ensures(old, s, a, result):
        yield from _zloop_claims(cur(), old, s, None)

    def ensures_callee(old, s, a, result):
        # callers (run) learn nothing about an iteration that returned, beyond the "_loop" event: the claims above speak
        # about the events of the body (polls, sleeps, callbacks), which a call site does not replay -- assuming them
        # there would be assuming False and silently end every path of run() on which an iteration returns
        return ()

    def on_raise(old, s, a, exc):
        yield from _zloop_claims(cur(), old, s, exc)

    def on_raise_callee(old, s, a, exc):
        if exc.cls is ZMQError:
            exc.attrs["errno"] = cur().fresh_int("errno")
        s.trace.append(("_loop-raised", exc.cls, exc))  # ghost: what the iteration raised (read by run's contract)
        return ()

    loops = {0: Loop(invariant=_ready_inv, modifies=("self._did_something",))}


def _zloop_claims(st, old, s, exc):
    normal = exc is None
    waits = [ev for ev in st.trace if ev[0] == "wait"]
    sleeps = [ev for ev in st.trace if ev[0] == "sleep"]
    idle_runs = count_ev(s.trace, "_entering_idle")
    pops = st.ghost.get("pops", [])
    clocks = st.ghost.get("pop_clock", [])
    cbs = [ev for ev in st.trace if ev[0] == "callback"]
    yield "exactly-one-poll", len(waits) == 1
    if not waits:
        return
    timeout = waits[0][1]
    if bool(old._did_something == True):  # noqa: E712
        # something ran since the last idle pass: never block before the idle callbacks had their turn
        yield "no-blocking-wait-while-idle-is-owed", (timeout is not None) and bool(eq(timeout, 0))
    else:
        yield "blocks-without-limit-only-if-no-alarm-is-pending", implies(old._alarms.n > 0, timeout is not None)
    yield "idle-pass-only-when-owed", implies(idle_runs > 0, old._did_something == True)  # noqa: E712
    if not normal:
        yield "only-a-callbacks-or-the-pollers-exception-leaves", exc.site in ("user callback", "poller.poll") or "callee ZMQEventLoop._entering_idle" in str(exc.site)
    if pops:
        (tm, _tie, _cb), heap = pops[0]
        yield "one-alarm-per-iteration", len(pops) == 1
        yield "the-alarm-run-is-the-earliest-pending", heap.is_min(pops[0][0])
        yield "not-before-it-is-due", both(len(clocks) == 1, (clocks[0] is not None) and clocks[0] >= tm)
        yield "polled-no-longer-than-until-it-was-due", (timeout is not None) and bool(timeout <= imax(0, (tm - waits[0][2]) * 1000))
        yield "no-idle-pass-in-the-same-iteration", idle_runs == 0
    else:
        yield "sleeps-only-for-an-alarm", not sleeps
    if normal:
        if idle_runs > 0:
            yield "idle-pass-clears-the-flag", both(idle_runs == 1, s._did_something == False, len(cbs) == 0)  # noqa: E712
        elif cbs:
            yield "flag-set-after-any-alarm-or-watch-callback", s._did_something == True  # noqa: E712
        else:
            ready = st.ghost["exit_locals"].get("ready")
            yield "flag-untouched-when-nothing-was-ready-and-nothing-ran", implies(ready.n == 0, eq(s._did_something, old._did_something))
            yield "flag-only-ever-set-by-the-watch-pass", either(eq(s._did_something, old._did_something), s._did_something == True)  # noqa: E712


@contract(ZL + "ZMQEventLoop.run", property=("C13", "C12"), replayable=False)
class z_run:
    self_shape = ZLOOP
    raises = (Exception,)
    setup = staticmethod(_zsetup)
    call_real = staticmethod(_zreal)

    def ensures(old, s, a, result):
        # the only normal way out of `while True` is an ExitMainLoop raised by an iteration
        raised = [ev[1] for ev in s.trace if ev[0] == "_loop-raised"]
        yield "returns-only-after-ExitMainLoop", both(count_ev(s.trace, "_loop") >= 1, len(raised) >= 1 and raised[-1] is ExitMainLoop)

    def on_raise(old, s, a, exc):
        yield "ExitMainLoop-never-escapes", not issubclass(exc.cls, ExitMainLoop)
        yield "the-exception-of-the-iteration-propagates-unchanged", exc.cls in (Exception, ZMQError) and "callee ZMQEventLoop._loop" in str(exc.site)
        # What the code does with an interrupted-call error, stated as it is (known finding C13-KF2, reported by the
        # bounded check): a ZMQError with errno EINTR is taken for an interrupted poll() and the loop goes on, also
        # when a callback raised it.
        if exc.cls is ZMQError:
            yield "ZMQError-EINTR-never-leaves-run (from a callback: KNOWN FINDING C13-KF2)", neg(eq(exc.attrs["errno"], errno.EINTR))

    def _goes_on(v):
        """(checked at the end of an iteration of `while True`) the loop goes round again only after an iteration that
        returned or raised the interrupted-call error: any other exception has ended run() -- 'an exception raised
        in any callback stops the loop'."""
        if v.trace_mark_ is None:
            return True
        new = v.self.trace[len(v.at_entry.self.trace):]
        r = True
        for ev in new:
            if ev[0] == "_loop-raised":
                r = both(r, ev[1] is ZMQError and eq(ev[2].attrs["errno"], errno.EINTR))
        return r

    loops = {0: Loop(invariant=_goes_on, modifies=("self._did_something",))}
