"""Assumed protocol contracts: child widgets (opaque) and the canvas size/cursor model.

These are *assumptions* of every container proof that uses them (listed in the evidence):
 - Widget protocol: what `Widget`'s documentation and `validate_size` demand of every widget.
 - Canvas protocol: size and coordinate behaviour of `CompositeCanvas` operations; owned as proof /
   bounded goals by C02 (assume/guarantee split, DESIGN.md §3.4).
"""
import z3

from pyvc import shapes as S
from pyvc import values as V
from pyvc.api import *
from pyvc.api import PROTOCOLS
from pyvc.protocol import PMethod, Protocol
from pyvc.seqs import SObj, SSeq
from pyvc.values import SOpt, cur, mk_bool

import urwid
from urwid import canvas as _canvas

B = 2**26
DIMMAX = 2**24  # sizes handed around
PARTMAX = 2**22  # one child dimension / margin (sums of three stay below DIMMAX)
Dim = Int(0, PARTMAX - 1)  # every size a child reports is a sane screen dimension (assumption "sizes < 2^26")


def canvas_shape(cls=_canvas.Canvas):
    return Obj(cls, dict(ncols=Nat, nrows=Nat, cursor=Opt(Tup(Int, Int)), src=Int, top_off=Int, left_off=Int, noshards=Bool))


CANVAS = canvas_shape()
CCANVAS = canvas_shape(_canvas.CompositeCanvas)


def _size_parts(size):
    size = cur().force(size)
    if not isinstance(size, tuple):
        raise Unsupported(f"size must be a tuple of known arity, got {size!r}")
    return size


class WidgetProtocol(Protocol):
    kind = "Widget"

    def _ens_rows(st, w, a, r):
        return ()

    def _ens_pack(st, w, a, r):
        size = _size_parts(a["size"])
        out = []
        if len(size) == 2:
            out += [r[0] == size[0], r[1] == size[1]]
        elif len(size) == 1:
            # flow widget: height is what rows() reports at that width; width never exceeds the offer
            rows = PROTOCOLS["Widget"].call_quiet(st, w, "rows", dict(size=size, focus=a["focus"]))
            out += [r[1] == rows, r[0] <= size[0]]
        return out

    def _ens_render(st, w, a, canv):
        size = _size_parts(a["size"])
        P = PROTOCOLS["Widget"]
        out = [canv.fields["top_off"] == 0, canv.fields["left_off"] == 0, neg(canv.fields["noshards"])]
        if len(size) == 2:
            out += [canv.fields["ncols"] == size[0], canv.fields["nrows"] == size[1]]
        elif len(size) == 1:
            rows = P.call_quiet(st, w, "rows", dict(size=size, focus=a["focus"]))
            out += [canv.fields["ncols"] == size[0], canv.fields["nrows"] == rows]
        else:
            pk = P.call_quiet(st, w, "pack", dict(size=(), focus=a["focus"]))
            out += [canv.fields["ncols"] == pk[0], canv.fields["nrows"] == pk[1]]
        cur_ = canv.fields["cursor"]
        # cursor inside the canvas
        out.append(either(mk_bool(cur_.isnone), both(0 <= cur_.val[0], cur_.val[0] < canv.fields["ncols"], 0 <= cur_.val[1], cur_.val[1] < canv.fields["nrows"])))
        # a focused rendering shows the cursor that get_cursor_coords reports; unfocused shows none
        f = a["focus"]
        if f is False:
            out.append(mk_bool(cur_.isnone))
        else:
            cc = P.call_quiet(st, w, "get_cursor_coords", dict(size=size))
            same = either(both(mk_bool(cc.isnone), mk_bool(cur_.isnone)), both(neg(mk_bool(cc.isnone)), neg(mk_bool(cur_.isnone)), cc.val[0] == cur_.val[0], cc.val[1] == cur_.val[1]))
            out.append(implies(f, same) if not isinstance(f, bool) else same)
            if not isinstance(f, bool):
                out.append(implies(neg(f), mk_bool(cur_.isnone)))
        return out

    def _ens_cursor(st, w, a, r):
        """A reported cursor lies inside the widget's own area at that size."""
        size = _size_parts(a["size"])
        P = PROTOCOLS["Widget"]
        if len(size) == 2:
            c, rws = size
        elif len(size) == 1:
            c, rws = size[0], P.call_quiet(st, w, "rows", dict(size=size, focus=True))
        else:
            c, rws = P.call_quiet(st, w, "pack", dict(size=(), focus=True))
        return [either(mk_bool(r.isnone), both(r.val[0] < c, r.val[1] < rws))]

    methods = {
        "rows": PMethod(Dim, params=["size", "focus"], defaults={"focus": False}, ensures=_ens_rows),
        "pack": PMethod(Tup(Dim, Dim), params=["size", "focus"], defaults={"size": (), "focus": False}, ensures=_ens_pack),
        "render": PMethod(CANVAS, params=["size", "focus"], defaults={"focus": False}, ensures=_ens_render),
        "selectable": PMethod(Bool, params=[]),
        "get_cursor_coords": PMethod(Opt(Tup(Nat, Nat)), params=["size"], ensures=_ens_cursor),
        "get_pref_col": PMethod(Opt(Int), params=["size"]),
        "move_cursor_to_coords": PMethod(Bool, params=["size", "col", "row"], mutates=True),
        "mouse_event": PMethod(Bool, params=["size", "event", "button", "col", "row", "focus"], mutates=True),
        "keypress": PMethod(Opt(Opaque("Key")), params=["size", "key"], mutates=True),
        "sizing": PMethod(Opaque("SizingSet"), params=[]),
        "_invalidate": PMethod(None, params=[], mutates=True),
        "get_scrollpos": PMethod(Int, params=["size", "focus"], defaults={"size": None, "focus": False}),
        "set_scrollpos": PMethod(None, params=["position"], mutates=True),
    }
    # `w.base_widget` ("w without its decorations", Widget.base_widget / WidgetDecoration.base_widget): for a decorated
    # child another individual than the child -- an unconstrained widget of the child's state version, whose
    # `selectable()`, `keypress()`, ... are unrelated to the child's own (a WidgetDisable(Button) is unselectable, its
    # base widget is selectable).  Code that asks the base widget where the statement speaks about the child
    # (e.g. through the container shortcut `container[position]`) therefore fails its obligation.
    attrs = {"base_widget": Opaque("Widget")}
    has = {"automove_cursor_on_scroll": False, "set_scrollpos": "uf", "get_scrollpos": "uf", "get_cursor_coords": "uf", "get_pref_col": "uf", "move_cursor_to_coords": "uf", "mouse_event": "uf", "keypress": True, "rows": True, "pack": True, "render": True, "selectable": True}


    def isinstance(self, ip, st, obj, cls):
        """An opaque child of kind Widget *is* a urwid.Widget (the container proofs are "for every child honouring the
        widget protocol"; for a non-Widget object the constructors only emit a DeprecationWarning)."""
        if cls is urwid.Widget:
            return True
        raise Unsupported(f"isinstance of an opaque Widget against {cls!r}")


PROTOCOLS["Widget"] = WidgetProtocol()


class SizingSetProtocol(Protocol):
    kind = "SizingSet"
    methods = {}

    def contains(self, st, obj, x):
        f = z3.Function("SizingSet.has", obj.e.sort(), z3.IntSort(), z3.BoolSort())
        r = mk_bool(f(obj.e, z3.IntVal(V.atom_code(x))))
        st.ghost.setdefault("uf_calls", []).append((V.zstr(obj.e), "sizing_has", {"x": str(getattr(x, "value", x))}, r))
        return r


PROTOCOLS["SizingSet"] = SizingSetProtocol()


def sizing_has(w, x):
    """Does the opaque widget w report sizing mode x (a urwid.Sizing member)?"""
    st = cur()
    ss = PROTOCOLS["Widget"].call_quiet(st, w, "sizing", {})
    return PROTOCOLS["SizingSet"].contains(st, ss, x)


def canvas_wf(c):
    """Well-formedness of a canvas value: cursor, if any, lies inside."""
    cu = c.cursor
    if cu is None:
        return both(c.ncols >= 0, c.nrows >= 0)
    return both(c.ncols >= 0, c.nrows >= 0, either(mk_bool(cu.isnone), both(0 <= cu.val[0], cu.val[0] < c.ncols, 0 <= cu.val[1], cu.val[1] < c.nrows)))


# --------------------------------------------------------------------------------------------- canvas model (assumed)

_FIN = _canvas.CanvasError


def _cursor_shift(old_cur, new_cur, dx, dy):
    return either(
        both(mk_bool(old_cur.isnone), mk_bool(new_cur.isnone)),
        both(neg(mk_bool(old_cur.isnone)), neg(mk_bool(new_cur.isnone)), new_cur.val[0] == old_cur.val[0] + dx, new_cur.val[1] == old_cur.val[1] + dy),
    )


def _cursor_shift_clip(old, s, dx, dy):
    """Trimming: the cursor moves with its cell, and is forgotten when that cell is trimmed away (fix: commit
    9d24e62 -- before it a cursor outside the canvas was kept).  Stated for a cursor that was inside `old`."""
    oc, nc = old.cursor, s.cursor
    was_in = either(mk_bool(oc.isnone), both(0 <= oc.val[0], oc.val[0] < old.ncols, 0 <= oc.val[1], oc.val[1] < old.nrows))
    x, y = oc.val[0] + dx, oc.val[1] + dy
    inside = both(0 <= x, x < s.ncols, 0 <= y, y < s.nrows)
    moved = both(neg(mk_bool(nc.isnone)), nc.val[0] == x, nc.val[1] == y)
    return implies(was_in, either(both(mk_bool(oc.isnone), mk_bool(nc.isnone)),
                                  both(neg(mk_bool(oc.isnone)), inside, moved),
                                  both(neg(mk_bool(oc.isnone)), neg(inside), mk_bool(nc.isnone))))


def _same(old, s, *names):
    return both(*[eq(s.fields[n], old.fields[n]) if not isinstance(old.fields[n], SOpt) else _cursor_shift(old.fields[n], s.fields[n], 0, 0) for n in names])


@contract("urwid/canvas.py:CompositeCanvas.__init__", property=(), assumed=True, notes="canvas protocol: wrapping preserves size and cursor (owned by C02)")
class cc_init:
    constructs = CCANVAS
    ctor_params = ("canv",)
    ctor_defaults = {"canv": None}

    def ensures(old, s, a, result):
        c = a.canv
        if c is None:
            yield "empty", both(s.ncols == 0, s.nrows == 0, mk_bool(s.cursor.isnone), s.noshards)
        else:
            yield "copy", both(s.ncols == c.ncols, s.nrows == c.nrows, _cursor_shift(c.cursor, s.cursor, 0, 0), s.src == c.src, s.top_off == c.top_off, s.left_off == c.left_off, eq(s.noshards, c.noshards))


for _cls in ("Canvas", "CompositeCanvas"):

    @contract(f"urwid/canvas.py:{_cls}.rows", property=(), assumed=True, notes="canvas protocol")
    class c_rows:
        self_shape = CANVAS
        result = Nat
        pure_spec = staticmethod(lambda old, a: old.nrows)

    @contract(f"urwid/canvas.py:{_cls}.cols", property=(), assumed=True, notes="canvas protocol")
    class c_cols:
        self_shape = CANVAS
        result = Nat
        pure_spec = staticmethod(lambda old, a: old.ncols)


@contract("urwid/canvas.py:CompositeCanvas.trim", property=(), assumed=True, notes="canvas protocol: keeps rows [top, top+count) (owned by C02)")
class cc_trim:
    self_shape = CCANVAS
    modifies = ("nrows", "cursor", "top_off")
    raises = ()

    def requires(s, a):
        # ValueError otherwise — callers must establish it (this is a call-pre obligation at every call site)
        return both(a.top >= 0, a.top < s.nrows)

    def ensures(old, s, a, result):
        cnt = a.count if "count" in a else None
        if cnt is None:
            yield "rows", s.nrows == old.nrows - a.top
        else:
            yield "rows", s.nrows == imin(cnt, old.nrows - a.top)
            yield "cnt", cnt >= 0
        yield "cursor", _cursor_shift_clip(old, s, 0, -a.top)
        yield "window", s.top_off == old.top_off + a.top


@contract("urwid/canvas.py:CompositeCanvas.trim_end", property=(), assumed=True, notes="canvas protocol (owned by C02)")
class cc_trim_end:
    self_shape = CCANVAS
    modifies = ("nrows", "cursor")

    def requires(s, a):
        return both(a.end > 0, a.end <= s.nrows)

    def ensures(old, s, a, result):
        yield "rows", s.nrows == old.nrows - a.end
        yield "cursor", _cursor_shift_clip(old, s, 0, 0)


@contract("urwid/canvas.py:CompositeCanvas.pad_trim_left_right", property=(), assumed=True, notes="canvas protocol: cols += left+right, cursor x += left (owned by C02)")
class cc_ptlr:
    self_shape = CCANVAS
    modifies = ("ncols", "cursor", "left_off")

    def requires(s, a):
        # shards_trim_sides rejects a trim to zero columns (ValueError): trimming must leave a column
        kept = s.ncols + imin(a.left, 0) + imin(a.right, 0)
        return both(kept >= 0, implies(either(a.left < 0, a.right < 0), kept > 0), either(both(a.left <= 0, a.right <= 0), neg(s.noshards)))

    def ensures(old, s, a, result):
        yield "cols", s.ncols == old.ncols + a.left + a.right
        yield "cursor", _cursor_shift_clip(old, s, a.left, 0)
        yield "window", s.left_off == old.left_off - a.left


@contract("urwid/canvas.py:CompositeCanvas.pad_trim_top_bottom", property=(), assumed=True, notes="canvas protocol: rows += top+bottom, cursor y += top (owned by C02)")
class cc_pttb:
    self_shape = CCANVAS
    modifies = ("nrows", "cursor", "top_off")

    def requires(s, a):
        return both(implies(either(a.top < 0, a.bottom < 0), both(imax(0, -a.top) < s.nrows, s.nrows + imin(a.top, 0) + imin(a.bottom, 0) >= 0)))

    def ensures(old, s, a, result):
        yield "rows", s.nrows == old.nrows + a.top + a.bottom
        yield "cursor", _cursor_shift_clip(old, s, 0, a.top)
        yield "window", s.top_off == old.top_off - a.top


@contract("urwid/canvas.py:CompositeCanvas.fill_attr", property=(), assumed=True, notes="canvas protocol: attributes only")
class cc_fill_attr:
    self_shape = CCANVAS
    modifies = ()


@contract("urwid/canvas.py:CompositeCanvas.fill_attr_apply", property=(), assumed=True, notes="canvas protocol: attributes only")
class cc_fill_attr_apply:
    self_shape = CCANVAS
    modifies = ()


@contract("urwid/canvas.py:CanvasOverlay", property=(), assumed=True,
          notes="canvas protocol: result has the bottom canvas's size; the top canvas must lie inside the bottom one: left, top >= 0 and "
                "right, bottom >= 0 (CompositeCanvas.overlay raises ValueError for right/bottom < 0 and, for left < 0, silently builds rows "
                "wider than the canvas: Overlay(Text('0123456789abcdefghij'), SolidFill('.'), 'center', 'pack', 'middle', 'pack').render((12, 3)) "
                "before /repo 61d1190 had a 16-column row in a 12-column canvas) (owned by C02)")
class c_overlay:
    params = dict(top_c=CANVAS, bottom_c=CANVAS, left=Int, top=Int)
    result = CCANVAS

    def requires(a):
        return both(a.left >= 0, a.top >= 0, a.bottom_c.ncols - a.left - a.top_c.ncols >= 0, a.bottom_c.nrows - a.top - a.top_c.nrows >= 0)

    def ensures(a, r):
        yield "size", both(r.ncols == a.bottom_c.ncols, r.nrows == a.bottom_c.nrows)
        tc, bc = a.top_c.cursor, a.bottom_c.cursor
        yield "cursor", either(
            both(neg(mk_bool(tc.isnone)), neg(mk_bool(r.cursor.isnone)), r.cursor.val[0] == tc.val[0] + a.left, r.cursor.val[1] == tc.val[1] + a.top),
            both(mk_bool(tc.isnone), _cursor_shift(bc, r.cursor, 0, 0)),
        )


@contract("urwid/canvas.py:SolidCanvas.__init__", property=(), assumed=True, notes="canvas protocol")
class solid_init:
    constructs = canvas_shape(_canvas.SolidCanvas)
    ctor_params = ("fill_char", "cols", "rows")

    def ensures(old, s, a, result):
        yield "size", both(s.ncols == a.cols, s.nrows == a.rows, mk_bool(s.cursor.isnone), neg(s.noshards))


# ---- CanvasCombine / CanvasJoin (assumed; owned by C02's canvas-protocol check)

def _seq_items(seq):
    """[(count, item)] runs of a canvas_info argument: concrete tuple/list, or parts of constant runs."""
    from pyvc.seqs import LRef, SSeq
    from pyvc import seqs as Q

    if isinstance(seq, LRef):
        seq = seq.seq
    if isinstance(seq, (tuple, list)):
        return [(1, it) for it in seq]
    parts = getattr(seq, "parts", None) or [seq]
    out = []
    for p in parts:
        if isinstance(p, (tuple, list)):
            out.extend((1, it) for it in p)
        elif hasattr(p, "const_elt"):
            out.append((Q.seq_len(p), p.const_elt))
        else:
            raise Unsupported("CanvasCombine/CanvasJoin over a sequence that is not made of constant runs")
    return out


def canvas_item_rows(item):
    """Rows of the canvas of a CanvasCombine item (canvas, position, focus)."""
    return item[0].nrows


# the list handed to CanvasCombine when it is built in a loop: it carries the prefix sums of the canvases' rows
COMBINE_LIST = ListOf(Tup(CANVAS, Int, Bool), measure=canvas_item_rows)


class _CanvasCombineContract(Contract):
    target = "urwid/canvas.py:CanvasCombine"
    property = ()
    assumed = True
    notes = "canvas protocol: rows add up, width of the parts, cursor of the last part that has one shifted by the rows above; for a list of symbolic length only rows and width (owned by C02)"

    def apply_symbolic(self, ip, st, seq, site):
        """A list of (canvas, position, focus) of symbolic length that carries the prefix sums of the canvases' rows
        (`COMBINE_LIST` below): rows add up, the width is that of the parts (which must agree: obligation, stated for
        an arbitrary index), `noshards` only when empty.  The cursor of the result is left unspecified here."""
        from pyvc import seqs as Q

        if getattr(seq, "measure", None) is not canvas_item_rows:
            raise Unsupported("CanvasCombine over a symbolic list without the canvas-rows prefix sums (shape COMBINE_LIST)")
        m = Q.seq_len(seq)
        r = CCANVAS.fresh(st, "combined")
        k = V.arbitrary("CanvasCombine.k")
        st.oblige(f"{ip.task.name}/call-pre@CanvasCombine:{(site or '').split(':')[-1]}/equal-widths",
                  implies(both(0 <= k, k < m), Q.seq_get(seq, k)[0].ncols == Q.seq_get(seq, 0)[0].ncols), "call-pre")
        st.assume(r.nrows == seq.psum(m))
        st.assume(implies(m > 0, both(r.ncols == Q.seq_get(seq, 0)[0].ncols, neg(r.noshards))))
        st.assume(implies(m <= 0, both(r.ncols == 0, r.noshards, mk_bool(r.cursor.isnone))))
        st.event("combine", seq, r)
        ip.task.used_contracts.add(self.target)
        return r

    def apply(self, ip, st, f, args, kwargs, site=None):
        from pyvc.seqs import LRef, SSeq

        arg = args[0] if args else kwargs["canvas_info"]
        inner = arg.seq if isinstance(arg, LRef) else arg
        if isinstance(inner, SSeq) and not getattr(inner, "parts", None) and not hasattr(inner, "const_elt"):
            return self.apply_symbolic(ip, st, inner, site)
        runs = _seq_items(arg)
        r = CCANVAS.fresh(st, "combined")
        rows = 0
        cursor_none = True
        for cnt, item in runs:
            canv = item[0]
            rows = rows + cnt * canv.nrows
            cu = canv.cursor
            if isinstance(cnt, int) and cnt == 1:
                if cu is not None and not is_none(cu):
                    st.assume(both(neg(mk_bool(r.cursor.isnone)), r.cursor.val[0] == val(cu)[0], r.cursor.val[1] == val(cu)[1] + (rows - canv.nrows)))
                    cursor_none = False
            else:
                if cu is not None and not is_none(cu):
                    raise Unsupported("repeated canvas with a cursor in CanvasCombine")
        st.assume(r.nrows == rows)
        if runs:
            first = runs[0][1][0]
            widths = [both(implies(cnt > 0, item[0].ncols == r.ncols)) for cnt, item in runs]
            # all parts share one width in every use in urwid; the result reports the first shard's width
            st.oblige(f"{ip.task.name}/call-pre@CanvasCombine:{(site or '').split(':')[-1]}/equal-widths",
                      both(*[implies(both(c1 > 0, c2 > 0), i1[0].ncols == i2[0].ncols) for (c1, i1), (c2, i2) in zip(runs, runs[1:])]), "call-pre")
            nonempty = either(*[cnt > 0 for cnt, _ in runs])
            st.assume(implies(nonempty, either(*[both(cnt > 0, r.ncols == item[0].ncols) for cnt, item in runs])))
            st.assume(implies(neg(nonempty), r.ncols == 0))
            st.assume(eq(r.noshards, neg(nonempty)))
        else:
            st.assume(both(r.ncols == 0, r.noshards))
        if cursor_none:
            st.assume(mk_bool(r.cursor.isnone))
        st.event("combine", runs, r)
        ip.task.used_contracts.add(self.target)
        return r


REGISTRY[_CanvasCombineContract.target] = _CanvasCombineContract()


class JoinFold(SSeq):
    """A list of CanvasJoin items (canvas, position, focus, cols) of unknown length, known only through the left
    fold CanvasJoin computes over it (the canvas protocol for CanvasJoin, owned by C02): number of items, total of
    the given widths, tallest part, the cursor (of the last part that has one inside its given width, shifted by
    the widths to its left) and whether every part fits its given width.  Elements cannot be read back."""

    FIELDS = ("n", "cols", "rows", "has", "cx", "cy", "ok")

    def __init__(self, fold):
        def getter(i):
            raise Unsupported("element of a canvas list that is modelled by its join only")

        super().__init__(fold["n"], getter, None, None, "joinlist")
        self.fold = fold

    @staticmethod
    def empty():
        return dict(n=0, cols=0, rows=0, has=False, cx=0, cy=0, ok=True)

    @staticmethod
    def step(f, item):
        canv, _pos, _focus, c = item
        cu = canv.cursor
        if cu is None or cu is False:
            inside = False
            x = y = 0
        else:
            inside = both(neg(is_none(cu)) if not isinstance(cu, SOpt) else neg(mk_bool(cu.isnone)), (cu.val if isinstance(cu, SOpt) else cu)[0] < c)
            x, y = (cu.val if isinstance(cu, SOpt) else cu)
        return dict(
            n=f["n"] + 1, cols=f["cols"] + c, rows=imax(f["rows"], canv.nrows),
            has=either(inside, f["has"]), cx=ite(inside, x + f["cols"], f["cx"]), cy=ite(inside, y, f["cy"]),
            ok=both(f["ok"], c >= 0, implies(c > canv.ncols, neg(canv.noshards))),
        )

    def fold_concat(self, items):
        f = self.fold
        for it in items:
            f = JoinFold.step(f, it)
        return JoinFold(f)

    @staticmethod
    def of(seq):
        """The fold of a concrete list of items, or of a JoinFold."""
        from pyvc.seqs import LRef

        if isinstance(seq, LRef):
            seq = seq.seq
        if isinstance(seq, JoinFold):
            return seq.fold
        if isinstance(seq, (tuple, list)):
            f = JoinFold.empty()
            for it in seq:
                f = JoinFold.step(f, it)
            return f
        raise Unsupported("join fold of a general symbolic sequence")


class JoinList(S.ListOf):
    """Shape of a havocked canvas list: a fresh JoinFold."""

    def __init__(self):
        super().__init__(None)

    def fresh_seq(self, st, hint):
        f = dict(n=st.fresh_int(hint + "_n"), cols=st.fresh_int(hint + "_cols"), rows=st.fresh_int(hint + "_rows"), has=st.fresh_bool(hint + "_has"),
                 cx=st.fresh_int(hint + "_cx"), cy=st.fresh_int(hint + "_cy"), ok=st.fresh_bool(hint + "_ok"))
        st.assume(both(f["n"] >= 0, f["cols"] >= 0, f["rows"] >= 0))
        return JoinFold(f)


class _CanvasJoinContract(Contract):
    target = "urwid/canvas.py:CanvasJoin"
    property = ()
    assumed = True
    notes = "canvas protocol: widths as given add up, height is the tallest part, cursor shifted by the columns to the left (owned by C02)"

    def apply(self, ip, st, f, args, kwargs, site=None):
        arg = args[0] if args else kwargs["canvas_info"]
        inner = getattr(arg, "seq", arg)
        if isinstance(inner, JoinFold):
            fo = inner.fold
            r = CCANVAS.fresh(st, "joined")
            st.oblige(f"{ip.task.name}/call-pre@CanvasJoin:{(site or '').split(':')[-1]}/part-fits", fo["ok"], "call-pre")
            st.assume(both(r.ncols == fo["cols"], r.nrows == fo["rows"], eq(r.noshards, fo["n"] == 0), eq(mk_bool(r.cursor.isnone), neg(fo["has"])),
                           implies(fo["has"], both(r.cursor.val[0] == fo["cx"], r.cursor.val[1] == fo["cy"]))))
            st.event("join", inner, r)
            ip.task.used_contracts.add(self.target)
            return r
        runs = _seq_items(arg)
        r = CCANVAS.fresh(st, "joined")
        cols = 0
        rows = 0
        cursor_none = True
        for cnt, item in runs:
            if not (isinstance(cnt, int) and cnt == 1):
                raise Unsupported("CanvasJoin over repeated runs")
            canv, _pos, _focus, c = item
            st.oblige(f"{ip.task.name}/call-pre@CanvasJoin:{(site or '').split(':')[-1]}/part-fits", both(c >= 0, implies(c > canv.ncols, neg(canv.noshards))), "call-pre")
            cu = canv.cursor
            if cu is not None and not is_none(cu):
                if val(cu)[0] < c:
                    st.assume(both(neg(mk_bool(r.cursor.isnone)), r.cursor.val[0] == val(cu)[0] + cols, r.cursor.val[1] == val(cu)[1]))
                    cursor_none = False
            cols = cols + c
            rows = imax(rows, canv.nrows)
        st.assume(both(r.ncols == cols, r.nrows == rows, neg(r.noshards) if runs else r.noshards))
        if cursor_none:
            st.assume(mk_bool(r.cursor.isnone))
        st.event("join", runs, r)
        ip.task.used_contracts.add(self.target)
        return r


REGISTRY[_CanvasJoinContract.target] = _CanvasJoinContract()


# ---- keys and the command map (opaque): command_map[key] is some Command member or None

from urwid.command_map import Command as _Command  # noqa: E402

COMMANDS = tuple(_Command) + (None,)


class CommandMapProtocol(Protocol):
    kind = "CommandMap"
    methods = {}

    def subscript(self, ip, st, obj, key):
        from pyvc.protocol import encode_arg

        key = st.force(key)
        if isinstance(key, tuple) or key is None:
            return None  # command maps bind key names (strings); a mouse-event tuple or None is never bound
        f = z3.Function("CommandMap.get", z3.IntSort(), z3.IntSort())
        t = encode_arg(st, key)[0]
        if t.sort() != z3.IntSort():
            g = z3.Function("Key.code", t.sort(), z3.IntSort())
            t = g(t)
        e = f(t)
        st.assume(z3.Or(*[e == V.atom_code(c) for c in COMMANDS]))
        r = V.SAtom(e, COMMANDS)
        st.ghost.setdefault("uf_calls", []).append(("command_map", "lookup", {"key": key}, r))
        return r


PROTOCOLS["CommandMap"] = CommandMapProtocol()
PROTOCOLS["Key"] = type("KeyProtocol", (Protocol,), {"kind": "Key", "methods": {}})()
COMMAND_MAP = V.SOpaque("CommandMap", z3.Const("the_command_map", S.opaque_sort("CommandMap")))


def command_of(key):
    """command_map[key] (dual use: natively the default command map)."""
    if isinstance(key, V.Sym):
        return PROTOCOLS["CommandMap"].subscript(None, cur(), COMMAND_MAP, key)
    return urwid.command_map[key]


@contract("urwid/widget/widget.py:Widget._invalidate", property=(), assumed=True, notes="drops this widget's cached canvases (C06 owns the cache); logged in the ghost trace")
class w_invalidate:
    self_shape = Obj(urwid.Widget, {})
    log_event = "_invalidate"


@contract("urwid/canvas.py:CompositeCanvas.set_depends", property=(), assumed=True, notes="canvas protocol: cache dependencies only (C06)")
class cc_set_depends:
    self_shape = CCANVAS
    modifies = ()


# ---- mouse event names (opaque keys): is_mouse_press is an uninterpreted predicate of the event


def is_press(ev):
    """urwid.util.is_mouse_press(ev) for an opaque event name (dual use)."""
    if isinstance(ev, V.Sym):
        f = z3.Function("Key.is_mouse_press", ev.e.sort(), z3.BoolSort())
        return mk_bool(f(ev.e))
    return "press" in ev


@contract("urwid/util.py:is_mouse_press", property=(), assumed=True,
          notes="`'press' in ev`: a pure function of the event name; event names are opaque keys here, so the result is an uninterpreted predicate of the event")
class is_mouse_press_c:
    params = dict(ev=Opaque("Key"))
    result = Bool
    pure_spec = staticmethod(lambda a: is_press(a.ev))


@contract("urwid/widget/widget.py:Widget.__init__", property=(), assumed=True,
          notes="stores `self.logger = logging.getLogger(<class path>)` and nothing else; logger calls are dropped (DESIGN 2.1) and the attribute is never read by verified code")
class widget_init:
    self_shape = Obj(urwid.Widget, {})
    modifies = ()
