"""C01 — leaf and decoration widgets: every widget renders a canvas of exactly the size asked.

Per widget, for a size of a sizing mode the widget supports: `render(size, focus)` returns a canvas with
`cols() == maxcol` (box / flow), `rows() == maxrow` (box) / `rows() == self.rows(size, focus)` (flow) /
`(cols, rows) == self.pack(size, focus)` (fixed); a cursor, if present, lies inside; `sizing()` tells the truth.
Children and canvases are opaque protocol objects (contracts/proto_widget.py)."""
from pyvc.api import *
from pyvc.api import PROTOCOLS, REGISTRY
from pyvc.values import cur, is_none, mk_bool
from contracts.proto_widget import *
from contracts.C19_space import size_ok
from contracts.C09_geometry import calls, opt_eq_shift

from urwid import canvas as _canvas
from urwid.widget import divider as _divider
from urwid.widget import solid_fill as _solid_fill
from urwid.widget import widget_decoration as _wd
from urwid.widget.constants import Sizing

WIDGET = Opaque("Widget")
FLOWSIZE = Tup(Int)
BOXSIZE = Tup(Int, Int)
ANYSIZE = Union(Tup(Int, Int), Tup(Int), Tup())

# ============================================================================================ Divider
DV = "urwid/widget/divider.py:"
DIVIDER = Obj(_divider.Divider, dict(div_char=Opaque("FillChar"), top=Int, bottom=Int))


def divider_wf(s):
    """What the constructor's documentation asks: numbers of blank lines (non-negative)."""
    return both(0 <= s.top, s.top < PARTMAX, 0 <= s.bottom, s.bottom < PARTMAX)


def _dv_frame(old, s):
    return both(s.top == old.top, s.bottom == old.bottom, eq(s.div_char, old.div_char))


@contract(DV + "Divider.rows", property="C01", replayable=False)
class divider_rows:
    self_shape = DIVIDER
    params = dict(size=FLOWSIZE, focus=Bool)
    result = Int
    raises = ()

    def requires(s, a):
        return both(divider_wf(s), size_ok(a.size))

    def ensures(old, s, a, result):
        yield "line-plus-blank-lines", result == old.top + 1 + old.bottom
        yield "at-least-one-row", result >= 1
        yield "frame", _dv_frame(old, s)

    def pure_spec(old, a):
        return old.top + 1 + old.bottom


@contract(DV + "Divider.render", property="C01", replayable=False)
class divider_render:
    self_shape = DIVIDER
    params = dict(size=FLOWSIZE, focus=Bool)
    result = CCANVAS
    raises = ()

    def requires(s, a):
        return both(divider_wf(s), size_ok(a.size))

    def ensures(old, s, a, r):
        yield "cols-as-asked", r.ncols == a.size[0]
        yield "rows-equal-own-rows", r.nrows == divider_rows.spec_value(old, size=a.size, focus=a.focus)
        yield "no-cursor", is_none(r.cursor)
        yield "frame", _dv_frame(old, s)


# ============================================================================================ SolidFill
SF = "urwid/widget/solid_fill.py:"
SOLIDFILL = Obj(_solid_fill.SolidFill, dict(fill_char=Opaque("FillChar")))
SOLIDCANVAS = canvas_shape(_canvas.SolidCanvas)


@contract(SF + "SolidFill.render", property="C01", replayable=False)
class solidfill_render:
    self_shape = SOLIDFILL
    params = dict(size=BOXSIZE, focus=Bool)
    result = SOLIDCANVAS
    raises = ()

    def requires(s, a):
        return size_ok(a.size)

    def ensures(old, s, a, r):
        yield "cols-as-asked", r.ncols == a.size[0]
        yield "rows-as-asked", r.nrows == a.size[1]
        yield "no-cursor", is_none(r.cursor)
        yield "frame", eq(s.fill_char, old.fill_char)


# ============================================================================================ WidgetDisable
WD = "urwid/widget/widget_decoration.py:"
DISABLE = Obj(_wd.WidgetDisable, dict(_original_widget=WIDGET))


def _child_call(name):
    return calls(name)


@contract(WD + "WidgetDisable.render", property="C01", replayable=False)
class disable_render:
    """Whatever sizing mode the child supports (WidgetDisable reports the child's): the child's canvas at that size,
    rendered without focus, wrapped -- same columns, same rows, no cursor."""
    self_shape = DISABLE
    params = dict(size=ANYSIZE, focus=Bool)
    result = CCANVAS
    raises = ()

    def requires(s, a):
        return size_ok(a.size)

    def ensures(old, s, a, r):
        W = PROTOCOLS["Widget"]
        w = old._original_widget
        child = W.call_quiet(cur(), w, "render", dict(size=a.size, focus=False))
        yield "size-is-the-childs", both(r.ncols == child.ncols, r.nrows == child.nrows)
        if len(a.size) == 2:
            yield "box-size-as-asked", both(r.ncols == a.size[0], r.nrows == a.size[1])
        elif len(a.size) == 1:
            yield "flow-cols-as-asked", r.ncols == a.size[0]
            yield "flow-rows-equal-own-rows", r.nrows == disable_rows.spec_value(old, size=a.size, focus=a.focus)
        else:
            pk = disable_pack.spec_value(old, size=a.size, focus=a.focus)
            yield "fixed-size-equals-own-pack", both(r.ncols == pk[0], r.nrows == pk[1])
        yield "never-a-cursor", is_none(r.cursor)
        rc = calls("render")
        yield "child-rendered-once-unfocused", both(len(rc) == 1, eq(rc[0][3]["size"], a.size) if rc else False, eq(rc[0][3]["focus"], False) if rc else False)
        yield "frame", eq(s._original_widget, old._original_widget)


@contract(WD + "WidgetDisable.rows", property="C01", replayable=False)
class disable_rows:
    self_shape = DISABLE
    params = dict(size=FLOWSIZE, focus=Bool)
    result = Int
    raises = ()

    def requires(s, a):
        return size_ok(a.size)

    def ensures(old, s, a, result):
        W = PROTOCOLS["Widget"]
        yield "the-unfocused-childs-rows", result == W.call_quiet(cur(), old._original_widget, "rows", dict(size=a.size, focus=False))
        yield "nonnegative", result >= 0
        yield "frame", eq(s._original_widget, old._original_widget)

    def pure_spec(old, a):
        return PROTOCOLS["Widget"].call_quiet(cur(), old._original_widget, "rows", dict(size=a.size, focus=False))


@contract(WD + "WidgetDisable.pack", property="C01", replayable=False)
class disable_pack:
    self_shape = DISABLE
    params = dict(size=ANYSIZE, focus=Bool)
    result = Tup(Int, Int)
    raises = ()

    def requires(s, a):
        return size_ok(a.size)

    def ensures(old, s, a, result):
        W = PROTOCOLS["Widget"]
        want = W.call_quiet(cur(), old._original_widget, "pack", dict(size=a.size, focus=False))
        yield "the-unfocused-childs-pack", both(result[0] == want[0], result[1] == want[1])
        yield "frame", eq(s._original_widget, old._original_widget)

    def pure_spec(old, a):
        return PROTOCOLS["Widget"].call_quiet(cur(), old._original_widget, "pack", dict(size=a.size, focus=False))


# ============================================================================================ the delegating mixin
# WidgetWrap, WidgetPlaceholder, AttrMap, PopUpLauncher, LineBox forward the widget interface to one attribute through
# `delegate_to_widget_mixin(attribute_name)`: render is a method of the mixin class, rows / pack / sizing are
# properties returning the delegate's bound method.
MIX = "urwid/widget/widget.py:delegate_to_widget_mixin.<locals>.DelegateToWidgetMixin."
WRAP = Obj(urwid.WidgetWrap, dict(_wrapped_widget=WIDGET))
PLACEHOLDER = Obj(_wd.WidgetPlaceholder, dict(_original_widget=WIDGET))


def _mixin_render(alias, shape, attr, cls):
    @contract(MIX + "render", property="C01", alias=alias, replayable=False, defcls=cls)
    class _r:
        self_shape = shape
        params = dict(size=ANYSIZE, focus=Bool)
        result = CCANVAS
        raises = ()

        def requires(s, a):
            return size_ok(a.size)

        def ensures(old, s, a, r):
            W = PROTOCOLS["Widget"]
            w = old.fields[attr]
            child = W.call_quiet(cur(), w, "render", dict(size=a.size, focus=a.focus))
            yield "size-is-the-delegates", both(r.ncols == child.ncols, r.nrows == child.nrows)
            if len(a.size) == 2:
                yield "box-size-as-asked", both(r.ncols == a.size[0], r.nrows == a.size[1])
            elif len(a.size) == 1:
                yield "flow-cols-as-asked", r.ncols == a.size[0]
                yield "flow-rows-equal-delegates-rows", r.nrows == W.call_quiet(cur(), w, "rows", dict(size=a.size, focus=a.focus))
            else:
                pk = W.call_quiet(cur(), w, "pack", dict(size=a.size, focus=a.focus))
                yield "fixed-size-equals-delegates-pack", both(r.ncols == pk[0], r.nrows == pk[1])
            yield "cursor-is-the-delegates", opt_eq_shift(r.cursor, child.cursor, 0, 0)
            yield "cursor-inside", canvas_wf(r)
            rc = calls("render")
            yield "delegate-rendered-once-same-size-and-focus", both(len(rc) == 1, eq(rc[0][1], w) if rc else False, eq(rc[0][3]["size"], a.size) if rc else False, eq(rc[0][3]["focus"], a.focus) if rc else False)
            yield "frame", eq(s.fields[attr], old.fields[attr])

    _r.__name__ = f"mixin_render_{alias}"
    return _r


def _mixin_class_of(cls):
    """The class `delegate_to_widget_mixin(name)` made for `cls` (each call of the factory makes its own)."""
    return next(c for c in cls.__mro__ if c.__qualname__ == "delegate_to_widget_mixin.<locals>.DelegateToWidgetMixin")


from urwid.widget import attr_map as _attr_map, line_box as _line_box, popup as _popup0  # noqa: E402

# every bundled class that is built on the mixin: (alias, class, delegate attribute); WidgetWrap's subclasses (Button,
# CheckBox, GridFlow, TreeWidget ...) share WidgetWrap's mixin class
MIXIN_USERS = (
    ("wrapped-widget", urwid.WidgetWrap, "_wrapped_widget"),
    ("original-widget", _wd.WidgetPlaceholder, "_original_widget"),
    ("AttrMap", _attr_map.AttrMap, "_original_widget"),
    ("PopUpLauncher", _popup0.PopUpLauncher, "_original_widget"),
    ("LineBox", _line_box.LineBox, "_wrapped_widget"),
)
for _alias, _cls, _attr in MIXIN_USERS:
    if _alias not in ("AttrMap", "PopUpLauncher"):  # (their own render: contracts/C17_attrs.py, launcher_render below)
        _mixin_render(_alias, Obj(_cls, {_attr: WIDGET}), _attr, _mixin_class_of(_cls))


def _is_bound_method_of(result, w, name):
    """The value is the delegate's own bound method `name` (an opaque protocol method of that very widget): calling it
    IS calling the delegate, so rows / pack / sizing of the wrapper are the delegate's for every argument."""
    from pyvc.protocol import OpaqueCall

    return isinstance(result, OpaqueCall) and result.name == name and str(result.recv.e) == str(w.e)


def _mixin_getter(name, alias, shape, attr, cls):
    @contract(MIX + name, property="C01", alias=alias, replayable=False, defcls=cls)
    class _g:
        self_shape = shape
        params = {}
        raises = ()

        def ensures(old, s, a, result):
            yield f"is-the-delegates-own-{name}", _is_bound_method_of(result, old.fields[attr], name)
            yield "asks-no-one", len(calls()) == 0
            yield "frame", eq(s.fields[attr], old.fields[attr])

    _g.__name__ = f"mixin_{name}_{alias}"
    return _g


import inspect as _inspect  # noqa: E402

for _n in ("rows", "pack", "sizing", "selectable"):
    for _alias, _cls, _attr in MIXIN_USERS:
        # only where the class really gets the attribute from its mixin (LineBox takes sizing / selectable from
        # WidgetDecoration, which comes first in its MRO; AttrMap / PopUpLauncher override render but not these)
        if _inspect.getattr_static(_cls, _n) is _inspect.getattr_static(_mixin_class_of(_cls), _n):
            _mixin_getter(_n, _alias, Obj(_cls, {_attr: WIDGET}), _attr, _mixin_class_of(_cls))


# ============================================================================================ WidgetDecoration / WidgetDisable: sizing
DECORATION = Obj(_wd.WidgetDecoration, dict(_original_widget=WIDGET))


def _sizing_contract(clsname, shape, prefix=WD):
    @contract(prefix + clsname + ".sizing", property="C01", replayable=False)
    class _s:
        """`sizing()` tells the truth: a decoration that draws nothing of its own supports exactly the modes of the
        widget it shows (its render / rows / pack hand the size on unchanged)."""
        self_shape = shape
        params = {}
        result = Opaque("SizingSet")
        raises = ()

        def ensures(old, s, a, result):
            W = PROTOCOLS["Widget"]
            want = W.call_quiet(cur(), old._original_widget, "sizing", {})
            yield "exactly-the-childs-modes", eq(result, want)
            for mode in (Sizing.BOX, Sizing.FLOW, Sizing.FIXED):
                yield f"{mode.value}-iff-child-does", eq(PROTOCOLS["SizingSet"].contains(cur(), result, mode), sizing_has(old._original_widget, mode))
            sc = calls("sizing")
            yield "asks-the-child-once", both(len(sc) == 1, eq(sc[0][1], old._original_widget) if sc else False)
            yield "frame", eq(s._original_widget, old._original_widget)

    _s.__name__ = f"sizing_{clsname}"
    return _s


decoration_sizing = _sizing_contract("WidgetDecoration", DECORATION)
disable_sizing = _sizing_contract("WidgetDisable", DISABLE)

from urwid.widget import attr_wrap as _aw  # noqa: E402

attrwrap_sizing = _sizing_contract("AttrWrap", Obj(_aw.AttrWrap, dict(_original_widget=WIDGET)), "urwid/widget/attr_wrap.py:")


# ============================================================================================ PopUpLauncher
from urwid.widget import popup as _popup  # noqa: E402

PU = "urwid/widget/popup.py:"
from contracts.C09_frame import widget_truthy  # noqa: E402

# (the pop-up widget's truth value is read: an opaque widget is truthy unless its class defines __len__ and it is empty)
LAUNCHER = Obj(_popup.PopUpLauncher, dict(_original_widget=WIDGET, _pop_up_widget=Opt(Opaque("Widget", truth=widget_truthy))))


def _popup_params(st, hint):
    from pyvc.seqs import DRef

    return DRef({k: Int.fresh(st, f"{hint}.{k}") for k in ("left", "top", "overlay_width", "overlay_height")})


@contract(PU + "PopUpLauncher.get_pop_up_parameters", property=(), assumed=True,
          notes="abstract in PopUpLauncher (raises NotImplementedError): stands for the subclass override the class documents -- "
                "returns a dict with exactly the keys left, top, overlay_width, overlay_height (any integers) and touches nothing")
class popup_params:
    self_shape = LAUNCHER
    result = Custom(_popup_params, "pop-up parameters")
    modifies = ()


@contract("urwid/canvas.py:Canvas.set_pop_up", property=(), assumed=True,
          notes="canvas protocol: records the pop-up request in coords['pop up'] -- size, cursor and content untouched; CanvasError only on a "
                "finalized canvas, which a freshly made CompositeCanvas is not")
class canvas_set_pop_up:
    self_shape = CCANVAS
    modifies = ()
    log_event = "set_pop_up"


@contract(PU + "PopUpLauncher.render", property="C01", replayable=False, inline=(MIX + "render",))
class launcher_render:
    """The canvas of the widget it decorates, whatever the sizing mode (it reports the delegate's): an open pop-up adds
    a request for the PopUpTarget above and changes neither size nor cursor."""
    self_shape = LAUNCHER
    params = dict(size=ANYSIZE, focus=Bool)
    result = CCANVAS
    raises = ()

    def requires(s, a):
        return size_ok(a.size)

    def ensures(old, s, a, r):
        W = PROTOCOLS["Widget"]
        w = old._original_widget
        child = W.call_quiet(cur(), w, "render", dict(size=a.size, focus=a.focus))
        yield "size-is-the-delegates", both(r.ncols == child.ncols, r.nrows == child.nrows)
        if len(a.size) == 2:
            yield "box-size-as-asked", both(r.ncols == a.size[0], r.nrows == a.size[1])
        elif len(a.size) == 1:
            yield "flow-cols-as-asked", r.ncols == a.size[0]
            yield "flow-rows-equal-delegates-rows", r.nrows == W.call_quiet(cur(), w, "rows", dict(size=a.size, focus=a.focus))
        else:
            pk = W.call_quiet(cur(), w, "pack", dict(size=a.size, focus=a.focus))
            yield "fixed-size-equals-delegates-pack", both(r.ncols == pk[0], r.nrows == pk[1])
        yield "cursor-is-the-delegates", opt_eq_shift(r.cursor, child.cursor, 0, 0)
        yield "cursor-inside", canvas_wf(r)
        rc = calls("render")
        yield "delegate-rendered-once-same-size-and-focus", both(len(rc) == 1, eq(rc[0][1], w) if rc else False, eq(rc[0][3]["size"], a.size) if rc else False, eq(rc[0][3]["focus"], a.focus) if rc else False)
        asked = [ev for ev in r.trace if ev[0] == "set_pop_up"]
        if is_none(old._pop_up_widget):
            yield "closed-no-pop-up-request", len(asked) == 0
        else:
            yield "at-most-one-pop-up-request-for-the-pop-up-widget", both(len(asked) <= 1, eq(asked[0][1], val(old._pop_up_widget)) if asked else True)
        yield "frame", both(eq(s._original_widget, old._original_widget), opt_eq(s._pop_up_widget, old._pop_up_widget))


# ============================================================================================ Widget.pack / Widget.sizing as the leaves inherit them
from urwid.widget.widget import WidgetError  # noqa: E402

WP = "urwid/widget/widget.py:"


def _inherited_pack(alias, shape, modes, rows_contract, wf):
    """`Widget.pack` as inherited by a leaf class whose `_sizing` is `modes`: a box size is returned as it is, a flow
    size gives (maxcol, rows) for a flow widget; a size of a mode the widget does not support raises WidgetError
    (the documented error) and nothing else."""
    @contract(WP + "Widget.pack", property="C01", alias=alias, replayable=False, inline=(WP + "Widget.sizing",))
    class _p:
        self_shape = shape
        params = dict(size=ANYSIZE, focus=Bool)
        result = Tup(Int, Int)
        raises = (WidgetError,)

        def requires(s, a):
            return both(wf(s), size_ok(a.size))

        def ensures(old, s, a, result):
            if len(a.size) == 2:
                yield "box-size-returned-as-given", both(result[0] == a.size[0], result[1] == a.size[1])
            elif len(a.size) == 1:
                yield "flow-size-accepted-only-by-a-flow-widget", Sizing.FLOW in modes
                if rows_contract is not None:
                    yield "flow-pack-is-maxcol-and-own-rows", both(result[0] == a.size[0], result[1] == rows_contract.spec_value(old, size=a.size, focus=a.focus))
            else:
                yield "fixed-size-never-answered-by-the-default", False

        def on_raise(old, s, a, exc):
            yield "only-for-a-mode-the-widget-does-not-report", either(both(len(a.size) == 0, Sizing.FIXED not in modes), both(len(a.size) == 1, Sizing.FLOW not in modes))

    _p.__name__ = f"pack_{alias}"
    return _p


def _inherited_sizing(alias, shape, modes):
    @contract(WP + "Widget.sizing", property="C01", alias=alias, replayable=False)
    class _s:
        self_shape = shape
        params = {}
        raises = ()

        def ensures(old, s, a, result):
            yield "exactly-the-modes-render-accepts", result == frozenset(modes)

    _s.__name__ = f"sizing_{alias}"
    return _s


divider_pack = _inherited_pack("Divider", DIVIDER, (Sizing.FLOW,), divider_rows, divider_wf)
divider_sizing = _inherited_sizing("Divider", DIVIDER, (Sizing.FLOW,))
solidfill_pack = _inherited_pack("SolidFill", SOLIDFILL, (Sizing.BOX,), None, lambda s: True)
solidfill_sizing = _inherited_sizing("SolidFill", SOLIDFILL, (Sizing.BOX,))


# ============================================================================================ ProgressBar
from urwid.widget import progress_bar as _pb  # noqa: E402

PROGRESSBAR = Obj(_pb.ProgressBar, {})


@contract("urwid/widget/progress_bar.py:ProgressBar.rows", property="C01", replayable=False)
class progressbar_rows:
    """One row at every width.  (ProgressBar.render -- a one-line clipped Text canvas whose bytes and attribute runs are
    rewritten in place -- is not under contract: see the report.)"""
    self_shape = PROGRESSBAR
    params = dict(size=FLOWSIZE, focus=Bool)
    result = Int
    raises = ()

    def requires(s, a):
        return size_ok(a.size)

    def ensures(old, s, a, result):
        yield "exactly-one-row", result == 1

    def pure_spec(old, a):
        return 1


progressbar_pack = _inherited_pack("ProgressBar", PROGRESSBAR, (Sizing.FLOW,), progressbar_rows, lambda s: True)
progressbar_sizing = _inherited_sizing("ProgressBar", PROGRESSBAR, (Sizing.FLOW,))


# ============================================================================================ sizes of a mode the leaf does not report
def _wrong_mode(target, shape, sizes, wf=lambda s: True):
    """`sizing()` tells the truth, other direction: a size of a mode the widget does not report is refused (ValueError
    from unpacking the size tuple) before anything is drawn -- "the widget should fail when used in that mode"."""
    @contract(target, property="C01", alias="wrong-mode", replayable=False)
    class _w:
        self_shape = shape
        params = dict(size=sizes, focus=Bool)
        raises = (ValueError,)

        def requires(s, a):
            return both(wf(s), size_ok(a.size))

        def ensures(old, s, a, r):
            yield "never-answers", False

        def on_raise(old, s, a, exc):
            yield "nothing-drawn", len([ev for ev in cur().trace if ev[0] in ("call", "combine", "join")]) == 0

    _w.__name__ = "wrong_mode_" + target.split(":")[1].replace(".", "_")
    return _w


_wrong_mode(DV + "Divider.render", DIVIDER, Union(Tup(), Tup(Int, Int)), divider_wf)
_wrong_mode(DV + "Divider.rows", DIVIDER, Union(Tup(), Tup(Int, Int)), divider_wf)
_wrong_mode(SF + "SolidFill.render", SOLIDFILL, Union(Tup(), Tup(Int)))


@contract(WP + "Widget.pack", property="C01", alias="box", replayable=False)
class widget_pack_box:
    """The default pack() of every widget for a box size: the size as given, whatever the widget (sizing() is not even
    consulted) -- so a box rendering "of the size pack reports" is a rendering of the size asked for."""
    self_shape = Obj(urwid.Widget, {})
    params = dict(size=BOXSIZE, focus=Bool)
    result = Tup(Int, Int)
    raises = ()

    def ensures(old, s, a, result):
        yield "box-size-returned-as-given", both(result[0] == a.size[0], result[1] == a.size[1])
        yield "asks-no-one", len(calls()) == 0


def _xc_mixin_classes():
    """CPython cross-check of the `defcls` engine hook as used here: for every bundled class built on the mixin, the class
    named to the engine is the one in its MRO, its methods / properties are the ones whose source text is verified, and the
    closure cell `get_delegate` of each holds attrgetter(<the delegate attribute named in the contract>)."""
    import operator

    bad = []
    for alias, cls, attr in MIXIN_USERS:
        mix = _mixin_class_of(cls)
        if mix not in cls.__mro__ or mix.__module__ != "urwid.widget.widget":
            bad.append((alias, "class"))
        for name in ("render", "rows", "pack", "sizing", "selectable"):
            raw = _inspect.getattr_static(mix, name)
            raw = raw.fget if isinstance(raw, property) else raw
            while "get_delegate" not in getattr(getattr(raw, "__code__", None), "co_freevars", ()) and hasattr(raw, "__wrapped__"):
                raw = raw.__wrapped__
            try:
                cell = raw.__closure__[raw.__code__.co_freevars.index("get_delegate")].cell_contents
            except (AttributeError, ValueError, TypeError):
                bad.append((alias, name, "no closure"))
                continue
            if not (isinstance(cell, operator.attrgetter) and cell.__reduce__()[1] == (attr,)):
                bad.append((alias, name, "delegate"))
    probe = urwid.WidgetPlaceholder(urwid.Divider())
    if probe.rows((3,)) != 1 or probe.render((3,)).rows() != 1 or probe.sizing() != frozenset((Sizing.FLOW,)):
        bad.append(("WidgetPlaceholder", "behaviour"))
    return "mixin-classes-and-closure-cells-agree-with-cpython", not bad, f"{len(MIXIN_USERS)} classes x 5 members; mismatches: {bad[:5]}"


REGISTRY[MIX + "render#wrapped-widget"].static_checks = [_xc_mixin_classes]
