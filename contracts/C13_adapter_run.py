"""C13 / C12 — the adapter loops' exception plumbing between a callback and run(), as far as urwid's own Python
goes (asyncio, tornado, twisted, trio schedulers are opaque: nothing is claimed about when they call what).

Statement: "An exception raised in any callback stops the loop: silently for ExitMainLoop, re-raised from run()
exactly once otherwise."

  * AsyncioEventLoop._exception_handler (what asyncio calls with the exception of a callback): stops the loop,
    cancels and forgets a pending idle pass, keeps the exception for run() unless it is ExitMainLoop.
  * TornadoEventLoop.handle_exit.<wrapper> (what tornado calls for every alarm / watch / idle pass): same duty,
    done by the wrapper itself.
  * AsyncioEventLoop.run / TornadoEventLoop.run / TwistedEventLoop.run: after the scheduler returned, an exception
    kept in `_exc` is raised -- that very object -- and forgotten (so it is raised exactly once); with nothing kept,
    run() returns.  While the scheduler runs, `_exc` changes only through the handler / wrapper above (rely).
  * TrioEventLoop._handle_main_loop_exception / run: ExitMainLoop (also as the only member of an exception group)
    ends run() silently, anything else leaves run() as the very exception trio delivered.

An exception VALUE is an arbitrary instance of an arbitrary class: in particular its truth value is unknown (a class
may define __bool__ / __len__), which is what tells `if self._exc:` from `if self._exc is not None:`."""
import sys

import z3

from pyvc import seqs as Q
from pyvc import shapes as S
from pyvc import source as SRC
from pyvc import values as V
from pyvc.api import *
from pyvc.api import PROTOCOLS
from pyvc.engine import PyRaise, SExc
from pyvc.interp import FnVal
from pyvc.protocol import OpaqueCall, Protocol
from pyvc.seqs import ModelObj
from pyvc.values import cur, mk_bool

from contracts.C13_loops import SMap
from contracts import C13_asyncio_idle as _AI
from urwid.event_loop import asyncio_loop as _al
from urwid.event_loop.abstract_loop import ExitMainLoop

AL = "urwid/event_loop/asyncio_loop.py:"
TOL = "urwid/event_loop/tornado_loop.py:"
TWL = "urwid/event_loop/twisted_loop.py:"
TRL = "urwid/event_loop/trio_loop.py:"
TH = S.opaque_sort("TimerHandle")


def some_exception(st, cls, site, hint="exc"):
    """An exception instance of class `cls` whose truth value is unknown."""
    e = SExc(cls, (f"<{hint}>",), site=site)
    e.attrs["__bool__"] = st.fresh_bool(hint + "_truthy")
    return e


def kept_exception(st, hint):
    """The value of `_exc`: None, or an exception kept by the handler / wrapper (never ExitMainLoop)."""
    k = st.fork(2)
    return None if k == 0 else some_exception(st, Exception, "kept by the exception handler", hint)


def _has(v):
    if v is None:
        return False
    if isinstance(v, V.SOpt):
        return neg(mk_bool(v.isnone))
    return True


class TimerHandleProtocol(Protocol):
    """asyncio.TimerHandle: cancel() of the handle kept in `_idle_asyncio_handle` withdraws the pending idle pass
    (ghost count `ghost_idle_calls`, see contracts/C13_asyncio_idle.py)."""
    kind = "TimerHandle"
    methods = {}

    def getattr(self, ip, st, obj, name):
        if name == "cancel":
            return OpaqueCall(obj, name, self)
        raise Unsupported(f"attribute {name} of a timer handle")

    def call(self, ip, st, recv, name, args, kwargs):
        st.event("handle.cancel", recv)
        o = st.ghost.get("loop_obj")
        if o is not None and "ghost_idle_calls" in o.fields:
            o.fields["ghost_idle_calls"] = ite(o.fields["ghost_idle_calls"] > 0, o.fields["ghost_idle_calls"] - 1, 0)
        return None


PROTOCOLS["TimerHandle"] = TimerHandleProtocol()


class SScheduler(ModelObj):
    """The asyncio loop / tornado IOLoop / twisted reactor as the run wrappers use it: every call is logged;
    run_forever() / start() / run() is where the scheduler calls urwid's handler / wrapper any number of times:
    afterwards `_exc` is None or an exception they kept (rely: proved of the handler / wrapper below)."""

    def py_call(self, ip, st, name, args, kwargs):
        st.event("sched." + name, *args)
        if name in ("run_forever", "start", "run"):
            o = st.ghost["loop_obj"]
            o.fields["_exc"] = kept_exception(st, "kept")
            st.ghost["kept"] = o.fields["_exc"]
            return None
        if name in ("stop", "default_exception_handler", "set_exception_handler", "remove_timeout"):
            if name == "remove_timeout":
                o = st.ghost.get("loop_obj")
                if o is not None and "ghost_idle_calls" in o.fields:
                    o.fields["ghost_idle_calls"] = ite(o.fields["ghost_idle_calls"] > 0, o.fields["ghost_idle_calls"] - 1, 0)
            return None
        raise Unsupported(f"scheduler.{name}")


class SContext(ModelObj):
    """The context dict asyncio hands to an exception handler: only .get("exception") is used."""

    def __init__(self, exc):
        self.exc = exc

    def py_call(self, ip, st, name, args, kwargs):
        if name == "get" and len(args) == 1 and args[0] == "exception":
            return self.exc
        raise Unsupported(f"context.{name}{tuple(args)!r}")


def _fresh_context(st, hint):
    k = st.fork(4)
    exc = {0: None, 1: some_exception(st, ExitMainLoop, "user callback"), 2: some_exception(st, Exception, "user callback"),
           3: some_exception(st, KeyboardInterrupt, "user callback")}[k]
    return SContext(exc)


def _fresh_run_obj(cls):
    def mk(st, hint):
        o = Q.SObj(cls, dict(
            _loop=SScheduler(), reactor=SScheduler(), manage_reactor=st.fresh_bool("manage"),
            _exc=kept_exception(st, "old"),
            _idle_asyncio_handle=V.SOpt(z3.Bool(st.fresh_name("no_handle")), V.SOpaque("TimerHandle", z3.Const(st.fresh_name("th0"), TH))),
            ghost_idle_calls=st.fresh_int("idle_calls")))
        st.ghost["loop_obj"] = o
        return o

    return mk


def _setup(st, self_obj, vals):
    st.ghost["loop_obj"] = self_obj
    st.ghost["exc_at_entry"] = self_obj.fields["_exc"]
    st.ghost["handle_at_entry"] = self_obj.fields["_idle_asyncio_handle"]


AIO_X = Custom(_fresh_run_obj(_al.AsyncioEventLoop), "AsyncioEventLoop")
AIO_X.fields = {}


def _ev(name):
    return [ev for ev in cur().trace if ev[0] == name]


# ---- asyncio

@contract(AL + "AsyncioEventLoop._exception_handler", property=("C13", "C12"), replayable=False)
class aio_exception_handler:
    self_shape = AIO_X
    params = dict(loop=Custom(lambda st, hint: SScheduler(), "asyncio loop"), context=Custom(_fresh_context, "context"))
    setup = staticmethod(_setup)
    invariant = staticmethod(_AI.inv)  # at most one idle pass pending, and the attribute says whether one is

    def ensures(old, s, a, result):
        st = cur()
        exc = a.context.exc
        stops, defaults, cancels = _ev("sched.stop"), _ev("sched.default_exception_handler"), _ev("handle.cancel")
        if exc is None:
            yield "no-exception-in-the-context-left-to-the-default-handler", both(len(defaults) == 1 and defaults[0][1] is a.context, not stops, not cancels)
            yield "nothing-kept-nothing-forgotten", both(s._exc is st.ghost["exc_at_entry"], s._idle_asyncio_handle is st.ghost["handle_at_entry"])
            return
        # (an exception whose instance is falsy -- class Quiet(Exception): __bool__ = lambda self: False -- is an
        # exception all the same: fixed in /repo 8c89c02, `is not None`; before, it was taken for "no exception")
        yield "any-exception-of-a-callback-stops-the-loop", both(len(stops) == 1, not defaults)
        yield "a-pending-idle-pass-is-cancelled-and-forgotten", both(
            neg(_has(s._idle_asyncio_handle)), s.ghost_idle_calls == 0,
            implies(_has(st.ghost["handle_at_entry"]), len(cancels) == 1), implies(neg(_has(st.ghost["handle_at_entry"])), not cancels))
        if issubclass(exc.cls, ExitMainLoop):
            yield "ExitMainLoop-is-not-kept", s._exc is st.ghost["exc_at_entry"]
        else:
            yield "any-other-exception-is-kept-for-run-the-very-object", s._exc is exc


@contract(AL + "AsyncioEventLoop.run", property=("C13", "C12"), replayable=False)
class aio_run:
    self_shape = AIO_X
    raises = (Exception,)
    setup = staticmethod(_setup)

    def requires(s, a):
        return s._exc is None  # nothing kept from an earlier run (each run() forgets what it raises: proved below)

    def ensures(old, s, a, result):
        yield from _run_claims(s, None, ("sched.set_exception_handler", "sched.run_forever"))

    def on_raise(old, s, a, exc):
        yield from _run_claims(s, exc, ("sched.set_exception_handler", "sched.run_forever"))


def _run_claims(s, exc, sched_calls):
    st = cur()
    kept = st.ghost.get("kept")
    calls = [ev[0] for ev in st.trace if ev[0].startswith("sched.")]
    yield "the-scheduler-ran-once", calls == list(sched_calls)
    if sched_calls[0] == "sched.set_exception_handler":
        h = [ev for ev in st.trace if ev[0] == "sched.set_exception_handler"]
        yield "with-urwids-exception-handler-installed", len(h) == 1 and isinstance(h[0][1], FnVal) and h[0][1].ref.node.name == "_exception_handler" and h[0][1].bound is s
    # (a kept exception whose instance is falsy -- class with __bool__ / __len__ -- is raised like any other: fixed in
    # /repo 8c89c02, `if self._exc is not None`; before, run() returned normally and kept it)
    if exc is None:
        yield "returns-only-if-no-exception-was-kept", kept is None
    else:
        yield "raises-the-very-exception-that-was-kept", exc is kept
    yield "and-forgets-it-so-it-is-raised-exactly-once", s._exc is None


# ---- tornado

try:
    from urwid.event_loop import tornado_loop as _tol
except ImportError:  # pragma: no cover
    _tol = None

if _tol is not None:
    TOR_X = Custom(_fresh_run_obj(_tol.TornadoEventLoop), "TornadoEventLoop")
    TOR_X.fields = {}

    def _tor_havoc(st):
        """Rely: the loop's public operations called by a user callback do not touch `_exc`, `_idle_asyncio_handle` or
        the pending-pass count (contracts/C13_asyncio_idle.py: pending-idle-pass-untouched)."""
        st.ghost["last_lookup"] = None
        st.ghost["last_pop"] = None

    @contract(TOL + "TornadoEventLoop.run", property=("C13", "C12"), replayable=False)
    class tor_run:
        self_shape = TOR_X
        raises = (Exception,)
        setup = staticmethod(_setup)

        def requires(s, a):
            return s._exc is None

        def ensures(old, s, a, result):
            yield from _run_claims(s, None, ("sched.start",))

        def on_raise(old, s, a, exc):
            yield from _run_claims(s, exc, ("sched.start",))

    def _tor_wrapper_claims(a, result):
        st = cur()
        s = a.g_self
        raised = st.ghost.get("callback_raised")
        stops, removes = _ev("sched.stop"), _ev("sched.remove_timeout")
        yield "the-callback-ran-exactly-once", count_ev(st.trace, "callback") == 1
        if raised is None:
            yield "a-callback-that-returns-stops-nothing", both(not stops, not removes, s._exc is st.ghost["exc_at_entry"], s._idle_asyncio_handle is st.ghost["handle_at_entry"])
            return
        yield "an-exception-of-the-callback-stops-the-loop", len(stops) == 1
        yield "a-pending-idle-pass-is-withdrawn-and-forgotten", both(
            neg(_has(s._idle_asyncio_handle)), s.ghost_idle_calls == 0,
            implies(_has(st.ghost["handle_at_entry"]), len(removes) == 1), implies(neg(_has(st.ghost["handle_at_entry"])), not removes))
        yield "the-wrapper-answers-False", result is False
        if issubclass(raised.cls, ExitMainLoop):
            yield "ExitMainLoop-is-not-kept", s._exc is st.ghost["exc_at_entry"]
        else:
            yield "any-other-exception-is-kept-for-run-the-very-object", s._exc is raised

    @contract(TOL + "TornadoEventLoop.handle_exit.<wrapper>", property=("C13", "C12"), replayable=False)
    class tor_wrapper:
        """What tornado calls for every alarm, watch and idle pass: f is the user's callback (or urwid's wrapper
        around it).  Exceptions derived from BaseException only are not caught: known finding C13-KF7."""
        globals_ = dict(self=TOR_X, f=Opaque("LoopCallback"))
        callback_havoc = staticmethod(_tor_havoc)
        raises = ()

        def setup(st, self_obj, vals):
            _setup(st, vals["g_self"], vals)

        def requires(a):
            return _AI.inv(a.g_self)

        def ensures(a, result):
            yield from _tor_wrapper_claims(a, result)
            yield "class-invariant", _AI.inv(a.g_self)


# ---- twisted

try:
    from urwid.event_loop import twisted_loop as _tl
except ImportError:  # pragma: no cover
    _tl = None

if _tl is not None:
    TW_X = Custom(_fresh_run_obj(_tl.TwistedEventLoop), "TwistedEventLoop")
    TW_X.fields = {}

    @contract(TWL + "TwistedEventLoop.run", property=("C13", "C12"), replayable=False)
    class tw_run:
        self_shape = TW_X
        raises = (Exception,)
        setup = staticmethod(_setup)

        def requires(s, a):
            return s._exc is None

        def ensures(old, s, a, result):
            if bool(old.manage_reactor == False):  # noqa: E712
                yield "a-reactor-managed-by-the-application-is-not-run", not [ev for ev in cur().trace if ev[0].startswith("sched.")]
                return
            yield from _run_claims(s, None, ("sched.run",))

        def on_raise(old, s, a, exc):
            yield "only-with-a-managed-reactor", old.manage_reactor == True  # noqa: E712
            yield from _run_claims(s, exc, ("sched.run",))


# ---- trio

try:
    from urwid.event_loop import trio_loop as _trl
except ImportError:  # pragma: no cover
    _trl = None

if _trl is not None:
    import trio as _trio

    def _smap_clear(self, ip, st, name, args, kwargs, _old=SMap.py_call):
        if name == "clear" and not args:
            self.has = lambda x: False
            self.size = 0
            return None
        return _old(self, ip, st, name, args, kwargs)

    SMap.py_call = _smap_clear

    def _fresh_trio(st, hint):
        o = Q.SObj(_trl.TrioEventLoop, dict(_idle_callbacks=SMap(st, "idle")))
        st.ghost["loop_obj"] = o
        return o

    TRIO_X = Custom(_fresh_trio, "TrioEventLoop")
    TRIO_X.fields = {}

    def _fresh_delivered(st, hint):
        """What trio.run / the main task may end with: ExitMainLoop, another exception, or an exception group with
        one or two members."""
        k = st.fork(6)
        one = lambda cls, h: some_exception(st, cls, "delivered by trio", h)  # noqa: E731
        if k == 0:
            return one(ExitMainLoop, "exit")
        if k == 1:
            return one(Exception, "other")
        if k == 2:
            return one(KeyboardInterrupt, "interrupt")
        g = one(BaseExceptionGroup, "group")
        g.attrs["exceptions"] = {3: (one(ExitMainLoop, "m_exit"),), 4: (one(Exception, "m_other"),), 5: (one(ExitMainLoop, "m_exit"), one(Exception, "m_other"))}[k]
        return g

    def effective(exc):
        """The exception that counts: the only member of a one-member group, else the exception itself."""
        if issubclass(exc.cls, BaseExceptionGroup) and len(exc.attrs["exceptions"]) == 1:
            return exc.attrs["exceptions"][0]
        return exc

    @contract(TRL + "TrioEventLoop._handle_main_loop_exception", property=("C13", "C12"), replayable=False)
    class trio_handle:
        self_shape = TRIO_X
        params = dict(exc=Custom(_fresh_delivered, "delivered"))
        raises = (BaseException,)
        log_event = "_handle_main_loop_exception"

        def ensures(old, s, a, result):
            yield "silent-only-for-ExitMainLoop-alone-or-as-the-only-member-of-a-group", issubclass(effective(a.exc).cls, ExitMainLoop)
            yield "idle-callbacks-dropped-the-loop-is-over", s._idle_callbacks.size == 0

        def on_raise(old, s, a, exc):
            yield "never-ExitMainLoop", not issubclass(exc.cls, ExitMainLoop)
            yield "the-very-exception-delivered-or-the-only-member-of-its-group", exc is effective(a.exc)
            yield "without-a-cause-chained-on", exc.cause is None
            yield "idle-callbacks-dropped-the-loop-is-over", s._idle_callbacks.size == 0

        # use at the call site in run(): which exception leaves is a function of the one delivered
        def on_raise_callee(old, s, a, exc):
            return ()

    class STrioInstrument(ModelObj):
        pass

    def _trio_real(ip, st, f, args, kwargs):
        if f is _trl._TrioIdleCallbackInstrument:
            st.event("instrument", *args)
            return STrioInstrument()
        if f is _trio.run:
            st.event("trio.run", args[0], kwargs.get("instruments"))
            k = st.fork(2)
            if k == 1:
                d = _fresh_delivered(st, "delivered")
                st.ghost["delivered"] = d
                raise PyRaise(d)
            return None
        return NotImplemented

    @contract(TRL + "TrioEventLoop.run", property=("C13", "C12"), replayable=False, inline=(TRL + "TrioEventLoop._handle_main_loop_exception",))
    class trio_run:
        """trio.run is opaque: it returns, or raises whatever the main task ended with.  (_handle_main_loop_exception
        is inlined here: which exception leaves run() is a function of the one trio delivered.)"""
        self_shape = TRIO_X
        raises = (BaseException,)
        call_real = staticmethod(_trio_real)
        contract_overrides = {TRL + "TrioEventLoop._handle_main_loop_exception": None}  # inlined (see above), not its contract

        def ensures(old, s, a, result):
            yield from _trio_run_claims(s, None)

        def on_raise(old, s, a, exc):
            yield from _trio_run_claims(s, exc)

    def _trio_run_claims(s, exc):
        st = cur()
        runs = [ev for ev in st.trace if ev[0] == "trio.run"]
        ins = [ev for ev in st.trace if ev[0] == "instrument"]
        yield "trio-ran-the-main-task-once-with-the-idle-instrument", (
            len(runs) == 1 and isinstance(runs[0][1], FnVal) and runs[0][1].ref.node.name == "_main_task" and runs[0][1].bound is s
            and len(ins) == 1 and ins[0][1] is s._idle_callbacks and runs[0][2] is not None)
        d = st.ghost.get("delivered")
        if exc is None:
            yield "returns-only-if-trio-returned-or-ExitMainLoop-ended-the-main-task", d is None or issubclass(effective(d).cls, ExitMainLoop)
        else:
            yield "ExitMainLoop-never-escapes", not issubclass(exc.cls, ExitMainLoop)
            yield "raises-the-very-exception-trio-delivered", d is not None and exc is effective(d)
