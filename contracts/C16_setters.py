"""C16 — whole-list assignment of a container's contents: `pile.contents = value`, `columns.contents = value`,
`gridflow.contents = value` (the `contents` property SETTERS of urwid/widget/pile.py, columns.py, grid_flow.py).

The statement's clauses for one call -- "hold exactly what a built-in list would hold and raise the same errors, leaving the
list unchanged when they do", "the same position when the item is replaced in place", "the modified callback fires ... at most
once per call and never for a failed one", "the focus-changed callback fires exactly when the focus index changes" -- are the
clauses contracts/C16_focuslist.py proves of ONE call of MonitoredFocusList.__setitem__.  An assignment of the whole contents
inherits them exactly when it IS one such call: the setter performs a single slice assignment `[:] = value` on the list object
the container already holds (same object: the callbacks wired by the constructor and every alias a caller keeps of `.contents`
stay valid) and nothing else -- no second list operation (clear + extend: the focus falls to 0 and is re-derived from nothing,
a refused item leaves the container emptied, `x.contents = x.contents` empties it, two 'modified' calls), no write of its own to
the focus index.  So the postconditions are the __setitem__ contract's clauses for key = slice(None, None, None), restated on the
container, plus "exactly one list operation on _contents, and it is that __setitem__"."""
from pyvc import seqs as Q
from pyvc.api import *
from pyvc.values import cur

from contracts import C16_focuslist as F
from contracts.C08_focus import CO, COLUMNS, PI, PILE
from contracts.C08_gridflow import GF, GRIDFLOW
from spec.focus import focus_after

ITEM = F.ITEM
ML = F.ML
# the list's own mutators are EXECUTED for the container's list (never replaced by their contracts: those speak about the events of
# their own body): whatever sequence of list operations a setter performs is what the ghost trace of `_contents` shows
LIST_BODIES = F.INLINE + tuple(ML + "MonitoredFocusList." + m for m in (
    "__setitem__", "__delitem__", "__imul__", "__iadd__", "append", "extend", "insert", "pop", "remove", "reverse", "sort", "clear"))
BODIES_NOT_CONTRACTS = {t: None for t in LIST_BODIES if "MonitoredFocusList." in t}


def _clauses(old, s, a, value):
    lst, lst0 = s._contents, old._contents
    n, k = F.length(lst0.items), F.length(value)
    ops = ev_args(lst.trace, "list-op")
    yield "one-list-op-a-slice-assignment", both(len(ops) == 1, F.op_named(ops, "__setitem__"))
    yield "length-is-the-value's", F.length(lst.items) == k
    yield "modified-exactly-once-after", both(count_ev(lst.trace, "_modified") == 1, ev_before(lst.trace, "list-op", "_modified"))
    if n > 0 and k > 0:
        # `[:] = value` replaces positions 0..n-1 in place: the focus keeps its POSITION while that position exists, else the last
        yield "focus-keeps-its-position", lst._focus == focus_after(n, lst0._focus, 0, n, 1, k)
        yield "focus-position-explicit", lst._focus == imin(lst0._focus, k - 1)
        yield from F.focus_changed_clauses(lst0, lst)  # the focus-changed callback: exactly when the index changed, with the new index


def _unchanged(old, s):
    lst, lst0 = s._contents, old._contents
    yield "unchanged", both(F.length(lst.items) == F.length(lst0.items), lst._focus == lst0._focus,
                            count_ev(lst.trace, "_modified") == 0, count_ev(lst.trace, "list-op") == 0, count_ev(lst.trace, "_focus_changed") == 0)


def _setter(target, shape, pname):
    @contract(target, property="C16", inline=LIST_BODIES, contract_overrides=BODIES_NOT_CONTRACTS, replayable=False)
    class setter:
        self_shape = shape
        params = {pname: TupleOf(ITEM)}
        raises = (IndexError, ValueError)
        invariant = staticmethod(lambda s: F.RI(s._contents))

        def ensures(old, s, a, result):
            yield from _clauses(old, s, a, getattr(a, pname))

        def on_raise(old, s, a, exc):
            yield from _unchanged(old, s)
    return setter


pile_contents_set = _setter(PI + "Pile.contents.setter", PILE, "c")
columns_contents_set = _setter(CO + "Columns.contents.setter", COLUMNS, "c")
gridflow_contents_set = _setter(GF + "GridFlow.contents.setter", GRIDFLOW, "c")
