"""C18 — colour tables: contracts on the numeric kernel of urwid/display/common.py.
The string-level round trip (descriptions <-> numbers) ranges over the statement's own finite domain and
is decided exhaustively by the bounded check; no string theory is attempted here (DESIGN.md §6 C18)."""
from pyvc import seqs as Q
from pyvc import values as V
from pyvc.api import *
from pyvc.values import cur

DC = "urwid/display/common.py:"


def item(x, i):
    return Q.seq_get(x, i) if isinstance(x, V.Sym) or isinstance(i, V.Sym) else x[i]


def length(x):
    return Q.seq_len(x) if isinstance(x, V.Sym) else len(x)


@contract(DC + "_gray_num_256", property="C18")
class gray_num_256:
    params = dict(gnum=Int)
    result = Int

    def ensures(a, result):
        yield "black-below-the-ramp", implies(a.gnum <= 0, result == 16)
        yield "white-above-the-ramp", implies(a.gnum >= 25, result == 231)
        yield "ramp", implies(both(1 <= a.gnum, a.gnum <= 24), result == 232 + a.gnum - 1)
        yield "a-256-colour-index", both(16 <= result, result <= 255)


@contract(DC + "_gray_num_88", property="C18")
class gray_num_88:
    params = dict(gnum=Int)
    result = Int

    def ensures(a, result):
        yield "black-below-the-ramp", implies(a.gnum <= 0, result == 16)
        yield "white-above-the-ramp", implies(a.gnum >= 9, result == 79)
        yield "ramp", implies(both(1 <= a.gnum, a.gnum <= 8), result == 80 + a.gnum - 1)
        yield "an-88-colour-index", both(16 <= result, result <= 87)


def nearest_index_ok(values, v, idx):
    """idx is the index of a value nearest to v (ties resolved to the upper neighbour)."""
    n = length(values)
    return both(0 <= idx, idx < n,
                implies(idx > 0, 2 * v + 1 > item(values, imax(idx - 1, 0)) + item(values, idx) if False else
                        2 * v >= item(values, imax(idx - 1, 0)) + item(values, idx)),
                implies(idx < n - 1, 2 * v < item(values, idx) + item(values, imin(idx + 1, n - 1))))


def _mid(v, k):
    """k-th midpoint boundary: 0, the rounded-up midpoints of neighbouring values, then size."""
    vs = v.values.seq
    n = length(vs)
    return ite(k <= 0, 0, ite(k >= n, v.size, (item(vs, imax(k - 1, 0)) + item(vs, imin(imax(k, 0), n - 1)) + 1) // 2))


@contract(DC + "_value_lookup_table", property="C18", replayable=False)
class value_lookup_table:
    params = dict(values=ListOf(Int(0, 2**16), min_len=1), size=Int)
    result = ListOf(Int)

    def requires(a):
        vs = a.values.seq if hasattr(a.values, "seq") else a.values
        n = length(vs)
        return both(a.size >= 1, a.size <= 2**16, forall(0, n - 1, lambda i: item(vs, i) < item(vs, i + 1)), item(vs, n - 1) < a.size, item(vs, 0) >= 0)

    def ensures(a, result):
        vs = a.values.seq if hasattr(a.values, "seq") else a.values
        tbl = result.seq if hasattr(result, "seq") else result
        yield "one-entry-per-value-below-size", length(tbl) == a.size
        yield "each-entry-is-the-nearest-value", forall(0, a.size, lambda v: nearest_index_ok(vs, v, item(tbl, v)))

    loops = {
        0: Loop(
            invariant=lambda v: both(
                Q.seq_len(v.lookup_table.seq) == _mid(v, v.i_),
                forall(0, Q.seq_len(v.lookup_table.seq), lambda x: nearest_index_ok(v.values.seq, x, Q.seq_get(v.lookup_table.seq, x))),
            ),
            shapes={"lookup_table": ListOf(Int)},
        )
    }


# =============================================================================================================
# String model for the colour descriptions (used by the contracts below).
#
# A str is modelled as CStr(n, at): its length n (int or symbolic Int) and the code point at(j) of character j.
# The model is a ModelObj, so every operation the real code performs on it is dispatched here and either has a
# definite meaning below or is Unsupported (an honest failure).  Modelled operations and the CPython facts they
# encode (each cross-checked against CPython by the static check `cstr-models-agree-with-cpython`):
#   len(s), s[i] (IndexError outside -n..n-1), s[a:b:k] for constant k >= 1 (slice.indices clamping), s == t,
#   s in <container of constants>, s.startswith(<constant>), c in "<constant>" for a one-character c, s + t,
#   iteration (one-character strs in order),
#   f"{v:d}" / f"{v:x}" / f"{v:0Wx}" for an int v >= 0 (positional digits, most significant first, lower case,
#     zero-padded to W), f"{s}" for a str,
#   int(s, 10) / int(s, 16): for a non-empty s of ASCII digits of the base — the positional value; for base 16
#     also "0x"/"0X" followed by >= 1 hex digits — the value of those digits; for EVERY other s: either ValueError
#     or some unspecified int (CPython also accepts signs, blanks, underscores and non-ASCII digits; the model
#     does not say which strings those are, so nothing can be proved from them — a sound over-approximation).
# What is trusted: exactly these statements about CPython's str/int/format.
# =============================================================================================================
import z3  # noqa: E402

from pyvc import source as SRC  # noqa: E402
from pyvc.builtins_model import norm_index  # noqa: E402
from pyvc.engine import PyRaise, SExc  # noqa: E402
from pyvc.seqs import ModelObj  # noqa: E402
from pyvc.shapes import Shape  # noqa: E402
from pyvc.values import SInt, mk_int  # noqa: E402

MAX_CODE = 0x110000


def _isint(x):
    return isinstance(x, int) and not isinstance(x, bool)


def _simp(x):
    """Simplify a symbolic int to a plain int where z3 can (lengths of slices of strings of known length)."""
    if isinstance(x, SInt):
        e = z3.simplify(x.e)
        if z3.is_int_value(e):
            return e.as_long()
        return mk_int(e)
    return x


def _pick(items, j):
    """items[j] for a concrete list and an int or symbolic j (an ite chain; no fork)."""
    if _isint(j):
        return items[j] if 0 <= j < len(items) else 0  # outside the str: an unused placeholder
    r = items[-1]
    for k in range(len(items) - 2, -1, -1):
        r = ite(j == k, items[k], r)
    return r


class CStr(ModelObj):
    def __init__(self, n, at):
        self.n = _simp(n)
        self.at = at

    @staticmethod
    def of(s):
        if isinstance(s, CStr):
            return s
        if isinstance(s, str):
            codes = [ord(ch) for ch in s]
            return CStr.codes(codes)
        raise Unsupported(f"not a str: {s!r}")

    @staticmethod
    def codes(codes):
        codes = list(codes)
        return CStr(len(codes), (lambda j: _pick(codes, j)) if codes else (lambda j: 0))

    # ---- dispatch from the interpreter
    def py_len(self, st):
        return self.n

    def py_truth(self, st):
        return self.n > 0

    def py_getitem(self, ip, st, idx):
        n = self.n
        if isinstance(idx, Q.SSlice):
            start, stop, step = Q.slice_indices(idx, n)
            if not (_isint(step) and step >= 1):
                raise Unsupported("slice of a modelled str with a non-constant or negative step")
            start, stop = _simp(start), _simp(stop)
            if step == 1:
                return CStr(imax(stop - start, 0), lambda j: self.at(start + j))
            return CStr(imax((stop - start + step - 1) // step, 0), lambda j: self.at(start + j * step))
        if _isint(idx) and _isint(n) and -n <= idx < n:
            k = idx % n
        else:
            k = _simp(norm_index(st, idx, n, "string index out of range"))
        return CStr(1, lambda j: self.at(k))

    def py_iter(self, ip, st):
        if _isint(self.n):
            return tuple(CStr(1, (lambda j, i=i: self.at(i))) for i in range(self.n))
        return Q.SSeq(self.n, lambda i: CStr(1, lambda j: self.at(i)), None, None, "chars")

    def py_in_str(self, ip, st, container):
        """`c in "constant"` for a one-character c: c is one of the constant's characters."""
        if self.n != 1 if _isint(self.n) else True:
            raise Unsupported("substring test of a modelled str that is not a single character")
        c = self.at(0)
        return either(*[c == k for k in sorted({ord(ch) for ch in container})])

    def py_call(self, ip, st, name, args, kwargs):
        if name == "startswith" and len(args) == 1 and isinstance(args[0], str) and not kwargs:
            return cs_startswith(self, args[0])
        h = getattr(ip.task.c, "str_method", None)
        if h is not None:
            r = h(ip, st, self, name, args, kwargs)
            if r is not NotImplemented:
                return r
        raise Unsupported(f"str.{name} on a modelled str")

    def py_binop(self, ip, st, op, other, reflected):
        import ast as _ast

        if isinstance(op, _ast.Add) and isinstance(other, (str, CStr)):
            a, b = (other, self) if reflected else (self, other)
            return cs_concat(CStr.of(a), CStr.of(b))
        return NotImplemented

    def py_int_base(self, ip, st, base):
        return cs_int(st, self, base)

    def __eq__(self, o):
        if isinstance(o, (str, CStr)):
            return cs_eq(self, o)
        return False

    def __ne__(self, o):
        return neg(self.__eq__(o))

    __hash__ = object.__hash__

    def py_concretize(self, model):
        def ev(x):
            return x if _isint(x) else model.eval(V._z(x), model_completion=True).as_long()

        n = ev(self.n)
        saved, st = None, cur() if V._current else None
        if st is not None:
            saved, st.capture = st.capture, []  # evaluating at(j) may want to assume range facts: discard them here
        try:
            return "".join(chr(ev(self.at(j)) % MAX_CODE) for j in range(min(n, 12))) + ("..." if n > 12 else "")
        finally:
            if st is not None:
                st.capture = saved

    def __repr__(self):
        return f"CStr(len={self.n!r})"


def cs_len(s):
    return len(s) if isinstance(s, str) else s.n


def cs_at(s, j):
    return ord(s[j]) if isinstance(s, str) else s.at(j)


def cs_startswith(s, prefix):
    return both(cs_len(s) >= len(prefix), *[cs_at(s, i) == ord(ch) for i, ch in enumerate(prefix)])


def cs_eq(a, b, bound=None):
    """a == b for strs of which at least one has a known length (or both at most `bound` long)."""
    if isinstance(a, str) and isinstance(b, str):
        return a == b
    na, nb = cs_len(a), cs_len(b)
    if _isint(na) and _isint(nb) and na != nb:
        return False
    if _isint(na) or _isint(nb):
        k = na if _isint(na) else nb
        return both(na == nb, *[cs_at(a, i) == cs_at(b, i) for i in range(k)])
    if bound is None:
        raise Unsupported("equality of two modelled strs of unknown length")
    return both(na == nb, na <= bound, *[implies(i < na, cs_at(a, i) == cs_at(b, i)) for i in range(bound)])


def cs_concat(a, b):
    na, nb = a.n, b.n
    if _isint(na) and _isint(nb):
        return CStr.codes([a.at(i) for i in range(na)] + [b.at(i) for i in range(nb)])
    return CStr(na + nb, lambda j: ite(j < na, a.at(j), b.at(j - na)))


def cs_concrete_len(st, s, maxn=8):
    """The length of s as a plain int, by a case split over 0..maxn (None when it may be longer)."""
    if _isint(s.n):
        return s.n
    k = st.choose([s.n == j for j in range(maxn + 1)] + [s.n > maxn])
    return k if k <= maxn else None


def is_dec(c):
    return both(48 <= c, c <= 57)


def is_hex(c):
    return either(both(48 <= c, c <= 57), both(97 <= c, c <= 102), both(65 <= c, c <= 70))


def digit_val(c, base):
    """Value of an ASCII digit character of the base (meaningful only where is_dec / is_hex holds)."""
    if base == 10:
        return c - 48
    return ite(c <= 57, c - 48, ite(c >= 97, c - 87, c - 55))


def is_digit(c, base):
    return is_dec(c) if base == 10 else is_hex(c)


def digits_value(codes, base):
    v = 0
    for c in codes:
        v = v * base + digit_val(c, base)
    return v


def int_literal_class(codes, base):
    """(canonical, prefixed) for the characters of a str: all ASCII digits of the base (at least one) / base 16 and
    "0x" or "0X" followed by at least one hex digit.  Dual use (symbolic codes or plain ints)."""
    n = len(codes)
    canonical = both(n >= 1, *[is_digit(c, base) for c in codes])
    prefixed = False
    if base == 16 and n >= 3:
        prefixed = both(codes[0] == 48, either(codes[1] == 120, codes[1] == 88), *[is_hex(c) for c in codes[2:]])
    return canonical, prefixed


def _xcheck_cstr():
    """The str / int / format models on concrete strings against CPython."""
    import random

    rnd = random.Random(18)
    alphabet = "0123456789abcdefABCDEFxXgh#+- _,\t\u0663\u00b2z"
    bad = []
    for t in range(6000):
        sv = "".join(rnd.choice(alphabet) for _ in range(rnd.randrange(0, 9)))
        codes = [ord(ch) for ch in sv]
        for base in (10, 16):
            canonical, prefixed = int_literal_class(codes, base)
            try:
                real = int(sv, base)
            except ValueError:
                real = None
            if canonical and real != digits_value(codes, base):
                bad.append(("int-canonical", sv, base))
            elif not canonical and prefixed and real != digits_value(codes[2:], base):
                bad.append(("int-prefixed", sv, base))
            # every other string: the model allows ValueError or any int - CPython must do one of the two
        m = CStr.of(sv)
        i, j, k = rnd.randrange(-10, 10), rnd.randrange(-10, 10), rnd.randrange(1, 4)
        got = m.py_getitem(None, None, Q.SSlice(i, j, k))
        if "".join(chr(got.at(x)) for x in range(got.n)) != sv[i:j:k]:
            bad.append(("slice", sv, i, j, k))
        got = m.py_getitem(None, None, Q.SSlice(i, None, None))
        if "".join(chr(got.at(x)) for x in range(got.n)) != sv[i:]:
            bad.append(("slice-open", sv, i))
        if -len(sv) <= i < len(sv) and chr(m.py_getitem(None, None, i).at(0)) != sv[i]:
            bad.append(("index", sv, i))
        for pre in ("h", "#", "g#", "g", ""):
            if bool(cs_startswith(m, pre)) != sv.startswith(pre):
                bad.append(("startswith", sv, pre))
        other = "".join(rnd.choice(alphabet) for _ in range(rnd.randrange(0, 3)))
        if bool(cs_eq(m, other)) != (sv == other) or not bool(cs_eq(m, sv)):
            bad.append(("eq", sv, other))
        cat = cs_concat(m, CStr.of(other))
        if "".join(chr(cat.at(x)) for x in range(cat.n)) != sv + other:
            bad.append(("concat", sv, other))
        if bool(hex_all(sv)) != all(ch in "0123456789abcdefABCDEF" for ch in sv):
            bad.append(("hex", sv))
        v = rnd.choice([rnd.randrange(0, 300), rnd.randrange(0, 2**24)])
        for spec, base, width in (("d", 10, 0), ("x", 16, 0), ("06x", 16, 6)):
            nd = max(len(format(v, spec[-1])), width)
            if "".join(chr(digit_char(d, base)) for d in digits_of(None, v, base, nd)) != format(v, spec):
                bad.append(("format", v, spec))
        if v < 1000:
            ds = dec_str(v, 3)
            if "".join(chr(ds.at(x)) for x in range(ds.n)) != str(v):
                bad.append(("dec_str", v))
    return "cstr-models-agree-with-cpython", not bad, f"6000 strings / numbers; mismatches: {bad[:3]}"


def cs_int(st, s, base):
    """Model of int(s, base), base 10 or 16 (see the header of this section)."""
    if base not in (10, 16):
        raise Unsupported(f"int(str, {base}) is not modelled")
    n = cs_concrete_len(st, s)
    if n is not None:
        codes = [s.at(i) for i in range(n)]
        canonical, prefixed = int_literal_class(codes, base)
        w = st.choose([canonical, both(neg(canonical), prefixed), both(neg(canonical), neg(prefixed))])
        if w == 0:
            return digits_value(codes, base)
        if w == 1:
            return digits_value(codes[2:], base)
    if st.fork(2) == 0:
        raise PyRaise(SExc(ValueError, ("invalid literal for int()",), site="builtin"))
    return st.fresh_int("lenient_int")


def fmt_int(st, v, spec):
    """Model of format(v, spec) for an int v >= 0 and spec 'd', 'x' or '0Wx' / '0Wd' (W a constant width)."""
    kind = spec[-1:] if spec else "d"
    if kind not in ("d", "x") or (spec[:-1] and not (spec[0] == "0" and spec[1:-1].isdigit())):
        return NotImplemented
    width = int(spec[1:-1]) if spec[:-1] else 0
    base = 10 if kind == "d" else 16
    if _isint(v):
        return CStr.of(format(v, spec))
    if not st.branch(v >= 0):
        raise Unsupported("format of a possibly negative modelled int")
    limits = [base**k for k in range(1, 9)]
    k = st.choose([v < limits[0]] + [both(limits[i - 1] <= v, v < limits[i]) for i in range(1, 8)] + [v >= limits[7]])
    if k == 8:
        raise Unsupported("format of a modelled int with more than 8 digits")
    nd = max(k + 1, width)
    return CStr.codes([digit_char(d, base) for d in digits_of(st, v, base, nd)])


def digits_of(st, v, base, nd):
    """The nd base-`base` digits of v, most significant first, as fresh ints d_j DEFINED by
    0 <= v < base**nd  ==>  0 <= d_j < base  and  sum d_j * base**(nd-1-j) == v
    (positional notation: for v in that range such digits exist and are unique, d_j = (v // base**(nd-1-j)) % base;
    the linear form is what the solver is good at).  One set of digit symbols per (v, base, nd) and path."""
    if _isint(v):
        return [(v // base ** (nd - 1 - j)) % base for j in range(nd)]
    cache = st.ghost.setdefault("c18_digits", {})
    key = (V._z(v).get_id(), base, nd)
    if key not in cache:
        ds = [st.fresh_int(f"digit{j}") for j in range(nd)]
        total = 0
        for d in ds:
            total = total * base + d
        fact = implies(both(v >= 0, v < base**nd), both(total == v, *[both(0 <= d, d < base) for d in ds]))
        saved, st.capture = st.capture, None
        try:
            st.assume(fact)
        finally:
            st.capture = saved
        cache[key] = (ds, V._z(v))  # keep the term alive: ids are only unique among live terms
    return cache[key][0]


def digit_char(d, base=16):
    """The (lower-case) digit character of the value 0 <= d < base."""
    return 48 + d if base == 10 else ite(d < 10, 48 + d, 87 + d)


def cstr_fstring(ip, st, pieces):
    out = CStr.of("")
    for p in pieces:
        if isinstance(p, str):
            part = CStr.of(p)
        else:
            x, spec, conv = p
            x = st.force(x)
            if conv != -1:
                return NotImplemented
            if isinstance(x, (str, CStr)) and spec == "":
                part = CStr.of(x)
            elif (isinstance(x, SInt) or _isint(x)) and not isinstance(x, (bool, SBool)):
                part = fmt_int(st, x, spec)
                if part is NotImplemented:
                    return NotImplemented
            else:
                return NotImplemented
        out = cs_concat(out, part)
    return out


class StrShape(Shape):
    """A fresh modelled str: symbolic length (0 <= n <= max_len when given), every character a code point."""

    def __init__(self, max_len=None):
        self.max_len = max_len

    def fresh(self, st, hint):
        n = st.fresh_int(hint + "_len")
        st.assume(n >= 0)
        if self.max_len is not None:
            st.assume(n <= self.max_len)
        f = z3.Function(st.fresh_name(hint + "$code"), z3.IntSort(), z3.IntSort())

        def at(j):
            e = f(V._z(j))
            cur().assume(z3.And(e >= 0, e < MAX_CODE))
            return mk_int(e)

        return CStr(n, at)

    def __repr__(self):
        return f"Str(max_len={self.max_len})"


Str = StrShape


# ---------------------------------------------------------------------------------------------------------------
# Module constants: the lookup / step / RGB tables are read from the REAL module (the one pyvc analyses; a mutated
# scratch copy when tools/mut.py runs) and enter the VCs as one uninterpreted function per table and component
# with its ground defining equations — `T[i]` with a symbolic i is then a term, not a 256-way fork.
# ---------------------------------------------------------------------------------------------------------------
INT_TABLES = (
    "_CUBE_256_LOOKUP_16", "_CUBE_88_LOOKUP_16", "_GRAY_256_LOOKUP", "_GRAY_88_LOOKUP", "_GRAY_256_LOOKUP_101",
    "_GRAY_88_LOOKUP_101", "_CUBE_STEPS_256_16", "_CUBE_STEPS_88_16", "_GRAY_STEPS_256_101", "_GRAY_STEPS_88_101",
    "_CUBE_STEPS_256", "_CUBE_STEPS_88", "_GRAY_STEPS_256", "_GRAY_STEPS_88",
)
RGB_TABLES = ("_COLOR_VALUES_256", "_COLOR_VALUES_88")


def real_const(name):
    return getattr(SRC.module("urwid/display/common.py").real, name)


def _table_fns(name):
    k = 3 if name in RGB_TABLES else 1
    return [z3.Function(f"{name}${c}", z3.IntSort(), z3.IntSort()) for c in range(k)]


def _table_axioms(st, name):
    done = st.ghost.setdefault("c18_tables", set())
    if name in done:
        return
    done.add(name)
    data = real_const(name)
    fns = _table_fns(name)
    facts = []
    for i, row in enumerate(data):
        row = row if name in RGB_TABLES else (row,)
        facts.extend(f(z3.IntVal(i)) == z3.IntVal(int(x)) for f, x in zip(fns, row))
    saved, st.capture = st.capture, None
    try:
        st.assume(z3.And(*facts))
    finally:
        st.capture = saved


def T(name, i):
    """Entry i of the real module's table `name` (spec side): an int, or an (r, g, b) triple."""
    data = real_const(name)
    if _isint(i):
        if 0 <= i < len(data):
            return data[i]
        return (0, 0, 0) if name in RGB_TABLES else 0  # outside the table: a placeholder (only under a false guard)
    _table_axioms(cur(), name)
    vals = [mk_int(f(V._z(i))) for f in _table_fns(name)]
    return tuple(vals) if name in RGB_TABLES else vals[0]


def tlen(name):
    return len(real_const(name))


def tables_setup(st, self_obj, vals):
    """Program side: the same tables as sequences whose symbolic subscripts are those function terms."""
    g = st.ghost.setdefault("globals", {})
    for name in INT_TABLES + RGB_TABLES:
        data = real_const(name)
        seq = Q.SSeq(len(data), (lambda i, name=name: T(name, i)), None, None, name)
        g[name] = Q.LRef(seq) if isinstance(data, list) else seq
    g["_BASIC_COLORS"] = tuple(real_const("_BASIC_COLORS"))  # the list of names, immutable here: subscript by a symbolic int forks


# ---------------------------------------------------------------------------------------------------------------
# Spec vocabulary for the colour descriptions
# ---------------------------------------------------------------------------------------------------------------
H, HASH, G = ord("h"), ord("#"), ord("g")


class Pal:
    """The two palettes: cube side, gray-ramp length and the names of the module's tables."""

    def __init__(self, tag, colours, cube, grays):
        self.tag, self.colours, self.cube, self.grays = tag, colours, cube, grays
        self.gray_start = 16 + cube**3
        self.white = self.gray_start - 1
        self.lookup16 = f"_CUBE_{tag}_LOOKUP_16"
        self.gray_lookup = f"_GRAY_{tag}_LOOKUP"
        self.gray_lookup101 = f"_GRAY_{tag}_LOOKUP_101"
        self.steps = f"_CUBE_STEPS_{tag}"
        self.gray_steps = f"_GRAY_STEPS_{tag}"
        self.steps16 = f"_CUBE_STEPS_{tag}_16"
        self.gray_steps101 = f"_GRAY_STEPS_{tag}_101"
        self.values = f"_COLOR_VALUES_{tag}"


P256 = Pal("256", 256, 6, 24)
P88 = Pal("88", 88, 4, 8)


def digits_at(s, start, base, maxdigits):
    """(wellformed, value): s[start:] is 1..maxdigits ASCII digits of the base, to the end of s; their value."""
    n = cs_len(s)
    k = n - start
    wf = both(k >= 1, k <= maxdigits, *[implies(start + i < n, is_digit(cs_at(s, start + i), base)) for i in range(maxdigits)])
    value = 0
    for m in range(maxdigits, 0, -1):
        value = ite(k == m, digits_value([cs_at(s, start + i) for i in range(m)], base), value)
    return wf, value


def dec_str(v, maxdigits=3):
    """The decimal numeral of 0 <= v < 10**maxdigits as a modelled str."""
    n = maxdigits
    for m in range(maxdigits - 1, 0, -1):
        n = ite(v < 10**m, m, n)

    def at(j):
        r = 0
        for m in range(1, maxdigits + 1):
            digs = [48 + (v // 10 ** (m - 1 - i)) % 10 for i in range(m)] + [0] * (maxdigits - m)
            r = ite(n == m, _pick(digs, j), r)
        return r

    return CStr(n, at)


def cube_coords(p, num):
    """(r, g, b) cube coordinates of the colour number num of the palette's cube."""
    c = num - 16
    return c // (p.cube * p.cube), (c // p.cube) % p.cube, c % p.cube


def cube_number(p, r, g, b):
    return 16 + (r * p.cube + g) * p.cube + b


def gray_number(p, k):
    """Colour number of entry k of [black, *gray ramp, white] (black and white are the cube's)."""
    return ite(k == 0, 16, ite(k == p.grays + 1, p.white, p.gray_start + k - 1))


def gray_ext(p, i):
    """Entry i of the list the gray lookup tables are built from: [0, *_GRAY_STEPS, 255]."""
    return ite(i <= 0, 0, ite(i >= p.grays + 1, 255, T(p.gray_steps, i - 1)))


def int_scale_spec(v, val_range, out_range):
    """v on the scale 0..val_range-1 rescaled to 0..out_range-1, rounded half up (what util.int_scale computes)."""
    return (2 * v * (out_range - 1) + (val_range - 1)) // (2 * (val_range - 1))


def nearest(value_at, size, v, idx):
    """idx is the index of an entry nearest to v among value_at(0..size-1) (ascending); a tie goes to the upper
    neighbour — the rule _value_lookup_table implements (its own contract: `each-entry-is-the-nearest-value`)."""
    return both(0 <= idx, idx < size,
                implies(idx > 0, 2 * v >= value_at(idx - 1) + value_at(idx)),
                implies(idx < size - 1, 2 * v < value_at(idx) + value_at(idx + 1)))


def _int_arg(x):
    """An int argument at a call site: None there is the TypeError CPython raises on `0 <= None`."""
    x = cur().force(x)
    if x is None:
        raise PyRaise(SExc(TypeError, ("'<=' not supported between instances of 'int' and 'NoneType'",), site="builtin"))
    return x


def desc_spec_clauses(p, num, result):
    """What _color_desc_<p>(num) is, region by region (shared by the 256- and 88-colour describers)."""
    r, g, b = cube_coords(p, num)
    yield "returns-only-for-a-colour-number-of-the-palette", both(0 <= num, num < p.colours)
    yield "basic-colours-are-h-and-the-decimal-number", implies(num < 16, cs_eq(result, cs_concat(CStr.of("h"), dec_str(num, 2)), 4))
    cube = CStr.codes([HASH, digit_char(T(p.steps16, r)), digit_char(T(p.steps16, g)), digit_char(T(p.steps16, b))])
    yield "cube-colours-are-hash-and-the-three-step-digits", implies(both(16 <= num, num < p.gray_start), cs_eq(result, cube, 4))
    gray = cs_concat(CStr.of("g"), dec_str(T(p.gray_steps101, num - p.gray_start), 3))
    yield "grays-are-g-and-the-percentage", implies(num >= p.gray_start, cs_eq(result, gray, 4))


@contract(DC + "_color_desc_256", property="C18", replayable=False)
class color_desc_256:
    params = dict(num=Int)
    result = Str(4)
    raises = (ValueError,)
    raises_iff = {ValueError: lambda a: neg(both(0 <= _int_arg(a.num), _int_arg(a.num) < 256))}
    setup = staticmethod(tables_setup)
    fstring = staticmethod(cstr_fstring)

    def ensures(a, result):
        yield from desc_spec_clauses(P256, a.num, result)
        if not cur().ghost.get("c18_no_roundtrip"):
            back = parse_color_256.spec_value(None, desc=result)
            yield "the-description-parses-back-to-the-number", opt_eq(back, a.num)

    def ensures_callee(a, result):
        yield from desc_spec_clauses(P256, _int_arg(a.num), result)

    def on_raise(a, exc):
        yield "raises-only-outside-the-palette", neg(both(0 <= a.num, a.num < 256))


@contract(DC + "_color_desc_88", property="C18", replayable=False)
class color_desc_88:
    params = dict(num=Int)
    result = Str(4)
    raises = (ValueError,)
    raises_iff = {ValueError: lambda a: neg(both(0 <= _int_arg(a.num), _int_arg(a.num) < 88))}
    setup = staticmethod(tables_setup)
    fstring = staticmethod(cstr_fstring)

    def ensures(a, result):
        yield from desc_spec_clauses(P88, a.num, result)
        back = parse_color_88.spec_value(None, desc=result)
        yield "the-description-parses-back-to-the-number", opt_eq(back, a.num)

    def ensures_callee(a, result):
        yield from desc_spec_clauses(P88, _int_arg(a.num), result)

    def on_raise(a, exc):
        yield "raises-only-outside-the-palette", neg(both(0 <= a.num, a.num < 88))


def hex_all(s):
    n = cs_len(s)
    if _isint(n):
        return both(True, *[is_hex(cs_at(s, i)) for i in range(n)])
    return forall(0, n, lambda j: is_hex(s.at(j)))


def _is_hex_spec(a):
    st = cur()
    s = a.text
    if isinstance(s, CStr) and not _isint(s.n) and not st.ghost.get("c18_verifying_is_hex"):
        k = cs_concrete_len(st, s, 8)  # call sites: split over the short lengths, so the answer is quantifier-free there
        if k is not None:
            s = CStr.codes([s.at(i) for i in range(k)])
    return hex_all(s)


def _is_hex_setup(st, self_obj, vals):
    st.ghost["c18_verifying_is_hex"] = True


class SMatch(ModelObj):
    """What a successful Pattern.match returns, as far as it is modelled: an object that is not None and is truthy."""

    def __repr__(self):
        return "SMatch()"


def regex_call_real(ip, st, f, args, kwargs):
    """<compiled pattern>.match / fullmatch / search(<modelled str>) and re.match / fullmatch / search(<constant
    pattern>, <modelled str>) for the pattern family of pyvc/remodel.py (one quantified character set between
    optional anchors; `$` also holds before a trailing newline): None, or a match object, by the model's formula
    over the str's length and code points.  Anything outside the family stays Unsupported."""
    import re as _re

    from pyvc import remodel

    name = getattr(f, "__name__", "")
    owner = getattr(f, "__self__", None)
    if name not in ("match", "fullmatch", "search") or kwargs:
        return NotImplemented
    if isinstance(owner, _re.Pattern) and len(args) == 1:
        pat, text = owner, args[0]
    elif f in (_re.match, _re.fullmatch, _re.search) and len(args) == 2 and isinstance(args[0], (str, _re.Pattern)):
        pat, text = _re.compile(args[0]), args[1]
    else:
        return NotImplemented
    text = st.force(text)
    if not isinstance(text, CStr):
        return NotImplemented
    shape = remodel.analyse(pat)

    def all_below(j, pred):
        j = _simp(j)
        if _isint(j):
            return both(True, *[pred(text.at(i)) for i in range(j)])
        return forall(0, j, lambda i: pred(text.at(i)))

    found = remodel.match_exists(shape, name, text.n, text.at, all_below)
    return SMatch() if st.branch(found) else None


def _xcheck_regex():
    from pyvc import remodel

    return remodel.xcheck()


@contract(DC + "_is_hex", property="C18")  # replayable: a str in, a bool out; the clause evaluates natively
class is_hex_text:
    params = dict(text=Str())
    result = Bool
    raises = ()
    setup = staticmethod(_is_hex_setup)
    pure_spec = staticmethod(_is_hex_spec)
    call_real = staticmethod(regex_call_real)  # (only reached if the body uses `re`: see pyvc/remodel.py)
    static_checks = [_xcheck_regex]

    def ensures(a, result):
        yield "true-exactly-for-ascii-hex-digits-only", result == hex_all(a.text)


def opt_parts(x):
    """(is-none formula, value) of an optional int; the value is 0 where it is None (never forks)."""
    if x is None:
        return True, 0
    return opt_isnone(x), val(x)


def parse_spec_clauses(p, s, result):
    """What _parse_color_<p>(s) returns for a description s of at most four characters' relevance."""
    s = cur().force(s)  # an optional str argument (`x or y`) is a str here
    n = cs_len(s)
    none, rv = opt_parts(result)
    c0 = cs_at(s, 0)
    yield "a-colour-number-of-the-palette-or-none", either(none, both(0 <= rv, rv < p.colours))
    if p is P88:
        # 88 colours only: '#rrggbb' is read as '#rgb' with the HIGH digit of each component
        six = [cs_at(s, i) for i in range(1, 7)]
        rrggbb = both(n == 7, c0 == HASH, *[is_hex(x) for x in six])
        hi = [T(p.lookup16, digit_val(x, 16)) for x in (six[0], six[2], six[4])]
        yield "hash-rrggbb-is-the-cube-colour-of-the-three-high-digits", implies(rrggbb, both(neg(none), rv == cube_number(p, *hi)))
        yield "longer-than-four-characters-is-rejected", implies(both(n > 4, neg(rrggbb)), none)
    else:
        yield "longer-than-four-characters-is-rejected", implies(n > 4, none)
    yield "other-first-characters-are-rejected", implies(both(n <= 4, either(n == 0, both(c0 != H, c0 != HASH, c0 != G))), none)
    # 'hN'
    hwf, hv = digits_at(s, 1, 10, 3)
    yield "hN-is-colour-number-N-when-in-the-palette", implies(both(n <= 4, c0 == H, hwf), ite(hv < p.colours, both(neg(none), rv == hv), none))
    # '#rgb'
    d = [cs_at(s, i) for i in (1, 2, 3)]
    cube = both(n == 4, c0 == HASH, *[is_hex(x) for x in d])
    idx = [T(p.lookup16, digit_val(x, 16)) for x in d]
    yield "hash-rgb-is-the-cube-colour-of-the-three-looked-up-steps", implies(cube, both(neg(none), rv == cube_number(p, *idx), 16 <= rv, rv < p.gray_start))
    yield "each-cube-step-is-a-nearest-step-of-the-xterm-table", implies(cube, both(*[nearest(lambda i: T(p.steps, i), p.cube, int_scale_spec(digit_val(x, 16), 16, 256), k) for x, k in zip(d, idx)]))
    yield "exact-step-values-are-preserved", implies(cube, both(*[implies(int_scale_spec(digit_val(x, 16), 16, 256) == T(p.steps, j), k == j) for x, k in zip(d, idx) for j in range(p.cube)]))
    yield "hash-without-exactly-three-hex-digits-is-rejected", implies(both(n >= 1, n <= 4, c0 == HASH, neg(cube)), none)
    # 'g#XX'
    xwf, xv = digits_at(s, 2, 16, 2)
    ghex = both(n <= 4, n >= 2, c0 == G, cs_at(s, 1) == HASH, xwf)
    kx = T(p.gray_lookup, xv)
    yield "g-hash-XX-is-the-gray-nearest-to-XX", implies(ghex, both(neg(none), rv == gray_number(p, kx), nearest(lambda i: gray_ext(p, i), p.grays + 2, xv, kx)))
    # 'gN'
    gwf, gv = digits_at(s, 1, 10, 3)
    gdec = both(n <= 4, c0 == G, gwf)
    kg = T(p.gray_lookup101, imin(gv, 100))
    yield "gN-is-the-gray-nearest-to-N-percent", implies(both(gdec, gv <= 100), both(neg(none), rv == gray_number(p, kg), nearest(lambda i: gray_ext(p, i), p.grays + 2, int_scale_spec(gv, 101, 256), kg)))
    yield "more-than-100-percent-is-rejected", implies(both(gdec, gv > 100), none)


@contract(DC + "_parse_color_256", property="C18", replayable=False)
class parse_color_256:
    params = dict(desc=Str())
    result = Opt(Int)
    raises = ()
    setup = staticmethod(tables_setup)
    static_checks = [_xcheck_cstr]

    def ensures(a, result):
        yield from parse_spec_clauses(P256, a.desc, result)


@contract(DC + "_parse_color_88", property="C18", replayable=False)
class parse_color_88:
    params = dict(desc=Str())
    result = Opt(Int)
    raises = ()
    setup = staticmethod(tables_setup)

    def ensures(a, result):
        yield from parse_spec_clauses(P88, a.desc, result)


def cstr_call_real(ip, st, f, args, kwargs):
    """Builtins applied to modelled values: format(int, spec), "".join(strs), list.index(str), hash((cls, int))."""
    owner = getattr(f, "__self__", None)
    name = getattr(f, "__name__", "")
    if f is format and len(args) == 2 and isinstance(args[1], str) and isinstance(args[0], SInt):
        return fmt_int(st, args[0], args[1])
    if name == "join" and owner == "" and len(args) == 1:
        items = args[0].seq if isinstance(args[0], Q.LRef) else args[0]
        if isinstance(items, tuple) and all(isinstance(x, (str, CStr)) for x in items):
            out = CStr.of("")
            for x in items:
                out = cs_concat(out, CStr.of(x))
            return out
    if name == "index" and isinstance(owner, (list, tuple)) and len(args) == 1 and isinstance(args[0], CStr) and all(isinstance(x, str) for x in owner):
        # first position whose item equals the str; ValueError when there is none
        conds, none_before = [], True
        for item in owner:
            e = args[0] == item
            conds.append(both(none_before, e))
            none_before = both(none_before, neg(e))
        j = st.choose(conds + [none_before])
        if j == len(owner):
            raise PyRaise(SExc(ValueError, ("x not in list",), site="builtin"))
        return j
    if f is hash and len(args) == 1 and isinstance(args[0], tuple) and len(args[0]) == 2 and isinstance(args[0][0], type):
        # hash of a (class, int) pair: some function of the pair (all that is known of hash())
        x = args[0][1]
        return mk_int(HASH_PAIR(z3.IntVal(V.atom_code("class:" + args[0][0].__qualname__)), V._z(x.to_int() if hasattr(x, "to_int") else x)))
    return NotImplemented


HASH_PAIR = z3.Function("hash$class-int-pair", z3.IntSort(), z3.IntSort(), z3.IntSort())


def hex6(num):
    return CStr.codes([HASH] + [digit_char(d) for d in digits_of(cur(), num, 16, 6)])


@contract(DC + "_color_desc_true", property="C18", replayable=False)
class color_desc_true:
    params = dict(num=Int)
    result = Str(7)
    raises = ()
    fstring = staticmethod(cstr_fstring)
    setup = staticmethod(tables_setup)

    def requires(a):
        return both(0 <= a.num, a.num < 2**24)

    def ensures(a, result):
        yield "hash-and-six-lower-case-hex-digits-most-significant-first", cs_eq(result, hex6(a.num))
        back = parse_color_true.spec_value(None, desc=result)
        yield "the-description-parses-back-to-the-number", opt_eq(back, a.num)

    def ensures_callee(a, result):
        yield "hash-and-six-lower-case-hex-digits-most-significant-first", cs_eq(result, hex6(a.num))


def pack_rgb(t):
    return t[0] * 65536 + t[1] * 256 + t[2]


def parse_true_clauses(s, result):
    p = P256
    n = cs_len(s)
    none, rv = opt_parts(result)
    c0 = cs_at(s, 0)
    rgb = lambda c: pack_rgb(T(p.values, c))  # noqa: E731
    yield "a-24-bit-colour-or-none", either(none, both(0 <= rv, rv < 2**24))
    yield "other-first-characters-are-rejected", implies(either(n == 0, both(c0 != H, c0 != HASH, c0 != G)), none)
    six = [cs_at(s, i) for i in range(1, 7)]
    rrggbb = both(n == 7, c0 == HASH, *[is_hex(x) for x in six])
    yield "hash-rrggbb-is-its-own-value", implies(rrggbb, both(neg(none), rv == digits_value(six, 16)))
    d = [cs_at(s, i) for i in (1, 2, 3)]
    cube = both(n == 4, c0 == HASH, *[is_hex(x) for x in d])
    idx = [T(p.lookup16, digit_val(x, 16)) for x in d]
    yield "hash-rgb-takes-the-xterm-rgb-of-its-256-colour-cube-entry", implies(cube, both(neg(none), rv == rgb(cube_number(p, *idx))))
    yield "hash-without-three-or-six-hex-digits-is-rejected", implies(both(n >= 1, c0 == HASH, neg(cube), neg(rrggbb)), none)
    yield "longer-than-four-characters-without-hash-is-rejected", implies(both(n > 4, c0 != HASH), none)
    hwf, hv = digits_at(s, 1, 10, 3)
    yield "hN-takes-the-xterm-rgb-of-colour-number-N", implies(both(n <= 4, c0 == H, hwf), ite(hv < 256, both(neg(none), rv == rgb(imin(hv, 255))), none))
    xwf, xv = digits_at(s, 2, 16, 2)
    ghex = both(n <= 4, n >= 2, c0 == G, cs_at(s, 1) == HASH, xwf)
    yield "g-hash-XX-takes-the-xterm-rgb-of-the-nearest-gray", implies(ghex, both(neg(none), rv == rgb(gray_number(p, T(p.gray_lookup, xv)))))
    gwf, gv = digits_at(s, 1, 10, 3)
    gdec = both(n <= 4, c0 == G, gwf)
    yield "gN-takes-the-xterm-rgb-of-the-nearest-gray", implies(both(gdec, gv <= 100), both(neg(none), rv == rgb(gray_number(p, T(p.gray_lookup101, imin(gv, 100))))))
    yield "more-than-100-percent-is-rejected", implies(both(gdec, gv > 100), none)


@contract(DC + "_parse_color_true", property="C18", replayable=False)
class parse_color_true:
    params = dict(desc=Str())
    result = Opt(Int)
    raises = ()
    setup = staticmethod(tables_setup)
    fstring = staticmethod(cstr_fstring)

    def ensures(a, result):
        yield from parse_true_clauses(a.desc, result)


def true_to_256_clauses(s, result):
    n = cs_len(s)
    six = [cs_at(s, i) for i in range(1, 7)]
    rrggbb = both(n == 7, cs_at(s, 0) == HASH, *[is_hex(x) for x in six])
    rnone = result is None or (opt_isnone(result) if isinstance(result, V.SOpt) else False)
    rs = val(result) if result is not None else CStr.of("")
    yield "none-unless-hash-and-six-hex-digits", implies(neg(rrggbb), rnone)
    p = P256
    steps = [T(p.steps16, T(p.lookup16, digit_val(x, 16))) for x in (six[0], six[2], six[4])]
    want = CStr.codes([HASH] + [digit_char(v) for v in steps])
    yield "hash-rrggbb-becomes-the-description-of-the-cube-colour-nearest-to-its-high-digits", implies(rrggbb, both(neg(rnone), cs_eq(rs, want, 4)))


@contract(DC + "_true_to_256", property="C18", replayable=False)
class true_to_256:
    params = dict(desc=Str())
    result = Opt(Str(4))
    raises = ()
    setup = staticmethod(tables_setup)
    fstring = staticmethod(cstr_fstring)
    call_real = staticmethod(cstr_call_real)

    def ensures(a, result):
        yield from true_to_256_clauses(a.desc, result)


# =============================================================================================================
# AttrSpec: the packed 62-bit word `_AttrSpec__value`
#
# Integer div/mod (and BitVec<->Int conversions) on a 62-bit word make queries that z3 does not finish, so the word
# is modelled STRUCTURALLY: BitWord = one small integer per bit field of the layout the module's own mask constants
# define (foreground number: bits 0-23, background number: bits 24-47, one field per flag bit 48-61).  The bit
# operations the class performs are given field by field (each rule is exact for words of that layout, and
# Unsupported where a constant mask would cut through a field); cross-checked against CPython's int operators by
# the static check `bitword-operations-agree-with-cpython`.
#   w & m (m < 0, "clear fields")  -> BitWord;   w & m (m >= 0, "extract fields") -> the plain int value of those fields
#   w | x  (x a BitWord, a constant, or an int provably inside the foreground / background number field) -> BitWord
#          (a number field of which both operands may be non-zero: over-approximated by max(a,b) <= a|b <= a+b)
#   w ^ x  (x as for |) -> BitWord (a number field of two symbolic numbers: some r with r == 0 iff they are equal)
#   w == x, w != x, bool(w), hash((cls, w)) via the word's integer value  sum field * 2**lo
# =============================================================================================================


def K(name):
    return real_const(name)


LAYOUT = ((0, 24), (24, 24)) + tuple((k, 1) for k in range(48, 62))  # (lowest bit, width) of every field
FG, BG = 0, 1


def _layout_matches_module():
    """The layout above is the one the module's constants define."""
    ok = K("_FG_COLOR_MASK") == 2**24 - 1 and K("_BG_COLOR_MASK") == (2**24 - 1) << 24 and K("_BG_SHIFT") == 24
    flags = ["_FG_BASIC_COLOR", "_FG_HIGH_COLOR", "_FG_TRUE_COLOR", "_BG_BASIC_COLOR", "_BG_HIGH_COLOR", "_BG_TRUE_COLOR", "_HIGH_88_COLOR",
             "_HIGH_TRUE_COLOR", "_STANDOUT", "_UNDERLINE", "_BOLD", "_BLINK", "_ITALICS", "_STRIKETHROUGH"]
    bits = sorted(K(n).bit_length() - 1 for n in flags)
    ok = ok and all(K(n) == 1 << (K(n).bit_length() - 1) for n in flags) and bits == list(range(48, 62))
    return "bit-field-layout-is-the-modules", ok, f"flag bits {bits}"


def bit_index(name):
    """Index in LAYOUT of the one-bit field of the module constant `name`."""
    return 2 + (K(name).bit_length() - 1 - 48)


class BitWord(ModelObj):
    def __init__(self, parts):
        self.parts = list(parts)

    @staticmethod
    def of_int(x):
        return BitWord([(x >> lo) & ((1 << w) - 1) for lo, w in LAYOUT])

    @staticmethod
    def lift(st, x):
        """A BitWord for x: a BitWord, a plain int in 0..2**62-1, or a symbolic int provably confined to the
        foreground number field (0 <= x < 2**24) or the background number field (a multiple of 2**24 below 2**48)."""
        if isinstance(x, BitWord):
            return x
        if isinstance(x, (bool, SBool)):
            raise Unsupported("a bool as a bit word")
        if _isint(x):
            if not 0 <= x < 2**62:
                raise Unsupported("bit word outside 0..2**62-1")
            return BitWord.of_int(x)
        if isinstance(x, SInt):
            zero = [0] * len(LAYOUT)
            r, _m = st._check(z3.Not(V._zb(both(0 <= x, x < 2**24))), st.cfg.branch_timeout_ms)
            if r == z3.unsat:
                return BitWord([x] + zero[1:])
            r, _m = st._check(z3.Not(V._zb(both(0 <= x, x < 2**48, x % 2**24 == 0))), st.cfg.branch_timeout_ms)
            if r == z3.unsat:
                return BitWord([0, x // 2**24] + zero[2:])
        raise Unsupported(f"cannot place {x!r} in the bit-field layout")

    def to_int(self):
        total = 0
        for (lo, _w), p in zip(LAYOUT, self.parts):
            total = total + p * (1 << lo)
        return total

    def and_const(self, m):
        out = []
        for (lo, w), p in zip(LAYOUT, self.parts):
            full = (1 << w) - 1
            fm = (m >> lo) & full
            if fm == full:
                out.append(p)
            elif fm == 0:
                out.append(0)
            elif _isint(p):
                out.append(p & fm)
            else:
                raise Unsupported(f"mask {m:#x} cuts through the bit field at bit {lo}")
        if m >= 0 and m >> 62:
            raise Unsupported("mask beyond the 62-bit layout")
        return BitWord(out)

    def or_word(self, st, o):
        out = []
        for (lo, w), p, q in zip(LAYOUT, self.parts, o.parts):
            if _isint(p) and _isint(q):
                out.append(p | q)
            elif _isint(q) and q == 0:
                out.append(p)
            elif _isint(p) and p == 0:
                out.append(q)
            elif w == 1:
                out.append(imax(p, q))
            else:
                for a, b in ((p, q), (q, p)):
                    r, _m = st._check(z3.Not(V._zb(a == 0)), st.cfg.branch_timeout_ms)
                    if r == z3.unsat:
                        out.append(b)
                        break
                else:
                    # both numbers may be non-zero (never so in the unchanged code): a | b is some r with
                    # max(a, b) <= r <= a + b — true of | on non-negative ints; an over-approximation, not exact
                    r = st.fresh_int("or24")
                    st.assume(both(r >= p, r >= q, r <= p + q, r < (1 << w)))
                    out.append(r)
        return BitWord(out)

    def xor_word(self, st, o):
        """w ^ x.  Exact on concrete fields and on one-bit fields; a symbolic number field gets some r in range with
        r == 0 exactly when the two numbers are equal (true of ^; an over-approximation, enough for the
        "do these words differ inside a mask" tests an equality may be written with)."""
        out = []
        for (lo, w), p, q in zip(LAYOUT, self.parts, o.parts):
            if _isint(p) and _isint(q):
                out.append(p ^ q)
            elif _isint(q) and q == 0:
                out.append(p)
            elif _isint(p) and p == 0:
                out.append(q)
            elif w == 1:
                out.append(ite(p == q, 0, 1))
            else:
                r = st.fresh_int("xor24")
                st.assume(both(0 <= r, r < (1 << w), implies(r == 0, p == q), implies(p == q, r == 0)))
                out.append(r)
        return BitWord(out)

    # ---- dispatch
    def py_binop(self, ip, st, op, other, reflected):
        import ast as _ast

        if isinstance(op, _ast.BitXor):
            return self.xor_word(st, BitWord.lift(st, other))

        if isinstance(op, _ast.BitAnd):
            if _isint(other):
                r = self.and_const(other)
                return r if other < 0 else r.to_int()
            if isinstance(other, BitWord) and all(_isint(p) for p in other.parts):
                return self.and_const(other.to_int()).to_int()
        if isinstance(op, _ast.BitOr):
            return self.or_word(st, BitWord.lift(st, other))
        return NotImplemented

    def py_truth(self, st):
        return either(*[p != 0 for p in self.parts])

    def __eq__(self, o):
        if isinstance(o, (bool, SBool)) or not (isinstance(o, (BitWord, SInt)) or _isint(o)):
            return False
        if isinstance(o, SInt):
            return self.to_int() == o
        if _isint(o) and not 0 <= o < 2**62:
            return False
        o = o if isinstance(o, BitWord) else BitWord.of_int(o)
        return both(*[p == q for p, q in zip(self.parts, o.parts)])

    def __ne__(self, o):
        return neg(self.__eq__(o))

    __hash__ = object.__hash__

    def py_concretize(self, model):
        v = 0
        for (lo, _w), p in zip(LAYOUT, self.parts):
            v += (p if _isint(p) else model.eval(V._z(p), model_completion=True).as_long()) << lo
        return hex(v)

    def __repr__(self):
        return f"BitWord({self.parts!r})"


class WordShape(Shape):
    def fresh(self, st, hint):
        parts = []
        for lo, w in LAYOUT:
            p = st.fresh_int(f"{hint}@{lo}")
            st.assume(both(0 <= p, p < (1 << w)))
            parts.append(p)
        return BitWord(parts)

    def __repr__(self):
        return "Word62"


def _xcheck_bitword():
    """BitWord's rules on concrete words against CPython's &, |, ^, ==, bool."""
    import random

    rnd = random.Random(18)
    masks = [K(n) for n in ("_FG_COLOR_MASK", "_BG_COLOR_MASK", "_FG_MASK", "_BG_MASK", "_FG_BASIC_COLOR", "_BG_HIGH_COLOR", "_HIGH_88_COLOR", "_BOLD")]
    masks += [~m for m in masks] + [K("_BG_HIGH_COLOR") | K("_FG_HIGH_COLOR")]
    bad = []
    for _ in range(3000):
        x, y = rnd.getrandbits(62), rnd.getrandbits(62)
        if rnd.random() < 0.5:
            y &= rnd.choice(masks) & (2**62 - 1)
        wx, wy = BitWord.of_int(x), BitWord.of_int(y)
        if wx.to_int() != x:
            bad.append(("to_int", x))
        for m in masks:
            if wx.and_const(m).to_int() != x & m:
                bad.append(("and", x, m))
        if wx.or_word(None, wy).to_int() != x | y:
            bad.append(("or", x, y))
        if wx.xor_word(None, wy).to_int() != x ^ y:
            bad.append(("xor", x, y))
        if bool(wx == wy) != (x == y) or bool(wx.py_truth(None)) != bool(x):
            bad.append(("eq/truth", x, y))
    return "bitword-operations-agree-with-cpython", not bad, f"3000 random words x {len(masks)} masks; mismatches: {bad[:3]}"


ATTRSPEC = real_const("AttrSpec")
WORD = "_AttrSpec__value"
SPEC = Obj(ATTRSPEC, {WORD: WordShape()})
STYLE_NAMES = ("_STANDOUT", "_UNDERLINE", "_BOLD", "_BLINK", "_ITALICS", "_STRIKETHROUGH")
GETTERS = tuple(f"AttrSpec.{n}" for n in (
    "foreground_basic", "foreground_high", "foreground_true", "foreground_number", "background_basic", "background_high",
    "background_true", "background_number", "italics", "bold", "underline", "blink", "standout", "strikethrough", "_value"))


def word(s):
    w = s.fields[WORD]
    return w if isinstance(w, BitWord) else BitWord.lift(cur(), w)


def flag(v, name):
    return v.parts[bit_index(name)] != 0


def fg_number(v):
    return v.parts[FG]


def bg_number(v):
    return v.parts[BG]


def same_outside(v1, v0, names, numbers=()):
    """Every field other than the named flag bits and number fields is the same in v1 and v0."""
    skip = {bit_index(n) for n in names} | set(numbers)
    return both(*[p == q for i, (p, q) in enumerate(zip(v1.parts, v0.parts)) if i not in skip])


FG_OWN = ("_FG_BASIC_COLOR", "_FG_HIGH_COLOR", "_FG_TRUE_COLOR") + STYLE_NAMES
BG_OWN = ("_BG_BASIC_COLOR", "_BG_HIGH_COLOR", "_BG_TRUE_COLOR")


def side_wf(v, basic, high, true, number):
    """One side (foreground or background) of a well-formed word: at most one kind; the kind fits the declared
    depth (true colours only in 2**24 mode, palette colours only outside it); the number fits the kind."""
    m88, mtrue = flag(v, "_HIGH_88_COLOR"), flag(v, "_HIGH_TRUE_COLOR")
    return both(
        neg(both(basic, high)), neg(both(basic, true)), neg(both(high, true)),
        implies(true, mtrue), implies(high, neg(mtrue)),
        implies(neg(either(basic, high, true)), number == 0),
        implies(basic, number < 16),
        implies(high, number < ite(m88, 88, 256)),
    )


def wf(v):
    """Representation invariant of AttrSpec (what __init__ establishes and the accessors rely on)."""
    return both(
        neg(both(flag(v, "_HIGH_88_COLOR"), flag(v, "_HIGH_TRUE_COLOR"))),
        side_wf(v, flag(v, "_FG_BASIC_COLOR"), flag(v, "_FG_HIGH_COLOR"), flag(v, "_FG_TRUE_COLOR"), fg_number(v)),
        side_wf(v, flag(v, "_BG_BASIC_COLOR"), flag(v, "_BG_HIGH_COLOR"), flag(v, "_BG_TRUE_COLOR"), bg_number(v)),
    )


def RI(s):
    return wf(word(s))


def colors_spec(v):
    any_high = either(flag(v, "_FG_HIGH_COLOR"), flag(v, "_BG_HIGH_COLOR"))
    any_true = either(flag(v, "_FG_TRUE_COLOR"), flag(v, "_BG_TRUE_COLOR"))
    any_basic = either(flag(v, "_FG_BASIC_COLOR"), flag(v, "_BG_BASIC_COLOR"))
    return ite(flag(v, "_HIGH_88_COLOR"), 88, ite(any_high, 256, ite(any_true, 2**24, ite(any_basic, 16, 1))))


@contract(DC + "AttrSpec.colors", property="C18", replayable=False)
class attrspec_colors:
    self_shape = SPEC
    params = {}
    result = Int
    raises = ()

    def ensures(old, s, a, result):
        v = word(s)
        any_high = either(flag(v, "_FG_HIGH_COLOR"), flag(v, "_BG_HIGH_COLOR"))
        any_true = either(flag(v, "_FG_TRUE_COLOR"), flag(v, "_BG_TRUE_COLOR"))
        any_basic = either(flag(v, "_FG_BASIC_COLOR"), flag(v, "_BG_BASIC_COLOR"))
        m88 = flag(v, "_HIGH_88_COLOR")
        yield "declared-88-colour-mode-is-reported-as-88", implies(m88, result == 88)
        yield "one-of-the-five-depths", either(*[result == d for d in (1, 16, 88, 256, 2**24)])
        yield "enough-for-every-colour-present", implies(both(wf(v), neg(m88)), both(implies(any_true, result >= 2**24), implies(any_high, result >= 256), implies(any_basic, result >= 16)))
        yield "no-more-than-some-colour-present-needs", implies(neg(m88), both(implies(result >= 2**24, any_true), implies(result >= 256, either(any_true, any_high)), implies(result >= 16, either(any_true, any_high, any_basic))))
        yield "the-depth-by-flag-priority", result == colors_spec(v)
        yield "word-unchanged", word(s) == word(old)


@contract(DC + "AttrSpec.__eq__", property="C18", replayable=False)
class attrspec_eq:
    self_shape = SPEC
    params = dict(other=Union(SPEC, Int, Const(None)))
    result = Bool
    raises = ()
    inline = GETTERS

    def ensures(old, s, a, result):
        if isinstance(a.other, Q.SObj):
            yield "equal-exactly-when-the-packed-words-are-equal", result == (word(s) == word(a.other))
        else:
            yield "never-equal-to-something-that-is-not-an-attrspec", neg(result)


def hash_spec(v):
    return mk_int(HASH_PAIR(z3.IntVal(V.atom_code("class:AttrSpec")), V._z(v.to_int() if isinstance(v, BitWord) else v)))


@contract(DC + "AttrSpec.__hash__", property="C18", replayable=False)
class attrspec_hash:
    self_shape = SPEC
    params = {}
    result = Int
    raises = ()
    call_real = staticmethod(cstr_call_real)

    def ensures(old, s, a, result):
        yield "a-function-of-the-class-and-the-packed-word-only", result == hash_spec(word(s))


@lemma("equal-attrspecs-have-equal-hashes", property="C18")
class eq_implies_hash:
    """Composition of the two contracts above: __eq__ answers True exactly on equal words, __hash__ is a function of
    the word — so equal specifications hash alike."""
    params = dict(v1=Int, v2=Int)

    def requires(a):
        return a.v1 == a.v2  # what `s1 == s2` means, by AttrSpec.__eq__'s contract

    def claim(a):
        yield "equal-hashes", hash_spec(a.v1) == hash_spec(a.v2)


def rgb_of_side(v, kind_basic, kind_high, kind_true, number, got):
    """`got` (three values) are the RGB components the tables give for one side of the word."""
    m88 = flag(v, "_HIGH_88_COLOR")
    none3 = both(*[opt_isnone(x) for x in got])
    vals = [0 if x is None else val(x) for x in got]
    some3 = both(*[neg(opt_isnone(x)) for x in got])
    t88, t256 = T("_COLOR_VALUES_88", number), T("_COLOR_VALUES_256", number)
    eq3 = lambda t: both(some3, *[x == y for x, y in zip(vals, t)])  # noqa: E731
    # the three bytes of the number, characterised positionally (unique): 0 <= r,g,b < 256 and r*2^16 + g*2^8 + b == number
    true_ok = both(some3, *[both(0 <= x, x < 256) for x in vals], vals[0] * 65536 + vals[1] * 256 + vals[2] == number)
    yield "default-has-no-components", implies(neg(either(kind_basic, kind_high, kind_true)), none3)
    yield "88-colour-mode-reads-the-88-colour-xterm-table", implies(both(either(kind_basic, kind_high), m88), eq3(t88))
    yield "true-colours-are-their-own-components", implies(kind_true, true_ok)
    yield "otherwise-the-256-colour-xterm-table", implies(both(either(kind_basic, kind_high), neg(m88)), eq3(t256))


@contract(DC + "AttrSpec.get_rgb_values", property="C18", replayable=False)
class attrspec_rgb:
    self_shape = SPEC
    params = {}
    raises = ()
    invariant = staticmethod(RI)
    inline = GETTERS
    setup = staticmethod(tables_setup)
    fstring = staticmethod(cstr_fstring)

    def ensures(old, s, a, result):
        v = word(s)
        yield "six-components", len(result) == 6
        for label, f in rgb_of_side(v, flag(v, "_FG_BASIC_COLOR"), flag(v, "_FG_HIGH_COLOR"), flag(v, "_FG_TRUE_COLOR"), fg_number(v), result[0:3]):
            yield "foreground-" + label, f
        for label, f in rgb_of_side(v, flag(v, "_BG_BASIC_COLOR"), flag(v, "_BG_HIGH_COLOR"), flag(v, "_BG_TRUE_COLOR"), bg_number(v), result[3:6]):
            yield "background-" + label, f
        yield "word-unchanged", word(s) == word(old)


ATTRSPEC_ERROR = real_const("AttrSpecError")
BASIC_NAMES = tuple(real_const("_BASIC_COLORS"))
SETTING_NAMES = tuple(real_const("_ATTRIBUTES"))


def is_default_name(s):
    return either(cs_eq(s, ""), cs_eq(s, "default"))


def basic_index(s):
    """(is a basic colour name, its index)"""
    hit, idx = False, 0
    for j in range(len(BASIC_NAMES) - 1, -1, -1):
        e = cs_eq(s, BASIC_NAMES[j])
        hit, idx = either(hit, e), ite(e, j, idx)
    return hit, idx


def valid_palette_form(p, s):
    """s is one of the documented high-colour forms, within the palette: hN, #rgb, g#XX, gN (N <= 100)."""
    n, c0 = cs_len(s), cs_at(s, 0)
    hwf, hv = digits_at(s, 1, 10, 3)
    d = [cs_at(s, i) for i in (1, 2, 3)]
    xwf, _xv = digits_at(s, 2, 16, 2)
    gwf, gv = digits_at(s, 1, 10, 3)
    return either(both(n <= 4, c0 == H, hwf, hv < p.colours), both(n == 4, c0 == HASH, *[is_hex(x) for x in d]),
                  both(n <= 4, n >= 2, c0 == G, cs_at(s, 1) == HASH, xwf), both(n <= 4, c0 == G, gwf, gv <= 100))


def is_rrggbb(s):
    return both(cs_len(s) == 7, cs_at(s, 0) == HASH, *[is_hex(cs_at(s, i)) for i in range(1, 7)])


def colour_part_clauses(v0, s, kind_basic, kind_high, kind_true, number):
    """How one colour description s (not a setting) is stored: kind flags and number, by the mode bits of v0."""
    m88, mtrue = flag(v0, "_HIGH_88_COLOR"), flag(v0, "_HIGH_TRUE_COLOR")
    default = is_default_name(s)
    basic, bidx = basic_index(s)
    named = either(default, basic)
    yield "default-or-empty-stores-no-colour", implies(default, both(neg(kind_basic), neg(kind_high), neg(kind_true), number == 0))
    yield "a-basic-name-stores-its-index-as-a-basic-colour", implies(basic, both(kind_basic, neg(kind_high), neg(kind_true), number == bidx))
    yield "other-colours-are-high-or-true-by-the-declared-depth", implies(neg(named), both(neg(kind_basic), kind_true == mtrue, kind_high == neg(mtrue)))
    stored = V.SOpt(z3.BoolVal(False), number)
    for label, f in parse_spec_clauses(P88, s, stored):
        yield "at-88-colours-" + label, implies(both(neg(named), m88), f)
    for label, f in parse_true_clauses(s, stored):
        yield "at-true-colour-" + label, implies(both(neg(named), neg(m88), mtrue), f)
    six = [cs_at(s, i) for i in range(1, 7)]
    hi = [T(P256.lookup16, digit_val(x, 16)) for x in (six[0], six[2], six[4])]
    yield "at-256-colours-hash-rrggbb-is-the-cube-colour-nearest-to-its-high-digits", implies(both(neg(named), neg(m88), neg(mtrue), is_rrggbb(s)), number == cube_number(P256, *hi))
    for label, f in parse_spec_clauses(P256, s, stored):
        yield "at-256-colours-" + label, implies(both(neg(named), neg(m88), neg(mtrue), neg(is_rrggbb(s))), f)


def rejected_part_clauses(v0, s):
    """What may be said of a colour description that was rejected."""
    m88, mtrue = flag(v0, "_HIGH_88_COLOR"), flag(v0, "_HIGH_TRUE_COLOR")
    yield "default-and-basic-names-are-never-rejected", both(neg(is_default_name(s)), neg(basic_index(s)[0]))
    yield "valid-88-colour-forms-are-never-rejected", implies(m88, both(neg(valid_palette_form(P88, s)), neg(is_rrggbb(s))))
    yield "valid-256-colour-forms-are-never-rejected", implies(neg(m88), both(neg(valid_palette_form(P256, s)), neg(is_rrggbb(s))))


def mode_ok(v):
    return neg(both(flag(v, "_HIGH_88_COLOR"), flag(v, "_HIGH_TRUE_COLOR")))


@contract(DC + "AttrSpec.__set_background", property="C18", replayable=False)
class attrspec_set_background:
    self_shape = SPEC
    params = dict(background=Str())
    raises = (ATTRSPEC_ERROR,)
    modifies = (WORD,)
    setup = staticmethod(tables_setup)
    call_real = staticmethod(cstr_call_real)
    static_checks = [_layout_matches_module, _xcheck_bitword]

    def requires(s, a):
        return mode_ok(word(s))

    def ensures(old, s, a, result):
        v0, v1 = word(old), word(s)
        yield "only-the-background-bit-fields-change", same_outside(v1, v0, BG_OWN, (BG,))
        fresh = neg(flag(v0, "_BG_TRUE_COLOR"))  # the one background bit the setter never clears (as in __init__: word is new)
        kb, kh, kt = flag(v1, "_BG_BASIC_COLOR"), flag(v1, "_BG_HIGH_COLOR"), flag(v1, "_BG_TRUE_COLOR")
        yield "the-background-side-is-well-formed", implies(fresh, side_wf(v1, kb, kh, kt, bg_number(v1)))
        for label, f in colour_part_clauses(v0, a.background, kb, kh, kt, bg_number(v1)):
            yield label, implies(fresh, f)

    def on_raise(old, s, a, exc):
        yield "word-unchanged-when-rejected", word(s) == word(old)
        yield from rejected_part_clauses(word(old), a.background)


# ---- the foreground setter: a loop over the comma-separated parts -------------------------------------------
# str.split(",") / str.strip() are modelled abstractly: split gives m >= 1 parts, each some str without a comma;
# strip of part j gives some str no longer than it (which characters count as blank is left open).  The stripped
# parts are the only thing the loop looks at; they are kept as a ghost sequence for the invariant and the
# postconditions ("part j").


def fg_str_method(ip, st, s, name, args, kwargs):
    if name == "split" and args == [","] and not kwargs:
        m = st.fresh_int("nparts")
        st.assume(m >= 1)
        fam = st.fresh_name("part")
        ln = z3.Function(fam + "$len", z3.IntSort(), z3.IntSort())
        code = z3.Function(fam + "$code", z3.IntSort(), z3.IntSort(), z3.IntSort())
        sln = z3.Function(fam + "$slen", z3.IntSort(), z3.IntSort())
        scode = z3.Function(fam + "$scode", z3.IntSort(), z3.IntSort(), z3.IntSort())

        def mk(lenf, codef, j, stripped):
            zj = V._z(j)

            def at(k):
                e = codef(zj, V._z(k))
                cur().assume(z3.And(e >= 0, e < MAX_CODE, e != 44))
                return mk_int(e)

            n = lenf(zj)
            cur().assume(z3.And(n >= 0, sln(zj) <= ln(zj)))
            r = CStr(mk_int(n), at)
            if not stripped:
                r.strip_result = lambda: mk(sln, scode, j, True)
            return r

        st.ghost["c18_parts"] = (m, lambda j: mk(sln, scode, j, True))
        return Q.LRef(Q.SSeq(m, lambda j: mk(ln, code, j, False), None, None, "parts"))
    if name == "strip" and not args and hasattr(s, "strip_result"):
        return s.strip_result()
    return NotImplemented


def is_setting(s):
    return either(*[cs_eq(s, nm) for nm in SETTING_NAMES])


def only_fg_flag_bits(fl):
    own = {bit_index(n) for n in FG_OWN}
    return both(*[p == 0 for i, p in enumerate(fl.parts) if i not in own])


def fg_kinds(v):
    return flag(v, "_FG_BASIC_COLOR"), flag(v, "_FG_HIGH_COLOR"), flag(v, "_FG_TRUE_COLOR")


def at_most_one_colour_part(upto, part):
    """Among the parts below `upto`, at most one is not a setting."""
    return forall(0, upto, lambda j: forall(0, upto, lambda k: implies(both(neg(is_setting(part(j))), neg(is_setting(part(k)))), j == k)))


SETTING_BITS = dict(real_const("_ATTRIBUTES"))  # setting name -> its flag constant


def no_setting_twice(upto, part):
    """Among the parts below `upto`, none of the six settings occurs twice."""
    return both(*[forall(0, upto, lambda j, nm=nm: forall(0, upto, lambda k: implies(both(cs_eq(part(j), nm), cs_eq(part(k), nm)), j == k))) for nm in SETTING_NAMES])


def _fg_loop_inv(v):
    st = cur()
    fl = BitWord.lift(st, v.flags)
    cn, cv = opt_parts(v.color)
    w = word(v.self)
    _m, part = st.ghost["c18_parts"]
    yield "flags-holds-foreground-flag-bits-only", only_fg_flag_bits(fl)
    yield "the-word-is-not-touched-inside-the-loop", w == word(v.at_entry.self)
    yield "no-colour-yet-means-no-kind-flag", implies(cn, both(*[neg(k) for k in fg_kinds(fl)]))
    yield "a-colour-fits-its-kind-and-the-declared-depth", implies(neg(cn), both(0 <= cv, cv < 2**24, side_wf(w, *fg_kinds(fl), cv)))
    yield "no-colour-yet-means-only-settings-so-far", implies(cn, forall(0, v.i_, lambda j: is_setting(part(j))))
    yield "one-colour-part-so-far", at_most_one_colour_part(v.i_, part)
    yield "every-setting-seen-is-recorded-in-flags", both(*[forall(0, v.i_, lambda j, nm=nm, c=c: implies(cs_eq(part(j), nm), fl.parts[c.bit_length() - 1 - 48 + 2] != 0)) for nm, c in SETTING_BITS.items()])
    yield "no-setting-twice-so-far", no_setting_twice(v.i_, part)


@contract(DC + "AttrSpec.__set_foreground", property="C18", replayable=False)
class attrspec_set_foreground:
    self_shape = SPEC
    params = dict(foreground=Str())
    raises = (ATTRSPEC_ERROR,)
    modifies = (WORD,)
    setup = staticmethod(tables_setup)
    call_real = staticmethod(cstr_call_real)
    str_method = staticmethod(fg_str_method)
    branch_timeout_ms = 400  # the path conditions carry quantifiers: an undecided feasibility check keeps the branch (sound)
    loops = {0: Loop(invariant=_fg_loop_inv, shapes={"color": Opt(Int), "flags": WordShape()})}

    def requires(s, a):
        return mode_ok(word(s))

    def ensures(old, s, a, result):
        v0, v1 = word(old), word(s)
        yield "only-the-foreground-bit-fields-change", same_outside(v1, v0, FG_OWN, (FG,))
        fresh = neg(flag(v0, "_FG_TRUE_COLOR"))  # the one foreground bit the setter never clears (as in __init__: the word is new)
        yield "the-foreground-side-is-well-formed", implies(fresh, side_wf(v1, *fg_kinds(v1), fg_number(v1)))
        st = cur()
        if "c18_parts" in st.ghost and not st.ghost.get("c18_callee"):
            m, part = st.ghost["c18_parts"]
            yield "accepted-only-with-at-most-one-colour-part", at_most_one_colour_part(m, part)
            yield "accepted-only-when-no-setting-is-given-twice", no_setting_twice(m, part)

    def ensures_callee(old, s, a, result):
        v0, v1 = word(old), word(s)
        yield "only-the-foreground-bit-fields-change", same_outside(v1, v0, FG_OWN, (FG,))
        yield "the-foreground-side-is-well-formed", implies(neg(flag(v0, "_FG_TRUE_COLOR")), side_wf(v1, *fg_kinds(v1), fg_number(v1)))

    def on_raise(old, s, a, exc):
        yield "word-unchanged-when-rejected", word(s) == word(old)


DEPTHS = (1, 16, 88, 256, 2**24)


@contract(DC + "AttrSpec.__init__", property="C18", replayable=False)
class attrspec_init:
    self_shape = SPEC
    params = dict(fg=Str(), bg=Str(), colors=Union(*[Const(d) for d in DEPTHS], Int))
    raises = (ATTRSPEC_ERROR,)
    modifies = (WORD,)
    setup = staticmethod(tables_setup)

    def requires(s, a):
        # the last alternative of `colors` stands for every other int
        return both(*[a.colors != d for d in DEPTHS]) if isinstance(a.colors, SInt) else True

    def ensures(old, s, a, result):
        v = word(s)
        yield "only-for-one-of-the-five-depths", either(*[a.colors == d for d in DEPTHS])
        yield "the-word-is-well-formed", wf(v)
        yield "88-colour-mode-is-recorded-exactly-when-declared", flag(v, "_HIGH_88_COLOR") == (a.colors == 88)
        yield "true-colour-mode-is-recorded-exactly-when-declared", flag(v, "_HIGH_TRUE_COLOR") == (a.colors == 2**24)
        yield "needs-no-more-colours-than-declared", colors_spec(v) <= a.colors
        kb, kh, kt = flag(v, "_BG_BASIC_COLOR"), flag(v, "_BG_HIGH_COLOR"), flag(v, "_BG_TRUE_COLOR")
        for label, f in colour_part_clauses(v, a.bg, kb, kh, kt, bg_number(v)):
            yield "background-" + label, f

    def on_raise(old, s, a, exc):
        yield "only-the-librarys-own-error", issubclass(exc.cls, ATTRSPEC_ERROR)


def stored_colour_description_clauses(v, kb, kh, kt, number, result):
    """The colour description reported for one side of a well-formed word."""
    m88, mtrue = flag(v, "_HIGH_88_COLOR"), flag(v, "_HIGH_TRUE_COLOR")
    r = CStr.of(result)
    yield "no-colour-is-default", implies(neg(either(kb, kh, kt)), cs_eq(r, "default"))
    yield "a-basic-colour-is-its-name", implies(kb, either(*[both(number == j, cs_eq(r, nm)) for j, nm in enumerate(BASIC_NAMES)]))
    stored = V.SOpt(z3.BoolVal(False), number)
    for label, f in desc_spec_clauses(P88, number, r):
        yield "at-88-colours-" + label, implies(both(kh, m88), f)
    yield "at-88-colours-the-description-parses-back-to-the-stored-number", implies(both(kh, m88), both(*[f for _l, f in parse_spec_clauses(P88, r, stored)]))
    for label, f in desc_spec_clauses(P256, number, r):
        yield "at-256-colours-" + label, implies(both(kh, neg(m88)), f)
    yield "at-256-colours-the-description-parses-back-to-the-stored-number", implies(both(kh, neg(m88)), both(*[f for _l, f in parse_spec_clauses(P256, r, stored)]))
    yield "a-true-colour-is-hash-and-six-hex-digits", implies(kt, cs_eq(r, hex6(number), 7))
    yield "the-true-colour-description-parses-back-to-the-stored-number", implies(kt, both(*[f for _l, f in parse_true_clauses(r, stored)]))


@contract(DC + "AttrSpec.background", property="C18", replayable=False)
class attrspec_background:
    self_shape = SPEC
    params = {}
    result = Str(9)
    raises = ()
    invariant = staticmethod(RI)
    inline = GETTERS
    setup = staticmethod(tables_setup)

    def ensures(old, s, a, result):
        v = word(s)
        yield from stored_colour_description_clauses(v, flag(v, "_BG_BASIC_COLOR"), flag(v, "_BG_HIGH_COLOR"), flag(v, "_BG_TRUE_COLOR"), bg_number(v), result)
        yield "word-unchanged", word(s) == word(old)


@contract(DC + "AttrSpec._foreground_color", property="C18", replayable=False)
class attrspec_foreground_color:
    self_shape = SPEC
    params = {}
    result = Str(13)
    raises = ()
    invariant = staticmethod(RI)
    inline = GETTERS
    setup = staticmethod(tables_setup)

    def ensures(old, s, a, result):
        v = word(s)
        yield from stored_colour_description_clauses(v, *fg_kinds(v), fg_number(v), result)
        yield "word-unchanged", word(s) == word(old)


def _str_times_bool(ip, st, op, a, b):
    """`",bold" * self.bold`: a str constant times a bool is the constant or "" (one fork)."""
    import ast as _ast

    if isinstance(op, _ast.Mult) and isinstance(a, str) and isinstance(b, SBool):
        return a if st.branch(b) else ""
    return NotImplemented


SETTING_ORDER = (("bold", "_BOLD"), ("italics", "_ITALICS"), ("standout", "_STANDOUT"), ("blink", "_BLINK"), ("underline", "_UNDERLINE"), ("strikethrough", "_STRIKETHROUGH"))


@contract(DC + "AttrSpec.foreground", property="C18", replayable=False)
class attrspec_foreground:
    self_shape = SPEC
    params = {}
    result = Str(64)
    raises = ()
    invariant = staticmethod(RI)
    inline = GETTERS
    setup = staticmethod(tables_setup)
    binop = staticmethod(_str_times_bool)

    def ensures(old, s, a, result):
        v = word(s)
        colour = attrspec_foreground_color.spec_value(s)
        suffix = "".join("," + nm for nm, const in SETTING_ORDER if bool(flag(v, const)))  # decided on each path
        want = cs_concat(CStr.of(colour), CStr.of(suffix))
        yield "the-colour-description-then-each-setting-present-once-in-the-fixed-order", cs_eq(CStr.of(result), want, 13 + len(suffix))
        yield "word-unchanged", word(s) == word(old)
