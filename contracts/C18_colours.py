"""C18 — colour tables: contracts on the numeric kernel of urwid/display/common.py.
The string-level round trip (descriptions <-> numbers) ranges over the statement's own finite domain and
is decided exhaustively by the bounded check; no string theory is attempted here (DESIGN.md §6 C18)."""
from pyvc import seqs as Q
from pyvc import values as V
from pyvc.api import *
from pyvc.values import cur

DC = "urwid/display/common.py:"


def item(x, i):
    return Q.seq_get(x, i) if isinstance(x, V.Sym) or isinstance(i, V.Sym) else x[i]


def length(x):
    return Q.seq_len(x) if isinstance(x, V.Sym) else len(x)


@contract(DC + "_gray_num_256", property="C18")
class gray_num_256:
    params = dict(gnum=Int)
    result = Int

    def ensures(a, result):
        yield "black-below-the-ramp", implies(a.gnum <= 0, result == 16)
        yield "white-above-the-ramp", implies(a.gnum >= 25, result == 231)
        yield "ramp", implies(both(1 <= a.gnum, a.gnum <= 24), result == 232 + a.gnum - 1)
        yield "a-256-colour-index", both(16 <= result, result <= 255)


@contract(DC + "_gray_num_88", property="C18")
class gray_num_88:
    params = dict(gnum=Int)
    result = Int

    def ensures(a, result):
        yield "black-below-the-ramp", implies(a.gnum <= 0, result == 16)
        yield "white-above-the-ramp", implies(a.gnum >= 9, result == 79)
        yield "ramp", implies(both(1 <= a.gnum, a.gnum <= 8), result == 80 + a.gnum - 1)
        yield "an-88-colour-index", both(16 <= result, result <= 87)


def nearest_index_ok(values, v, idx):
    """idx is the index of a value nearest to v (ties resolved to the upper neighbour)."""
    n = length(values)
    return both(0 <= idx, idx < n,
                implies(idx > 0, 2 * v + 1 > item(values, imax(idx - 1, 0)) + item(values, idx) if False else
                        2 * v >= item(values, imax(idx - 1, 0)) + item(values, idx)),
                implies(idx < n - 1, 2 * v < item(values, idx) + item(values, imin(idx + 1, n - 1))))


def _mid(v, k):
    """k-th midpoint boundary: 0, the rounded-up midpoints of neighbouring values, then size."""
    vs = v.values.seq
    n = length(vs)
    return ite(k <= 0, 0, ite(k >= n, v.size, (item(vs, imax(k - 1, 0)) + item(vs, imin(imax(k, 0), n - 1)) + 1) // 2))


@contract(DC + "_value_lookup_table", property="C18", replayable=False)
class value_lookup_table:
    params = dict(values=ListOf(Int(0, 2**16), min_len=1), size=Int)
    result = ListOf(Int)

    def requires(a):
        vs = a.values.seq if hasattr(a.values, "seq") else a.values
        n = length(vs)
        return both(a.size >= 1, a.size <= 2**16, forall(0, n - 1, lambda i: item(vs, i) < item(vs, i + 1)), item(vs, n - 1) < a.size, item(vs, 0) >= 0)

    def ensures(a, result):
        vs = a.values.seq if hasattr(a.values, "seq") else a.values
        tbl = result.seq if hasattr(result, "seq") else result
        yield "one-entry-per-value-below-size", length(tbl) == a.size
        yield "each-entry-is-the-nearest-value", forall(0, a.size, lambda v: nearest_index_ok(vs, v, item(tbl, v)))

    loops = {
        0: Loop(
            invariant=lambda v: both(
                Q.seq_len(v.lookup_table.seq) == _mid(v, v.i_),
                forall(0, Q.seq_len(v.lookup_table.seq), lambda x: nearest_index_ok(v.values.seq, x, Q.seq_get(v.lookup_table.seq, x))),
            ),
            shapes={"lookup_table": ListOf(Int)},
        )
    }
