"""C09 / C01 / C08 — BoxAdapter: a flow widget showing a box widget at a fixed height.  Shared geometry of every entry
point: the child is drawn at offset (0, 0) with size (maxcol, height); nothing is padded, nothing is clipped."""
from pyvc.api import *
from pyvc.api import PROTOCOLS
from pyvc.values import cur, is_none
from contracts.proto_widget import *
from contracts.C19_space import size_ok
from contracts.C09_geometry import calls, opt_eq_shift, opt_same
from urwid.widget import box_adapter as _ba

BA = "urwid/widget/box_adapter.py:"
BOXADAPTER = Obj(_ba.BoxAdapter, dict(_original_widget=Opaque("Widget"), height=Int))
BINL = ("urwid/widget/widget_decoration.py:WidgetDecoration.original_widget",)
FLOWSIZE = Tup(Int)


def ba_wf(s, size):
    return both(size_ok(size), 0 <= s.height, s.height < PARTMAX)


def ba_child_size(s, size):
    return (size[0], s.height)


def _frame(old, s):
    return both(s.height == old.height, eq(s._original_widget, old._original_widget))


@contract(BA + "BoxAdapter.rows", property=("C01", "C09"), inline=BINL, replayable=False)
class ba_rows:
    self_shape = BOXADAPTER
    params = dict(size=FLOWSIZE, focus=Bool)
    result = Int
    raises = ()

    def requires(s, a):
        return ba_wf(s, a.size)

    def ensures(old, s, a, result):
        W = PROTOCOLS["Widget"]
        child = W.call_quiet(cur(), old._original_widget, "render", dict(size=ba_child_size(old, a.size), focus=a.focus))
        yield "the-fixed-height", result == old.height
        yield "rows-equal-rendered-rows", result == child.nrows
        yield "asks-no-one", len(calls()) == 0
        yield "frame", _frame(old, s)

    def pure_spec(old, a):
        return old.height


@contract(BA + "BoxAdapter.render", property=("C09", "C01"), inline=BINL, replayable=False)
class ba_render:
    self_shape = BOXADAPTER
    params = dict(size=FLOWSIZE, focus=Bool)
    result = CCANVAS
    raises = ()

    def requires(s, a):
        return ba_wf(s, a.size)

    def ensures(old, s, a, r):
        W = PROTOCOLS["Widget"]
        cs = ba_child_size(old, a.size)
        child = W.call_quiet(cur(), old._original_widget, "render", dict(size=cs, focus=a.focus))
        yield "size", both(r.ncols == a.size[0], r.nrows == old.height)
        rc = calls("render")
        yield "child-rendered-once-at-its-size", both(len(rc) == 1, eq(rc[0][3]["size"], cs) if rc else False, eq(rc[0][3]["focus"], a.focus) if rc else False)
        yield "cursor-is-childs", opt_eq_shift(r.cursor, child.cursor, 0, 0)
        yield "child-drawn-at-the-origin", both(r.src == child.src, r.top_off == 0, r.left_off == 0)
        yield "frame", _frame(old, s)


def _query_contract(method, result_shape, label):
    @contract(BA + f"BoxAdapter.{method}", property="C09", inline=BINL, replayable=False)
    class _q:
        self_shape = BOXADAPTER
        params = dict(size=FLOWSIZE)
        result = result_shape
        raises = ()

        def requires(s, a):
            return ba_wf(s, a.size)

        def ensures(old, s, a, result):
            W = PROTOCOLS["Widget"]
            w = old._original_widget
            q = calls(method)
            if not W.hasattr(None, cur(), w, method):
                yield "no-cursor-protocol", both(is_none(result), len(q) == 0)
                return
            cs = ba_child_size(old, a.size)
            want = W.call_quiet(cur(), w, method, dict(size=cs))
            yield label, (opt_eq_shift(result, want, 0, 0) if method == "get_cursor_coords" else opt_same(result, want))
            yield "asked-once-with-the-rendered-size", both(len(q) == 1, eq(q[0][3]["size"], cs) if q else False)
            yield "frame", _frame(old, s)

    _q.__name__ = f"ba_{method}"
    return _q


ba_gcc = _query_contract("get_cursor_coords", Opt(Tup(Int, Int)), "childs-cursor-unshifted")
ba_gpc = _query_contract("get_pref_col", Opt(Int), "childs-preferred-column")


@contract(BA + "BoxAdapter.keypress", property=("C09", "C08"), inline=BINL, replayable=False)
class ba_keypress:
    self_shape = BOXADAPTER
    params = dict(size=FLOWSIZE, key=Opaque("Key"))
    result = Opt(Opaque("Key"))
    raises = ()

    def requires(s, a):
        return ba_wf(s, a.size)

    def ensures(old, s, a, result):
        cs = ba_child_size(old, a.size)
        kp = calls("keypress")
        yield "offered-once-with-the-rendered-size", both(len(kp) == 1, eq(kp[0][3]["size"], cs) if kp else False, eq(kp[0][3]["key"], a.key) if kp else False)
        if kp:
            yield "result-is-childs", opt_same(result, kp[0][4])
        yield "frame", _frame(old, s)


@contract(BA + "BoxAdapter.move_cursor_to_coords", property="C09", inline=BINL, replayable=False)
class ba_mctc:
    self_shape = BOXADAPTER
    params = dict(size=FLOWSIZE, col=Int, row=Int)
    result = Bool
    raises = ()

    def requires(s, a):
        return both(ba_wf(s, a.size), 0 <= a.col, a.col < a.size[0], 0 <= a.row, a.row < s.height)

    def ensures(old, s, a, result):
        W = PROTOCOLS["Widget"]
        w = old._original_widget
        cs = ba_child_size(old, a.size)
        mv = calls("move_cursor_to_coords")
        if not W.hasattr(None, cur(), w, "move_cursor_to_coords"):
            yield "no-cursor-protocol", both(len(mv) == 0, result == True)  # noqa: E712
            return
        yield "forwarded-once", len(mv) == 1
        if mv:
            v = mv[0][3]
            yield "same-cell", both(eq(v["size"], cs), v["col"] == a.col, v["row"] == a.row)
            yield "succeeds-iff-child-accepts", eq(result, mv[0][4])
        yield "frame", _frame(old, s)


@contract(BA + "BoxAdapter.mouse_event", property="C09", inline=BINL, replayable=False)
class ba_mouse:
    self_shape = BOXADAPTER
    params = dict(size=FLOWSIZE, event=Opaque("Key"), button=Int, col=Int, row=Int, focus=Bool)
    result = Bool
    raises = ()

    def requires(s, a):
        return both(ba_wf(s, a.size), 0 <= a.col, a.col < a.size[0], 0 <= a.row, a.row < s.height)

    def ensures(old, s, a, result):
        W = PROTOCOLS["Widget"]
        w = old._original_widget
        cs = ba_child_size(old, a.size)
        me = calls("mouse_event")
        if not W.hasattr(None, cur(), w, "mouse_event"):
            yield "no-handler", both(len(me) == 0, result == False)  # noqa: E712
            return
        yield "delivered-to-child-once", len(me) == 1
        if me:
            v = me[0][3]
            yield "same-cell-same-event", both(eq(v["size"], cs), v["col"] == a.col, v["row"] == a.row, v["button"] == a.button, eq(v["focus"], a.focus), eq(v["event"], a.event))
            yield "result-is-childs", eq(result, me[0][4])
        yield "frame", _frame(old, s)


@contract(BA + "BoxAdapter.sizing", property="C01", inline=BINL, replayable=False)
class ba_sizing:
    self_shape = BOXADAPTER
    raises = ()

    def ensures(old, s, a, result):
        from urwid.widget.constants import Sizing

        yield "flow-only", result == frozenset((Sizing.FLOW,))
        yield "frame", _frame(old, s)


def _not_box(a):
    return neg(sizing_has(a.box_widget, urwid.Sizing.BOX))


@contract(BA + "BoxAdapter.__init__", property=("C01", "C09"), replayable=False,
          inline=BINL + ("urwid/widget/widget_decoration.py:WidgetDecoration.__init__",))
class ba_init:
    self_shape = BOXADAPTER
    params = dict(box_widget=Opaque("Widget"), height=Int)
    raises = (_ba.BoxAdapterError,)

    def ensures(old, s, a, result):
        yield "wraps-a-box-widget", neg(_not_box(a))
        yield "child-and-height-stored", both(eq(s._original_widget, a.box_widget), s.height == a.height)

    def on_raise(old, s, a, exc):
        yield "only-for-a-child-that-is-not-a-box-widget", _not_box(a)
