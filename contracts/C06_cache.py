"""C06 — static (AST, path-sensitive) obligations of pyvc/effects.py on the real ASTs re-read from /repo:

(a) invalidate-on-write: one obligation per (bundled widget class, public mutator);
(b) dependency registration: one obligation per bundled container / decoration class — on every normal-exit path
    of `render` the returned canvas depends on (explicit `set_depends`, or composition from the children's own
    canvases) every child widget that the rendering consulted (`render/rows/pack/get_cursor_coords/get_pref_col`
    called on it, directly or through `self.` helpers); elements of `self.contents` that a loop skips after they
    were consulted need an explicit dependency on the whole collection.  See the comment block in pyvc/effects.py.
    `weakref` / garbage-collection lifetime of the cached canvases is out of scope here.

(c) finalized canvases refuse mutation: in every public method / property setter of the canvas classes each write of the
    canvas is reached only after `if self.widget_info [and self.cacheable]: raise self._finalized_error`.

(d) shared shard lists are never mutated in place: `CompositeCanvas(canv)` — the sanctioned way to change a finalized canvas —
    shares `canv.shards` (and the cview lists inside) with the canvas it wraps; in every CompositeCanvas method and every
    shard-list helper of urwid/canvas.py no path performs an in-place list mutation (append / extend / += / item assignment ...)
    on a list that may be shared (path-sensitive provenance analysis, pyvc/effects.py analyse_shared_shards). Otherwise a
    cached canvas changes after it was handed out, without any CanvasError (statement: "canvases handed out by the cache are
    never modified afterwards").

The deductive contracts of CanvasCache / the render wrappers / Canvas.finalize are in contracts/C06_store.py."""
import urwid

from pyvc.api import REGISTRY, Contract
from pyvc.effects import analyse_class, analyse_finalized_guard, analyse_render_deps, analyse_shared_shards

CLASSES = [
    urwid.Text, urwid.Edit, urwid.IntEdit, urwid.Divider, urwid.SolidFill, urwid.Padding, urwid.Filler, urwid.Pile,
    urwid.Columns, urwid.GridFlow, urwid.Frame, urwid.Overlay, urwid.LineBox, urwid.AttrMap, urwid.AttrWrap,
    urwid.BoxAdapter, urwid.ListBox, urwid.CheckBox, urwid.RadioButton, urwid.Button, urwid.SelectableIcon,
    urwid.ProgressBar, urwid.BarGraph, urwid.GraphVScale, urwid.BigText, urwid.Scrollable, urwid.ScrollBar,
    urwid.WidgetPlaceholder, urwid.WidgetDisable, urwid.PopUpLauncher, urwid.WidgetWrap,
]

# Exemptions (each needed on the unchanged tree), with the reason the cache stays coherent:
EXEMPT = {
    "Scrollable.keypress": "_old_cursor_coords only steers the next _adjust_trim_top; the key is forwarded to the wrapped widget whose own "
                           "invalidation propagates to this widget through the cache dependency (CanvasCache._deps); scroll actions do invalidate",
}


# (b) containers / decorations whose render consults child widgets (every bundled class that has children)
DEP_CLASSES = [
    urwid.Padding, urwid.Filler, urwid.AttrMap, urwid.AttrWrap, urwid.Pile, urwid.Columns, urwid.Frame, urwid.Overlay,
    urwid.BoxAdapter, urwid.Scrollable, urwid.ScrollBar, urwid.LineBox, urwid.GridFlow, urwid.ListBox,
    urwid.WidgetPlaceholder, urwid.WidgetDisable, urwid.WidgetWrap, urwid.PopUpLauncher, urwid.PopUpTarget,
    urwid.Button, urwid.CheckBox, urwid.RadioButton,
]

# Obligations of (b) that failed on the tree before the four fixes below — each replayed on the real classes (cached
# render != render after CanvasCache.clear()); they are ordinary obligations now, excluded from nothing:
# failed before fix: Pile.render registers a cache dependency on every item, also on items it does not draw
#                p = Pile([Text("a"), inner]) with inner = Pile([]) (0 rows): p.render((5,)); then
#                inner.contents.append((Text("x"), ("pack", None))); p.render((5,)) still shows ['a    '] (fresh: 'a','x');
#                same with Pile([inner]) alone: the blank SolidCanvas exit (`if not combinelist`) has no dependency at all.
# failed before fix: Columns.render registers a cache dependency on every column, also on the hidden ones
#                c = Columns([("pack", t), Text("b")]) with t = Text("") (packs to 0 columns, column hidden):
#                c.render((6,)); t.set_text("zz"); c.render((6,)) still shows 'b     ' (fresh: 'zzb   ').
# failed before fix: Frame.render registers a cache dependency on a header / footer it measured but did not draw
#                f = Frame(SolidFill("."), header=h) with h = Pile([]) (0 rows => htrim == 0, header not rendered):
#                f.render((4,3)); h.contents.append((Text("HDR"), ("pack", None))); f.render((4,3)) still has no header row.
# failed before fix: Overlay.render registers a cache dependency on top_w when only bottom_w is drawn
#                o = Overlay(t, SolidFill("."), "center", ("relative", 100), "top", "pack") with t = Pile([]):
#                o.render((6,)) has 0 rows (exit `not bottom_c.rows()`); t.contents.append((Text("hey"), ("pack", None)));
#                o.render((6,)) and o.rows((6,)) still answer 0 rows (fresh: 1 row 'hey   ').
# In all four the child was consulted through rows()/pack() only, was never rendered, so it is not in the cache and its
# _invalidate() reaches nobody.

# Exemptions of (b) (each needed on the unchanged tree; the key is printed by a failing obligation):
DEP_EXEMPT = {
    "ListBox.render@ListBox.render#ret0:*": "the `middle is None` exit is taken only when the walker's focus widget is None, i.e. the body is empty, and then "
                                       "_set_focus_complete cannot have consulted any widget (the path is infeasible: the enumeration does not correlate the two); "
                                       "a body that becomes non-empty fires 'modified' -> ListBox._invalidate",
    "PopUpTarget.render@PopUpTarget.render#ret0:original_widget": "_current_widget is the original widget itself or the Overlay that _update_overlay builds with the original widget "
                                                             "as its bottom_w; the canvas returned is that widget's own canvas, whose dependency on the original widget is "
                                                             "Overlay.render's obligation",
}


class _EffectsTask(Contract):
    """Not a function contract: a bundle of static (AST) obligations."""

    is_lemma = False
    property = "C06"
    assumed = False
    static_only = True
    group = "invalidate-on-write"

    def __init__(self, cls, kind="effects"):
        self.cls_ = cls
        self.kind = kind
        self.target = f"{kind}:{cls.__module__}.{cls.__name__}"
        if kind == "deps":
            self.group = "render-depends-on-consulted-children"
        if kind == "guard":
            self.group = "finalized-canvas-refuses-mutation"
        if kind == "shards":
            self.group = "shared-shard-lists-not-mutated-in-place"


def _make(cls, kind="effects"):
    t = _EffectsTask(cls, kind)
    REGISTRY[t.target] = t
    return t


# (c) finalized canvases refuse mutation: every canvas class of urwid/canvas.py
from urwid import canvas as _canvas  # noqa: E402

GUARD_CLASSES = [_canvas.Canvas, _canvas.TextCanvas, _canvas.SolidCanvas, _canvas.CompositeCanvas]  # BlankCanvas has no writing method

for _c in CLASSES:
    _make(_c)
for _c in DEP_CLASSES:
    _make(_c, "deps")
for _c in GUARD_CLASSES:
    _make(_c, "guard")
# (d) the class whose instances share shard lists with the canvases they wrap (and the shard-list helpers of its module)
_make(_canvas.CompositeCanvas, "shards")


def run_effects(target):
    t = REGISTRY[target]
    if t.kind == "deps":
        return analyse_render_deps(t.cls_, DEP_EXEMPT)
    if t.kind == "guard":
        return analyse_finalized_guard(t.cls_)
    if t.kind == "shards":
        return analyse_shared_shards(t.cls_)
    results, rs = analyse_class(t.cls_, EXEMPT)
    return results, rs
