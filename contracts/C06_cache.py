"""C06 — invalidate-on-write effect obligations for every bundled widget class (pyvc/effects.py):
path-sensitive, on the real ASTs re-read from /repo. One obligation per (class, public mutator)."""
import urwid

from pyvc.api import REGISTRY, Contract
from pyvc.effects import analyse_class

CLASSES = [
    urwid.Text, urwid.Edit, urwid.IntEdit, urwid.Divider, urwid.SolidFill, urwid.Padding, urwid.Filler, urwid.Pile,
    urwid.Columns, urwid.GridFlow, urwid.Frame, urwid.Overlay, urwid.LineBox, urwid.AttrMap, urwid.AttrWrap,
    urwid.BoxAdapter, urwid.ListBox, urwid.CheckBox, urwid.RadioButton, urwid.Button, urwid.SelectableIcon,
    urwid.ProgressBar, urwid.BarGraph, urwid.GraphVScale, urwid.BigText, urwid.Scrollable, urwid.ScrollBar,
    urwid.WidgetPlaceholder, urwid.WidgetDisable, urwid.PopUpLauncher, urwid.WidgetWrap,
]

# Exemptions (each needed on the unchanged tree), with the reason the cache stays coherent:
EXEMPT = {
    "Scrollable.keypress": "_old_cursor_coords only steers the next _adjust_trim_top; the key is forwarded to the wrapped widget whose own "
                           "invalidation propagates to this widget through the cache dependency (CanvasCache._deps); scroll actions do invalidate",
}


class _EffectsTask(Contract):
    """Not a function contract: a bundle of static (AST) obligations."""

    is_lemma = False
    property = "C06"
    assumed = False
    static_only = True

    def __init__(self, cls):
        self.cls_ = cls
        self.target = f"effects:{cls.__module__}.{cls.__name__}"


def _make(cls):
    t = _EffectsTask(cls)
    REGISTRY[t.target] = t
    return t


for _c in CLASSES:
    _make(_c)


def run_effects(target):
    t = REGISTRY[target]
    results, rs = analyse_class(t.cls_, EXEMPT)
    return results, rs
