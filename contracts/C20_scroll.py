"""C20 — Scrollable / ScrollBar: contracts on the real methods of urwid/widget/scrollable.py."""
from pyvc.api import *
from pyvc.values import cur, is_none, mk_bool
from contracts.proto_widget import *
from urwid import Sizing
from urwid.widget import scrollable as _sc

SC = "urwid/widget/scrollable.py:"
ACTIONS = (None, "line up", "line down", "page up", "page down", "to top", "to end")
SCROLLABLE = Obj(
    _sc.Scrollable,
    dict(
        _original_widget=Opaque("Widget"),
        _trim_top=Int,
        _scroll_action=Atom(*ACTIONS),
        _forward_keypress=Opt(Bool),
        _old_cursor_coords=Opt(Tup(Int, Int)),
        _rows_max_cached=Int,
        force_forward_keypress=Bool,
    ),
)


def delta(action, maxrow):
    return ite(action == "line up", -1, ite(action == "line down", 1, ite(action == "page up", -(maxrow - 1), ite(action == "page down", maxrow - 1, 0))))


@contract(SC + "Scrollable._adjust_trim_top", property="C20")
class adjust_trim_top:
    self_shape = SCROLLABLE
    params = dict(canv=CCANVAS, size=Tup(Int, Int))
    modifies = ("_trim_top", "_scroll_action", "_old_cursor_coords")

    def requires(s, a):
        return both(a.size[0] >= 1, a.size[1] >= 1, canvas_wf(a.canv))

    def ensures(old, s, a, result):
        maxrow = a.size[1]
        rows = a.canv.nrows
        p = s._trim_top
        yield "action-consumed", is_none(s._scroll_action)
        if rows <= maxrow:
            yield "short-content-resets", p == 0
            return
        top_max = rows - maxrow
        yield "in-range", both(0 <= p, p <= top_max)
        p0 = ite(old._trim_top < 0, rows - maxrow + old._trim_top + 1, old._trim_top)  # negative = from the bottom
        cur_ = a.canv.cursor
        oc = old._old_cursor_coords
        if is_none(oc) or is_none(cur_):
            cursor_rule = False
        else:
            cursor_rule = bool(neg(both(val(oc)[0] == val(cur_)[0], val(oc)[1] == val(cur_)[1])))
        act = old._scroll_action
        want = ite(act == "to top", 0, ite(act == "to end", top_max, imax(0, imin(top_max, p0 + delta(act, maxrow)))))
        if not cursor_rule:
            yield "moves-by-documented-amount", p == want
        else:
            cy = val(cur_)[1]
            yield "cursor-row-visible", both(p <= cy, cy < p + maxrow)
            yield "cursor-rule-minimal", implies(both(want <= cy, cy < want + maxrow), p == want)

    def make_self(selfvals):
        from spec.stubs import make_stub
        w = _sc.Scrollable(make_stub([]))
        w._trim_top = selfvals["_trim_top"]
        w._scroll_action = selfvals["_scroll_action"]
        oc = selfvals["_old_cursor_coords"]
        w._old_cursor_coords = tuple(oc) if oc is not None else None
        return w

    def observe(w):
        return dict(_trim_top=w._trim_top, _scroll_action=w._scroll_action, _old_cursor_coords=w._old_cursor_coords)

    def native_call(fn, kwargs):
        from urwid.canvas import CompositeCanvas, SolidCanvas
        c = kwargs["canv"]
        canv = CompositeCanvas(SolidCanvas("x", max(c["ncols"], 1), c["nrows"]))
        if c["cursor"] is not None:
            canv.cursor = tuple(c["cursor"])
        return fn(canv, tuple(kwargs["size"]))


@contract(SC + "Scrollable.render", property="C20",
          inline=(SC + "Scrollable._get_original_widget_size",))
class scrollable_render:
    self_shape = SCROLLABLE
    params = dict(size=Tup(Int, Int), focus=Bool)
    result = CCANVAS
    modifies = ("_trim_top", "_scroll_action", "_old_cursor_coords", "_forward_keypress")

    def requires(s, a):
        w = s._original_widget
        return both(a.size[0] >= 1, a.size[1] >= 1, a.size[0] < B, a.size[1] < B, either(sizing_has(w, Sizing.FLOW), sizing_has(w, Sizing.FIXED)))

    def ensures(old, s, a, r):
        maxcol, maxrow = a.size
        W = PROTOCOLS["Widget"]
        w = old._original_widget
        ow_size = (maxcol,) if sizing_has(w, Sizing.FLOW) else ()
        full = W.call_quiet(cur(), w, "render", dict(size=ow_size, focus=a.focus))
        total = full.nrows
        yield "size", both(r.ncols == maxcol, r.nrows == maxrow)
        yield "same-content", both(r.src == full.src, r.left_off == 0)
        p = r.top_off
        yield "slice-in-range", both(0 <= p, p <= imax(0, total - maxrow))
        if both(total <= maxrow, full.ncols <= maxcol):
            yield "fits-no-scroll", p == 0
        else:
            yield "position-reported", p == s._trim_top
        yield "child-rendered-once", count_ev(cur().trace, "call") >= 1


# ---- ScrollBar

from pyvc.protocol import PMethod, Protocol  # noqa: E402
import z3  # noqa: E402


class ScrollBaseProtocol(Protocol):
    """The scrolling base widget found by ScrollBar.scrolling_base_widget (a Scrollable or a ListBox)."""

    kind = "ScrollBase"
    methods = {
        "rows_max": PMethod(Dim, params=["size", "focus"], defaults={"size": None, "focus": False}),
        "get_scrollpos": PMethod(Int, params=["size", "focus"], defaults={"size": None, "focus": False}),
        "require_relative_scroll": PMethod(Bool, params=["size", "focus"], defaults={"focus": False}),
        "get_visible_amount": PMethod(Dim, params=["size", "focus"], defaults={"focus": False}),
        "get_first_visible_pos": PMethod(Dim, params=["size", "focus"], defaults={"focus": False}),
        "__len__": PMethod(Dim, params=[]),
        "__length_hint__": PMethod(Dim, params=[]),
    }
    has = {"__len__": "uf", "__length_hint__": "uf", "require_relative_scroll": "uf", "rows_max": True, "get_scrollpos": True}

    def isinstance(self, ip, st, obj, cls):
        f = z3.Function(f"ScrollBase.isinstance_{cls.__name__}", obj.e.sort(), z3.BoolSort())
        return mk_bool(f(obj.e))


PROTOCOLS["ScrollBase"] = ScrollBaseProtocol()

SCROLLBAR = Obj(
    _sc.ScrollBar,
    dict(
        _original_widget=Opaque("Widget"),
        _scroll_base=Opaque("ScrollBase"),
        _scrollbar_width=Int,
        _scrollbar_side=Atom("left", "right"),
        _original_widget_size=Tup(Int, Int),
        _thumb_char=Const("#"),
        _trough_char=Const(" "),
    ),
)


@contract(SC + "ScrollBar.scrolling_base_widget", property=(), assumed=True,
          notes="the first SupportsScroll widget under the ScrollBar (found by orig_iter); abstract here")
class sb_base:
    self_shape = SCROLLBAR
    pure_spec = staticmethod(lambda old, a: old._scroll_base)


def thumb_geometry(maxrow, rows_max, pos):
    """Spec of the bar for content taller than the view (rows_max > maxrow >= 1, 0 <= pos <= rows_max - maxrow),
    written from the statement: thumb proportional to the visible fraction (at least one row), the trough
    above proportional to the position, at least one row as soon as the first row is scrolled out,
    and everything fits in the view."""
    return None


@contract(SC + "ScrollBar.render", property="C20", replayable=False)
class scrollbar_render:
    self_shape = SCROLLBAR
    params = dict(size=Tup(Int, Int), focus=Bool)
    result = CCANVAS
    modifies = ("_original_widget_size",)

    def requires(s, a):
        st = cur()
        SBp = PROTOCOLS["ScrollBase"]
        rel = SBp.isinstance(None, st, s._scroll_base, _sc.SupportsRelativeScroll)
        maxcol, maxrow = a.size
        ow_size = (imax(0, maxcol - s._scrollbar_width), maxrow)
        rm = SBp.call_quiet(st, s._scroll_base, "rows_max", dict(size=ow_size, focus=a.focus))
        pos = SBp.call_quiet(st, s._scroll_base, "get_scrollpos", dict(size=ow_size, focus=a.focus))
        # the wrapped Scrollable reports, after rendering, a position inside its range (C20, Scrollable.render)
        return both(neg(rel), maxcol >= 1, maxrow >= 1, maxcol < 2**20, maxrow < 2**20, s._scrollbar_width >= 1,
                    0 <= pos, pos <= imax(0, rm - maxrow), rm < 2**20)

    def ensures(old, s, a, r):
        st = cur()
        maxcol, maxrow = a.size
        SBp = PROTOCOLS["ScrollBase"]
        rm_full = SBp.call_quiet(st, old._scroll_base, "rows_max", dict(size=a.size, focus=a.focus))
        drawn = rm_full > maxrow
        yield "size", both(r.ncols == maxcol, r.nrows == maxrow)
        calls = [ev for ev in st.trace if ev[0] == "call" and ev[2] == "render"]
        yield "child-rendered-once", len(calls) == 1
        child_size = calls[0][3]["size"] if calls else (0, 0)
        width = imin(old._scrollbar_width, maxcol)
        if drawn:
            yield "child-gets-width-minus-bar", both(child_size[0] == maxcol - width, child_size[1] == maxrow, child_size[0] >= 0)
            comb = [ev for ev in st.trace if ev[0] == "combine"]
            yield "bar-drawn", len(comb) == 1
            if comb:
                runs = comb[0][1]
                yield "three-parts", len(runs) == 3
                if len(runs) == 3:
                    top, thumb, bottom = [c for c, _ in runs]
                    ow_size = (maxcol - width, maxrow)
                    pos = SBp.call_quiet(st, old._scroll_base, "get_scrollpos", dict(size=ow_size, focus=a.focus))
                    yield "parts-nonneg", both(top >= 0, thumb >= 0, bottom >= 0)
                    yield "parts-fill-view", top + thumb + bottom == maxrow
                    yield "thumb-at-top-iff-first-row-visible", eq(top == 0, pos == 0)
                    rm = SBp.call_quiet(st, old._scroll_base, "rows_max", dict(size=ow_size, focus=a.focus))
                    if rm > maxrow:
                        st_top, st_thumb = bar_parts(maxrow, rm, pos)
                        yield "parts-are-bar_parts", both(top == st_top, thumb == st_thumb)
        else:
            yield "no-bar-child-gets-full-size", both(child_size[0] == maxcol, child_size[1] == maxrow, count_ev(st.trace, "combine") == 0)


def bar_parts(maxrow, rows_max, pos):
    """(top, thumb) of the scrollbar as a function of the view height, the content height and the
    position — ScrollBar.render is proved to draw exactly these (clause `parts-are-bar_parts`), so
    properties of this function are properties of the code."""
    thumb_weight = imin(1.0, to_real(maxrow) / imax(1, rows_max))
    thumb = imax(1, iround(thumb_weight * maxrow))
    posmax = rows_max - maxrow
    top_weight = to_real(pos) / imax(1, posmax)
    top = itrunc((maxrow - thumb) * top_weight)
    bump = both(top == 0, top_weight > 0)
    top2 = ite(bump, 1, top)
    thumb2 = ite(bump, imin(thumb, maxrow - 1), thumb)
    return top2, thumb2


@lemma("scrollbar-thumb-never-moves-up", property="C20")
class thumb_monotone:
    params = dict(maxrow=Int, rows_max=Int, pos1=Int, pos2=Int)

    def requires(a):
        return both(a.maxrow >= 1, a.maxrow < 2**20, a.rows_max > a.maxrow, a.rows_max < 2**20, 0 <= a.pos1, a.pos1 <= a.pos2, a.pos2 <= a.rows_max - a.maxrow)

    def claim(a):
        t1, th1 = bar_parts(a.maxrow, a.rows_max, a.pos1)
        t2, th2 = bar_parts(a.maxrow, a.rows_max, a.pos2)
        yield "top-monotone-in-position", t1 <= t2


def _missing(ip, st, obj, name):
    if name == "_command_map":
        return COMMAND_MAP
    return NotImplemented


SCROLL_CMDS = {"cursor up": "line up", "cursor down": "line down", "cursor page up": "page up", "cursor page down": "page down",
               "cursor max left": "to top", "cursor max right": "to end"}


@contract(SC + "Scrollable.keypress", property="C20", inline=(SC + "Scrollable._get_original_widget_size",), replayable=False)
class scrollable_keypress:
    self_shape = SCROLLABLE
    params = dict(size=Tup(Int, Int), key=Opaque("Key"))
    result = Opt(Opaque("Key"))
    missing_field = staticmethod(_missing)

    def requires(s, a):
        w = s._original_widget
        return both(a.size[0] >= 1, a.size[1] >= 1, either(sizing_has(w, Sizing.FLOW), sizing_has(w, Sizing.FIXED)))

    def ensures(old, s, a, result):
        st = cur()
        kp = [ev for ev in st.trace if ev[0] == "call" and ev[2] == "keypress"]
        fwd = old._forward_keypress
        forwarded = ((not is_none(fwd)) and bool(val(fwd))) or bool(old.force_forward_keypress)
        inval = count_ev(s.trace, "_invalidate")
        if forwarded:
            yield "offered-once-to-child", len(kp) == 1
            child_result = kp[0][4] if kp else None
            if is_none(child_result):
                yield "handled-by-child-not-used-for-scrolling", both(is_none(result), eq(s._scroll_action, old._scroll_action), inval == 0, s._trim_top == old._trim_top)
                return
            key2 = val(child_result)
        else:
            yield "not-offered", len(kp) == 0
            key2 = a.key
        cmd = command_of(key2)
        scroll = either(*[cmd == c for c in SCROLL_CMDS])
        if scroll:
            yield "scroll-recorded", both(is_none(result), inval == 1, *[implies(cmd == c, s._scroll_action == act) for c, act in SCROLL_CMDS.items()])
        else:
            yield "unused-key-returned-unchanged", both(neg(is_none(result)), eq(val(result), key2) if not is_none(result) else False, inval == 0, eq(s._scroll_action, old._scroll_action))
        yield "position-untouched", s._trim_top == old._trim_top


@contract(SC + "Scrollable.mouse_event", property="C20", inline=(SC + "Scrollable._get_original_widget_size",), replayable=False)
class scrollable_mouse:
    self_shape = SCROLLABLE
    params = dict(size=Tup(Int, Int), event=Opaque("Key"), button=Int, col=Int, row=Int, focus=Bool)
    result = Bool

    def requires(s, a):
        w = s._original_widget
        return both(a.size[0] >= 1, a.size[1] >= 1, either(sizing_has(w, Sizing.FLOW), sizing_has(w, Sizing.FIXED)))

    def ensures(old, s, a, result):
        st = cur()
        me = [ev for ev in st.trace if ev[0] == "call" and ev[2] == "mouse_event"]
        if PROTOCOLS["Widget"].hasattr(None, st, old._original_widget, "mouse_event"):
            yield "delivered-once", len(me) == 1
            if me:
                v = me[0][3]
                yield "row-translated-by-scroll-position", both(v["row"] == a.row + old._trim_top, v["col"] == a.col, v["button"] == a.button, eq(v["focus"], a.focus))
                yield "result-is-childs", eq(result, me[0][4])
        else:
            yield "no-handler", both(len(me) == 0, result == False)  # noqa: E712
        yield "no-scrolling", both(s._trim_top == old._trim_top, eq(s._scroll_action, old._scroll_action))


@contract(SC + "Scrollable.set_scrollpos", property="C20")
class set_scrollpos:
    self_shape = SCROLLABLE
    params = dict(position=Int)

    def ensures(old, s, a, result):
        yield "stored", s._trim_top == a.position
        yield "invalidates", count_ev(s.trace, "_invalidate") == 1

    def make_self(selfvals):
        return adjust_trim_top.make_self(selfvals)

    def observe(w):
        inv = []
        return dict(_trim_top=w._trim_top, trace=[("_invalidate",)])


@contract(SC + "Scrollable.get_scrollpos", property="C20")
class get_scrollpos:
    self_shape = SCROLLABLE
    params = dict(size=Opt(Tup(Int, Int)), focus=Bool)
    result = Int

    def ensures(old, s, a, result):
        yield "reports-position", result == old._trim_top
        yield "pure", s._trim_top == old._trim_top


@contract(SC + "Scrollable.rows_max", property="C20", inline=(SC + "Scrollable._get_original_widget_size",), replayable=False)
class rows_max:
    self_shape = SCROLLABLE
    params = dict(size=Tup(Int, Int), focus=Bool)
    result = Int

    def requires(s, a):
        w = s._original_widget
        return both(a.size[0] >= 1, a.size[1] >= 1, either(sizing_has(w, Sizing.FLOW), sizing_has(w, Sizing.FIXED)))

    def ensures(old, s, a, result):
        st = cur()
        W = PROTOCOLS["Widget"]
        w = old._original_widget
        ow_size = (a.size[0],) if sizing_has(w, Sizing.FLOW) else ()
        full = W.call_quiet(st, w, "render", dict(size=ow_size, focus=a.focus))
        yield "total-rows-of-full-rendering", result == full.nrows


@contract(SC + "ScrollBar.keypress", property="C20", replayable=False)
class scrollbar_keypress:
    self_shape = SCROLLBAR
    params = dict(size=Tup(Int, Int), key=Opaque("Key"))
    result = Opt(Opaque("Key"))

    def ensures(old, s, a, result):
        st = cur()
        kp = [ev for ev in st.trace if ev[0] == "call" and ev[2] == "keypress"]
        yield "forwarded-once-with-the-size-last-rendered", both(len(kp) == 1, eq(kp[0][3]["size"], old._original_widget_size) if kp else False, eq(kp[0][3]["key"], a.key) if kp else False)
        yield "result-is-childs", (is_none(result) and is_none(kp[0][4])) or ((not is_none(result)) and (not is_none(kp[0][4])) and bool(eq(val(result), val(kp[0][4])))) if kp else False
        yield "no-other-calls", len([ev for ev in st.trace if ev[0] == "call"]) == 1


@contract(SC + "ScrollBar.mouse_event", property="C20", replayable=False)
class scrollbar_mouse:
    self_shape = SCROLLBAR
    params = dict(size=Tup(Int, Int), event=Opaque("Key"), button=Int, col=Int, row=Int, focus=Bool)
    result = Bool

    def requires(s, a):
        # a widget that can be positioned can also report its position (urwid's SupportsScroll protocol)
        W = PROTOCOLS["Widget"]
        return implies(W.hasattr(None, cur(), s._original_widget, "set_scrollpos"), W.hasattr(None, cur(), s._original_widget, "get_scrollpos"))

    def ensures(old, s, a, result):
        st = cur()
        W = PROTOCOLS["Widget"]
        w = old._original_widget
        me = [ev for ev in st.trace if ev[0] == "call" and ev[2] == "mouse_event"]
        sets = [ev for ev in st.trace if ev[0] == "call" and ev[2] == "set_scrollpos"]
        gets = [ev for ev in st.trace if ev[0] == "call" and ev[2] == "get_scrollpos"]
        has_me = bool(W.hasattr(None, st, w, "mouse_event"))
        yield "offered-to-child-first", len(me) == (1 if has_me else 0)
        handled = bool(me[0][4]) if me else False
        if handled:
            yield "handled-by-child-not-used-for-scrolling", both(len(sets) == 0, result == True)  # noqa: E712
        elif bool(W.hasattr(None, st, w, "set_scrollpos")) and bool(either(a.button == 4, a.button == 5)):
            yield "wheel-scrolls-one-line", both(len(sets) == 1, len(gets) == 1, result == True)  # noqa: E712
            if sets and gets:
                pos = gets[0][4]
                want = ite(a.button == 4, imax(pos - 1, 0), pos + 1)
                yield "by-one-line", sets[0][3]["position"] == want
        else:
            yield "not-handled", both(len(sets) == 0, result == False)  # noqa: E712
