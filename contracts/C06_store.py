"""C06 (iii)/(iv) — CanvasCache.store / fetch / invalidate / cleanup / clear, the metaclass-installed render wrappers,
Canvas.finalize and the finalized-canvas guard of every canvas mutator: deductive contracts on the REAL bodies of
urwid/canvas.py and urwid/widget/widget.py.

Abstract view (DESIGN §6 C06 (iii)):
    cached : (widget, wcls, size, focus) -> ref           ( = `_widgets[widget][wcls, size, focus]` )
    deps   : widget -> list of dependant widgets          ( = `_deps[widget]` ), membership view dmem(x, y) = "y in deps[x]"
    refs   : ref -> (widget, wcls, size, focus)           ( = `_refs`, the reverse map used only by cleanup )

Models (assumed facts about the Python runtime, stated here once):
  * dict with symbolic keys = (has, val) functions, a new version per mutation; the nested dict `_widgets[w]` is a view
    (WMap, w) so aliasing through `sizes = cls._widgets.get(widget)` is kept; `cnt(w)` = len of the inner dict with the
    one fact used: a key present => cnt >= 1 (so an empty inner dict has no key).
  * list values of `_deps`: (len, element, membership) with: every element is a member, every member is an element.
  * `weakref.ref(canvas, callback)` is an injective constructor `ref_of(canvas)` and `ref()` gives the canvas back:
    WHEN a canvas is collected is out of scope — weak references are modelled as plain (always live) references and
    `cleanup` is verified as an ordinary function. What IS covered of garbage collection: the callback can fire only for
    a weak reference object that is still alive, i.e. (the cache holds the only references to them) one that is still a
    key of `_refs` or a value of `_widgets` — `cleanup`'s precondition; and the class invariant full_inv (`_widgets` and
    `_refs` are inverse to each other: rep_inv + no_stale_ref), kept by store (at the wrappers' call site) / invalidate /
    cleanup / cached_render and established by clear, makes every such firing remove exactly the entry that held the
    collected canvas (clause removes-only-an-entry-holding-the-dead-ref) and the dependants list only with the widget's
    last entry. The end-to-end statement "garbage collection is invisible" is exercised by bounded/C06.py (gc-histories).
  * widgets, canvases, classes and sizes are opaque individuals (sorts CWidget, CCanvas, CClass, CSize): the cache
    never looks inside them apart from canvas.cacheable / widget_info / depends_on / children.
"""
import weakref

import z3

from pyvc import shapes as S
from pyvc import values as V
from pyvc.api import *
from pyvc.api import PROTOCOLS
from pyvc.engine import PyRaise, SExc
from pyvc.protocol import PMethod, Protocol
from pyvc.seqs import LRef, ModelObj, SObj, SSeq
from pyvc.values import SOpaque, cur, mk_bool, mk_int

from urwid import canvas as _canvas

CV = "urwid/canvas.py:"
W, C, R, K, Z = (S.opaque_sort(k) for k in ("CWidget", "CCanvas", "CRef", "CClass", "CSize"))
B, I = z3.BoolSort(), z3.IntSort()


def zb(x):
    return V._zb(x) if not isinstance(x, bool) else z3.BoolVal(x)


def key_terms(key):
    """(wcls, size, focus) -> z3 terms"""
    wcls, size, focus = key
    return [wcls.e, size.e, zb(focus)]


def _qvars(tag):
    return z3.Const(f"q{tag}_w", W), z3.Const(f"q{tag}_c", K), z3.Const(f"q{tag}_z", Z), z3.Const(f"q{tag}_f", B)


# --------------------------------------------------------------------------------------------- _widgets
class WMap(ModelObj):
    """`CanvasCache._widgets`: widget -> {(wcls, size, focus): ref}. z3-level functions hasw(w), has2(w,c,z,f),
    val2(w,c,z,f), cnt(w)."""

    def __init__(self, st, name, empty=False):
        nm = st.fresh_name(name)
        if empty:
            self.hasw = lambda w: z3.BoolVal(False)
            self.has2 = lambda w, c, z, f: z3.BoolVal(False)
            fv = z3.Function(f"{nm}$val2", W, K, Z, B, R)
            self.val2 = lambda w, c, z, f: fv(w, c, z, f)
            self.cnt = lambda w: z3.IntVal(0)
            return
        fw, f2 = z3.Function(f"{nm}$hasw", W, B), z3.Function(f"{nm}$has2", W, K, Z, B, B)
        fv, fc = z3.Function(f"{nm}$val2", W, K, Z, B, R), z3.Function(f"{nm}$cnt", W, I)
        st.ghost.setdefault("c06_fns", []).append(("widgets", fw, f2, fc))
        self.hasw, self.has2, self.val2, self.cnt = (lambda w: fw(w)), (lambda w, c, z, f: f2(w, c, z, f)), (lambda w, c, z, f: fv(w, c, z, f)), (lambda w: fc(w))
        self.wf(st)

    def wf(self, st):
        """dict model fact: len counts the keys (a key present => len >= 1; len >= 0)."""
        w, c, z, f = _qvars("wf")
        st.assume(mk_bool(z3.ForAll([w, c, z, f], z3.Implies(self.has2(w, c, z, f), self.cnt(w) >= 1))))
        st.assume(mk_bool(z3.ForAll([w], self.cnt(w) >= 0)))

    def cached(self, w, c, z, f):
        """abstract view: is there an entry for (widget, wcls, size, focus)"""
        return z3.And(self.hasw(w), self.has2(w, c, z, f))

    def snapshot(self):
        o = WMap.__new__(WMap)
        o.hasw, o.has2, o.val2, o.cnt = self.hasw, self.has2, self.val2, self.cnt
        return o

    def py_truth(self, st):
        raise Unsupported("truth of _widgets")

    def py_contains(self, ip, st, k):
        return mk_bool(self.hasw(k.e))

    def py_getitem(self, ip, st, k):
        st.partial(mk_bool(self.hasw(k.e)), KeyError, "widget")
        return Inner(self, k.e)

    def py_delitem(self, ip, st, k):
        st.partial(mk_bool(self.hasw(k.e)), KeyError, "widget")
        oh, ke = self.hasw, k.e
        self.hasw = lambda w: z3.And(oh(w), w != ke)

    def py_call(self, ip, st, name, args, kwargs):
        if name == "get":
            k = args[0]
            if st.branch(self.hasw(k.e)):
                return Inner(self, k.e)
            return args[1] if len(args) > 1 else None
        if name == "setdefault":
            k, d = args
            if not (isinstance(d, V.Sym) and type(d).__name__ == "DRef" and not d.d):
                raise Unsupported("_widgets.setdefault with a default other than {}")
            if not st.branch(self.hasw(k.e)):
                oh, o2, oc, ke = self.hasw, self.has2, self.cnt, k.e
                self.hasw = lambda w: z3.Or(oh(w), w == ke)
                self.has2 = lambda w, c, z, f: z3.And(o2(w, c, z, f), w != ke)
                self.cnt = lambda w: z3.If(w == ke, 0, oc(w))
            return Inner(self, k.e)
        if name == "pop":
            # dict.pop(k[, default]): removes the widget's inner dict; the popped dict is detached (no longer a view)
            k = args[0]
            if st.branch(self.hasw(k.e)):
                oh, ke = self.hasw, k.e
                self.hasw = lambda w: z3.And(oh(w), w != ke)
                return _Detached("the dict popped from _widgets")
            if len(args) > 1:
                return args[1]
            raise PyRaise(SExc(KeyError, ("widget",), site="_widgets.pop"))
        raise Unsupported(f"_widgets.{name}")


class _Detached(ModelObj):
    """A value the model does not follow any further (e.g. the inner dict returned by `_widgets.pop`): any use of it
    is an honest Unsupported."""

    def __init__(self, what):
        self.what = what

    def snapshot(self):
        return self

    def py_truth(self, st):
        raise Unsupported(f"truth of {self.what}")

    def py_call(self, ip, st, name, args, kwargs):
        raise Unsupported(f"{self.what} .{name}")


class Inner(ModelObj):
    """The inner dict `_widgets[w]` as a view (reference semantics through the owning WMap)."""

    def __init__(self, m, w):
        self.m, self.w = m, w

    def snapshot(self):
        return self

    def py_truth(self, st):
        return mk_bool(self.m.cnt(self.w) > 0)

    def py_call(self, ip, st, name, args, kwargs):
        if name == "get":
            kt = key_terms(args[0])
            if st.branch(self.m.has2(self.w, *kt)):
                return SOpaque("CRef", self.m.val2(self.w, *kt))
            return args[1] if len(args) > 1 else None
        if name == "values":
            return InnerValues(st, self.m, self.w)
        if name == "pop":
            # dict.pop(key[, default]) = get + del
            kt = key_terms(args[0])
            if st.branch(self.m.has2(self.w, *kt)):
                r = SOpaque("CRef", self.m.val2(self.w, *kt))
                self.py_delitem(ip, st, args[0])
                return r
            if len(args) > 1:
                return args[1]
            raise PyRaise(SExc(KeyError, ("cache key",), site="inner dict .pop"))
        raise Unsupported(f"inner dict .{name}")

    def py_setitem(self, ip, st, key, v):
        m, w0, kt = self.m, self.w, key_terms(key)
        o2, ov, oc = m.has2, m.val2, m.cnt
        here = lambda w, c, z, f: z3.And(w == w0, c == kt[0], z == kt[1], f == kt[2])  # noqa: E731
        was = o2(w0, *kt)
        m.has2 = lambda w, c, z, f: z3.Or(o2(w, c, z, f), here(w, c, z, f))
        m.val2 = lambda w, c, z, f: z3.If(here(w, c, z, f), v.e, ov(w, c, z, f))
        m.cnt = lambda w: z3.If(w == w0, oc(w) + z3.If(was, 0, 1), oc(w))
        m.wf(st)

    def py_delitem(self, ip, st, key):
        m, w0, kt = self.m, self.w, key_terms(key)
        st.partial(mk_bool(m.has2(w0, *kt)), KeyError, "cache key")
        o2, oc = m.has2, m.cnt
        m.has2 = lambda w, c, z, f: z3.And(o2(w, c, z, f), z3.Not(z3.And(w == w0, c == kt[0], z == kt[1], f == kt[2])))
        m.cnt = lambda w: z3.If(w == w0, oc(w) - 1, oc(w))
        m.wf(st)


class InnerValues(SSeq):
    """`_widgets[w].values()`: the refs of the inner dict in iteration order — a sequence of length cnt(w) in which every
    position holds the value of some present key and every present key's value occurs (dict iteration visits each key
    once)."""

    def __init__(self, st, m, w):
        nm = st.fresh_name("vals")
        en = z3.Function(f"{nm}$at", I, R)
        kc, kz, kf = z3.Function(f"{nm}$kc", I, K), z3.Function(f"{nm}$kz", I, Z), z3.Function(f"{nm}$kf", I, B)
        pos = z3.Function(f"{nm}$pos", K, Z, B, I)
        n = m.cnt(w)
        j = z3.Int(f"{nm}$j")
        has2, val2 = m.has2, m.val2
        st.assume(mk_bool(z3.ForAll([j], z3.Implies(z3.And(0 <= j, j < n), z3.And(has2(w, kc(j), kz(j), kf(j)), val2(w, kc(j), kz(j), kf(j)) == en(j))))))
        _w, c, z, f = _qvars("iv")
        st.assume(mk_bool(z3.ForAll([c, z, f], z3.Implies(has2(w, c, z, f), z3.And(0 <= pos(c, z, f), pos(c, z, f) < n, en(pos(c, z, f)) == val2(w, c, z, f))))))
        super().__init__(mk_int(n), lambda i: SOpaque("CRef", en(V._z(i))), S.Opaque("CRef"), None, nm)
        self.at = en


# --------------------------------------------------------------------------------------------- _refs
class RMap(ModelObj):
    """`CanvasCache._refs`: ref -> (widget, wcls, size, focus)."""

    def __init__(self, st, name, empty=False):
        nm = st.fresh_name(name)
        fh = z3.Function(f"{nm}$has", R, B)
        fw, fc, fz, ff = z3.Function(f"{nm}$w", R, W), z3.Function(f"{nm}$c", R, K), z3.Function(f"{nm}$z", R, Z), z3.Function(f"{nm}$f", R, B)
        self.has = (lambda r: z3.BoolVal(False)) if empty else (lambda r: fh(r))
        self.val = lambda r: (fw(r), fc(r), fz(r), ff(r))
        st.ghost.setdefault("c06_fns", []).append(("refs", fh))

    def snapshot(self):
        o = RMap.__new__(RMap)
        o.has, o.val = self.has, self.val
        return o

    def _tuple(self, r):
        w, c, z, f = self.val(r)
        return (SOpaque("CWidget", w), SOpaque("CClass", c), SOpaque("CSize", z), mk_bool(f))

    def py_setitem(self, ip, st, k, v):
        oh, ov, ke = self.has, self.val, k.e
        w, c, z, f = v
        nv = (w.e, c.e, z.e, zb(f))
        self.has = lambda r: z3.Or(oh(r), r == ke)
        self.val = lambda r: tuple(z3.If(r == ke, a, b) for a, b in zip(nv, ov(r)))

    def py_delitem(self, ip, st, k):
        st.partial(mk_bool(self.has(k.e)), KeyError, "ref")
        oh, ke = self.has, k.e
        self.has = lambda r: z3.And(oh(r), r != ke)

    def py_call(self, ip, st, name, args, kwargs):
        if name == "get":
            k = args[0]
            if st.branch(self.has(k.e)):
                return self._tuple(k.e)
            return args[1] if len(args) > 1 else None
        if name == "pop":
            # dict.pop(ref[, default]) = get + del
            k = args[0]
            if st.branch(self.has(k.e)):
                t = self._tuple(k.e)
                oh, ke = self.has, k.e
                self.has = lambda r: z3.And(oh(r), r != ke)
                return t
            if len(args) > 1:
                return args[1]
            raise PyRaise(SExc(KeyError, ("ref",), site="_refs.pop"))
        raise Unsupported(f"_refs.{name}")


# --------------------------------------------------------------------------------------------- _deps
class DMap(ModelObj):
    """`CanvasCache._deps`: widget -> list of dependants. has(x); the list of x as (dlen(x), delt(x, j)) with the
    membership view dmem(x, y); `size` = number of keys (the measure of invalidate's recursion)."""

    def __init__(self, st, name, empty=False, members=True):
        self.members = members
        nm = st.fresh_name(name)
        fh, fl, fe = z3.Function(f"{nm}$has", W, B), z3.Function(f"{nm}$len", W, I), z3.Function(f"{nm}$elt", W, I, W)
        fm, fi = z3.Function(f"{nm}$mem", W, W, B), z3.Function(f"{nm}$idx", W, W, I)
        self.has = (lambda x: z3.BoolVal(False)) if empty else (lambda x: fh(x))
        self.dlen, self.delt, self.dmem, self.didx = (lambda x: fl(x)), (lambda x, j: fe(x, j)), (lambda x, y: fm(x, y)), (lambda x, y: fi(x, y))
        self.size = z3.IntVal(0) if empty else V._z(st.fresh_int(name + "_size"))
        st.ghost.setdefault("c06_fns", []).append(("deps", fh, fl, fe, self.size))
        self.wf(st)

    def wf(self, st):
        """list model facts: len >= 0, every element is a member, every member is an element; the number of keys is >= 0
        and a key present => size >= 1."""
        x, y, j = z3.Const("qd_x", W), z3.Const("qd_y", W), z3.Int("qd_j")
        st.assume(mk_bool(z3.ForAll([x], self.dlen(x) >= 0)))
        if self.members:
            # membership view (used by store's contract); invalidate's contract speaks about list elements only
            st.assume(mk_bool(z3.ForAll([x, j], z3.Implies(z3.And(0 <= j, j < self.dlen(x)), self.dmem(x, self.delt(x, j))))))
            st.assume(mk_bool(z3.ForAll([x, y], z3.Implies(self.dmem(x, y), z3.And(0 <= self.didx(x, y), self.didx(x, y) < self.dlen(x), self.delt(x, self.didx(x, y)) == y)))))
        st.assume(mk_bool(self.size >= 0))
        st.assume(mk_bool(z3.ForAll([x], z3.Implies(self.has(x), self.size >= 1))))

    def edge(self, x, y):
        """abstract view: y is registered as a dependant of x"""
        return z3.And(self.has(x), self.dmem(x, y))

    def snapshot(self):
        o = DMap.__new__(DMap)
        o.has, o.dlen, o.delt, o.dmem, o.didx, o.size, o.members = self.has, self.dlen, self.delt, self.dmem, self.didx, self.size, self.members
        return o

    def listval(self, x):
        return SSeq(mk_int(self.dlen(x)), (lambda j, f=self.delt, x=x: SOpaque("CWidget", f(x, V._z(j)))), S.Opaque("CWidget"), None, "deps_list")

    def py_contains(self, ip, st, k):
        return mk_bool(self.has(k.e))

    def py_delitem(self, ip, st, k):
        st.partial(mk_bool(self.has(k.e)), KeyError, "widget")
        oh, ke = self.has, k.e
        self.has = lambda x: z3.And(oh(x), x != ke)
        self.size = self.size - 1
        st.assume(mk_bool(self.size >= 0))
        x = z3.Const("qd_x", W)
        st.assume(mk_bool(z3.ForAll([x], z3.Implies(self.has(x), self.size >= 1))))

    def py_call(self, ip, st, name, args, kwargs):
        if name == "get":
            k = args[0]
            if st.branch(self.has(k.e)):
                return self.listval(k.e)
            return args[1] if len(args) > 1 else None
        if name == "setdefault":
            k, d = args
            if not (isinstance(d, LRef) and d.seq == ()):
                raise Unsupported("_deps.setdefault with a default other than []")
            if not st.branch(self.has(k.e)):
                oh, ol, om, ke = self.has, self.dlen, self.dmem, k.e
                self.has = lambda x: z3.Or(oh(x), x == ke)
                self.dlen = lambda x: z3.If(x == ke, 0, ol(x))
                self.dmem = lambda x, y: z3.And(om(x, y), x != ke)
                self.size = self.size + 1
            return DList(self, k.e)
        if name == "pop":
            # dict.pop(widget[, default]) = get + del (the list value is the immutable (len, element) view at the pop)
            k = args[0]
            if st.branch(self.has(k.e)):
                lst = self.listval(k.e)
                self.py_delitem(ip, st, k)
                return lst
            if len(args) > 1:
                return args[1]
            raise PyRaise(SExc(KeyError, ("widget",), site="_deps.pop"))
        raise Unsupported(f"_deps.{name}")


class DList(ModelObj):
    """The list `_deps[x]` as a view: append."""

    def __init__(self, m, x):
        self.m, self.x = m, x

    def py_call(self, ip, st, name, args, kwargs):
        if name != "append":
            raise Unsupported(f"deps list .{name}")
        m, x0, y0 = self.m, self.x, args[0].e
        ol, oe, om, oi = m.dlen, m.delt, m.dmem, m.didx
        n0 = ol(x0)
        m.dlen = lambda x: z3.If(x == x0, ol(x) + 1, ol(x))
        m.delt = lambda x, j: z3.If(z3.And(x == x0, j == n0), y0, oe(x, j))
        m.dmem = lambda x, y: z3.Or(om(x, y), z3.And(x == x0, y == y0))
        m.didx = lambda x, y: z3.If(z3.And(x == x0, y == y0, z3.Not(om(x, y))), n0, oi(x, y))
        return None


# --------------------------------------------------------------------------------------------- the class object
def _fresh_cache(st, hint):
    o = SObj(_canvas.CanvasCache, dict(_widgets=WMap(st, "widgets"), _refs=RMap(st, "refs"), _deps=DMap(st, "deps"),
                                       fetches=st.fresh_int("fetches"), hits=st.fresh_int("hits"), cleanups=st.fresh_int("cleanups")))
    o.stands_for_class = True  # `cls` of the classmethods: attribute reads/writes go to these fields
    return o


CACHE = Custom(_fresh_cache, "CanvasCache")
CACHE.fields = {"_widgets": Custom(lambda st, h: WMap(st, "widgets_n"), "WMap"), "_refs": Custom(lambda st, h: RMap(st, "refs_n"), "RMap"),
                "_deps": Custom(lambda st, h: DMap(st, "deps_n"), "DMap"), "fetches": Int, "hits": Int, "cleanups": Int}

def _fresh_cache_elems(st, hint):
    o = SObj(_canvas.CanvasCache, dict(_widgets=WMap(st, "widgets"), _refs=RMap(st, "refs"), _deps=DMap(st, "deps", members=False),
                                       fetches=st.fresh_int("fetches"), hits=st.fresh_int("hits"), cleanups=st.fresh_int("cleanups")))
    o.stands_for_class = True
    return o


def empty_entries_witness(st):
    """Witness scenario for vacuity guards whose path condition is full of quantified model facts: no widget has a
    cached entry and _refs is empty, in every version of the maps created so far on this path; `widget` has the one
    dependant y0 at entry and no widget has a list afterwards. Used only to show satisfiability (pyvc.engine.State.cover)."""
    out = []
    w, c, z, f = _qvars("cw")
    r, j = z3.Const("qcw_r", R), z3.Int("qcw_j")
    y0 = z3.Const("cw_y0", W)
    target = (st.ex.inputs or {}).get("widget")
    first_deps = True
    for item in st.ghost.get("c06_fns", []):
        if item[0] == "widgets":
            _t, fw, f2, fc = item
            out.append(z3.ForAll([w, c, z, f], z3.And(z3.Not(fw(w)), z3.Not(f2(w, c, z, f)), fc(w) == 0)))
        elif item[0] == "refs":
            out.append(z3.ForAll([r], z3.Not(item[1](r))))
        elif target is not None:
            # dependants: at entry only `widget` has a list, [y0] with y0 another widget; every later version has no list
            _t, fh, fl, fe, size = item
            out.append(z3.ForAll([w, j], z3.And(fl(w) == 1, fe(w, j) == y0)))
            out.append(z3.ForAll([w], fh(w) == (w == target.e)) if first_deps else z3.ForAll([w], z3.Not(fh(w))))
            out.append(size == (1 if first_deps else 0))
            out.append(y0 != target.e)
            first_deps = False
    return out


CACHE_E = Custom(_fresh_cache_elems, "CanvasCache(lists as element sequences)")
CACHE_E.fields = dict(CACHE.fields, _deps=Custom(lambda st, h: DMap(st, "deps_n", members=False), "DMap"))

WIDGET, WCLS, SIZE, CANV, REF = Opaque("CWidget"), Opaque("CClass"), Opaque("CSize"), Opaque("CCanvas"), Opaque("CRef")

ref_of = z3.Function("weakref.ref", C, R)
deref = z3.Function("weakref.deref", R, C)


def rep_inv(s):
    """Representation invariant linking `_widgets` and `_refs` (the forward half, which is what the code maintains):
    every cached entry's ref is a key of `_refs` and maps back to exactly this entry."""
    w, c, z, f = _qvars("ri")
    wm, rm = s._widgets, s._refs
    r = wm.val2(w, c, z, f)
    rw, rc, rz, rf = rm.val(r)
    return mk_bool(z3.ForAll([w, c, z, f], z3.Implies(wm.cached(w, c, z, f), z3.And(rm.has(r), rw == w, rc == c, rz == z, rf == f))))


def no_stale_ref(s):
    """The CONVERSE half of the representation invariant: every key of `_refs` names an entry that is still cached under
    that (widget, wcls, size, focus) key and holds that very reference. `cleanup(ref)` deletes whatever entry `_refs[ref]`
    names (and the widget's dependants list with its last entry), so a stale key of `_refs` — one whose entry was
    invalidated or overwritten — makes the garbage collection of the OLD canvas remove the NEW entry stored under the
    same key together with `_deps[widget]`: the dependency cascade is lost and an ancestor keeps a stale canvas
    (statement: garbage collection of unreferenced canvases is invisible)."""
    r = z3.Const("qns_r", R)
    wm, rm = s._widgets, s._refs
    k = rm.val(r)
    return mk_bool(z3.ForAll([r], z3.Implies(rm.has(r), z3.And(wm.cached(*k), wm.val2(*k) == r))))


def full_inv(s):
    """`_widgets` and `_refs` are inverse to each other: rep_inv (entries -> refs) and no_stale_ref (refs -> entries)."""
    return both(rep_inv(s), no_stale_ref(s))


def _real(ip, st, f, args, kwargs):
    if f is weakref.ref:
        # weakref.ref(canvas, callback): an injective constructor; the callback (GC lifetime) is out of scope
        c = args[0]
        r = ref_of(c.e)
        st.assume(mk_bool(deref(r) == c.e))
        return SOpaque("CRef", r)
    return NotImplemented


class _RefProto:
    """Calling a weak reference gives the referent (always live: GC lifetime out of scope)."""

    kind = "CRef"

    def call(self, ip, st, f, args, kwargs):
        return SOpaque("CCanvas", deref(f.e))


PROTOCOLS["CRef"] = _RefProto()


class _CanvasProto(Protocol):
    """What CanvasCache reads of a canvas: `cacheable`, `widget_info` (None or (widget, size, focus)), an optional
    explicit `depends_on` list, `children` (only through walk_depends, which has its own contract)."""

    kind = "CCanvas"
    methods = {"rows": PMethod(result=Int, params=[])}
    attrs = {"cacheable": Bool, "widget_info": Opt(Tup(WIDGET, SIZE, Bool))}
    has = {"children": None, "depends_on": "uf"}

    def getattr(self, ip, st, obj, name):
        if name == "depends_on":
            # set only by CompositeCanvas.set_depends: absent otherwise (AttributeError -> getattr's default)
            if not st.branch(V._zb(self.hasattr(ip, st, obj, "depends_on"))):
                raise PyRaise(SExc(AttributeError, ("depends_on",), site="protocol"))
            return depends_on_of(st, obj)
        return super().getattr(ip, st, obj, name)


PROTOCOLS["CCanvas"] = _CanvasProto()


def depends_on_of(st, canv):
    """The explicit `depends_on` list of a canvas (a function of the canvas)."""
    from pyvc.protocol import uf_shape_value

    return uf_shape_value(st, "canvas.depends_on", [canv.e], ListOf(WIDGET, tuple_=True))


def walked_of(st, canv):
    """The list walk_depends(canvas) returns (a function of the canvas)."""
    from pyvc.protocol import uf_shape_value

    return uf_shape_value(st, "walk_depends", [canv.e], ListOf(WIDGET, tuple_=True))


def has_attr(canv, name):
    return mk_bool(z3.Function(f"CCanvas.has_{name}", C, B)(canv.e))


def widget_info_of(st, canv):
    return PROTOCOLS["CCanvas"].uf_value(st, ".widget_info", canv, [], Opt(Tup(WIDGET, SIZE, Bool)), 0)


# ============================================================================================= fetch
@contract(CV + "CanvasCache.fetch", property="C06", replayable=False)
class fetch:
    """fetch returns only what store put (the referent of the entry's ref) and None when there is no entry; it changes
    nothing but the statistics."""
    self_shape = CACHE
    params = dict(widget=WIDGET, wcls=WCLS, size=SIZE, focus=Bool)
    result = Opt(CANV)
    modifies = ("fetches", "hits")
    raises = ()

    def ensures(old, s, a, result):
        wm = old._widgets
        kt = [a.widget.e, a.wcls.e, a.size.e, zb(a.focus)]
        hit = mk_bool(wm.cached(*kt))
        yield "miss-iff-no-entry", eq(is_none(result), neg(hit))
        if not is_none(result):
            yield "hit-returns-the-stored-canvas", mk_bool(val(result).e == deref(wm.val2(*kt)))
        yield "cache-untouched", same_model(s._widgets, old._widgets) and same_model(s._refs, old._refs) and same_model(s._deps, old._deps)
        yield "counts-the-fetch", s.fetches == old.fetches + 1
        yield "counts-the-hit", s.hits == old.hits + ite(hit, 1, 0)


def same_model(a, b):
    """Syntactic frame: no mutation happened between the two versions of a map model (every mutation installs new
    function objects; a snapshot shares them). A plain Python bool."""
    return type(a) is type(b) and all(v is b.__dict__.get(k) or (isinstance(v, z3.ExprRef) and v.eq(b.__dict__.get(k))) for k, v in a.__dict__.items())


def _q(tag):
    return _qvars(tag)


def entries_same_except(new, old, exc=None):
    """forall (w,k): cached'(w,k) <=> cached(w,k) [and (w,k) != exc], and the refs of the surviving entries are the same."""
    w, c, z, f = _qvars("es")
    keep = old.cached(w, c, z, f)
    if exc is not None:
        keep = z3.And(keep, z3.Not(z3.And(w == exc[0], c == exc[1], z == exc[2], f == exc[3])))
    return mk_bool(z3.ForAll([w, c, z, f], z3.And(new.cached(w, c, z, f) == keep, z3.Implies(keep, new.val2(w, c, z, f) == old.val2(w, c, z, f)))))


# ============================================================================================= clear
@contract(CV + "CanvasCache.clear", property="C06", replayable=False)
class clear:
    """clear empties the three maps (fresh empty dicts)."""
    self_shape = CACHE
    params = {}
    modifies = ("_widgets", "_refs", "_deps")
    raises = ()

    def ensures(old, s, a, result):
        def empty(x):
            return type(x).__name__ == "DRef" and not x.d

        yield "no-entry-left", empty(s._widgets)
        yield "no-ref-left", empty(s._refs)
        yield "no-dependency-left", empty(s._deps)
        yield "statistics-kept", both(s.fetches == old.fetches, s.hits == old.hits, s.cleanups == old.cleanups)


# ============================================================================================= cleanup
@contract(CV + "CanvasCache.cleanup", property="C06", replayable=False)
class cleanup:
    """cleanup(ref) (the weak-reference callback, verified as an ordinary function: WHEN it fires is out of scope):
    forgets `ref`, removes at most the one entry `_refs[ref]` names, never adds anything; the dependants list of the
    widget is dropped only together with the widget's last entry."""
    self_shape = CACHE
    params = dict(ref=REF)
    modifies = ("_widgets", "_refs", "_deps", "cleanups")
    raises = ()
    invariant = staticmethod(full_inv)

    def requires(s, a):
        # call site: the callback of a weak reference object that is still alive, i.e. still a key of _refs
        return mk_bool(s._refs.has(a.ref.e))

    def ensures(old, s, a, result):
        r0 = a.ref.e
        e0 = old._refs.val(r0)
        wm, wm2, dm, dm2 = old._widgets, s._widgets, old._deps, s._deps
        r = z3.Const("qc_r", R)
        yield "ref-forgotten", mk_bool(z3.ForAll([r], s._refs.has(r) == z3.And(old._refs.has(r), r != r0)))
        yield "other-refs-kept", mk_bool(z3.ForAll([r], z3.Implies(r != r0, z3.And(*[p == q for p, q in zip(s._refs.val(r), old._refs.val(r))]))))
        yield "removes-exactly-the-named-entry", entries_same_except(wm2, wm, e0)
        # garbage collection is invisible: the only entry that goes is one that held the collected canvas's reference
        # (a fetch on it would have missed anyway) — never an entry holding another, possibly live, canvas
        w_, c_, z_, f_ = _qvars("cg")
        yield "removes-only-an-entry-holding-the-dead-ref", mk_bool(z3.ForAll([w_, c_, z_, f_], z3.Implies(z3.And(wm.cached(w_, c_, z_, f_), z3.Not(wm2.cached(w_, c_, z_, f_))), wm.val2(w_, c_, z_, f_) == r0)))
        x, k = z3.Const("qc_x", W), _qvars("ck")
        yield "dependants-lists-untouched", dm2.dmem is dm.dmem and dm2.delt is dm.delt and dm2.dlen is dm.dlen
        yield "dependants-of-other-widgets-kept", mk_bool(z3.ForAll([x], z3.And(z3.Implies(dm2.has(x), dm.has(x)), z3.Implies(x != e0[0], dm2.has(x) == dm.has(x)))))
        yield "dependants-kept-while-an-entry-remains", mk_bool(z3.ForAll(list(k[1:]), z3.Implies(wm2.cached(e0[0], *k[1:]), dm2.has(e0[0]) == dm.has(e0[0]))))
        yield "counts-the-cleanup", s.cleanups == old.cleanups + 1


def maps_unchanged(s, old):
    """The three maps are the same (as functions) in the two states: True when no mutation happened at all (syntactic
    check), otherwise the pointwise equalities — the form a caller of the contract gets."""
    if same_model(s._widgets, old._widgets) and same_model(s._deps, old._deps) and same_model(s._refs, old._refs):
        return True
    wm2, wm, dm2, dm, rm2, rm = s._widgets, old._widgets, s._deps, old._deps, s._refs, old._refs
    w, c, z, f = _qvars("mu")
    r, x, y, j = z3.Const("qmu_r", R), z3.Const("qmu_x", W), z3.Const("qmu_y", W), z3.Int("qmu_j")
    fw = z3.ForAll([w, c, z, f], z3.And(wm2.hasw(w) == wm.hasw(w), wm2.has2(w, c, z, f) == wm.has2(w, c, z, f), wm2.val2(w, c, z, f) == wm.val2(w, c, z, f), wm2.cnt(w) == wm.cnt(w)))
    fr = z3.ForAll([r], z3.And(rm2.has(r) == rm.has(r), *[p == q for p, q in zip(rm2.val(r), rm.val(r))]))
    fd = z3.ForAll([x, y, j], z3.And(dm2.has(x) == dm.has(x), dm2.dlen(x) == dm.dlen(x), dm2.delt(x, j) == dm.delt(x, j), dm2.dmem(x, y) == dm.dmem(x, y), dm2.didx(x, y) == dm.didx(x, y)))
    return mk_bool(z3.And(fw, fr, fd, dm2.size == dm.size))


# ============================================================================================= store
def effective_depends(st, canvas):
    """What store takes as the dependency list of `canvas`: the explicit `depends_on` if the attribute exists, else
    walk_depends(canvas) if the canvas has `children`, else None. Returns (is_none: z3 Bool, list value)."""
    has_dep, has_children = V._zb(has_attr(canvas, "depends_on")), V._zb(has_attr(canvas, "children"))
    dep, walked = depends_on_of(st, canvas), walked_of(st, canvas)
    n = z3.If(has_dep, V._z(dep.length), V._z(walked.length))

    def at(j):
        jj = mk_int(j) if isinstance(j, z3.ExprRef) else j
        return z3.If(has_dep, dep.get(jj).e, walked.get(jj).e)

    return z3.And(z3.Not(has_dep), z3.Not(has_children)), n, at


@contract(CV + "CanvasCache.store.<walk_depends>", property="C06", replayable=False, assumed=True,
          notes="walk_depends (nested closure of store, recursive over the opaque canvas tree `canv.children`) is NOT verified: at its call site its result is "
                "the uninterpreted list walked(canvas); store's contract is stated relative to that list. Trusted: it terminates (canvas trees are finite) and "
                "has no side effect on the cache. What it should return (the widgets of the nearest descendants that carry widget_info) is covered by the "
                "bounded cached-equals-fresh check only.")
class walk_depends:
    params = dict(canv=CANV)
    result = ListOf(WIDGET, tuple_=True)

    def pure_spec(a):
        return walked_of(cur(), a.canv)


def _store_loop0(v):
    """first loop: every dependency seen so far is itself cached"""
    wm = v.cls._widgets
    yield "deps-so-far-are-cached", forall(0, v.i_, lambda j: mk_bool(wm.hasw(v.iter_.get(j).e)))
    yield "nothing-written-yet", same_model(v.cls._widgets, v.old.self._widgets) and same_model(v.cls._deps, v.old.self._deps) and same_model(v.cls._refs, v.old.self._refs)


def _edges_grow_only_towards(new, old, widget):
    x, y = z3.Const("qe_x", W), z3.Const("qe_y", W)
    return mk_bool(z3.ForAll([x, y], z3.And(z3.Implies(old.edge(x, y), new.edge(x, y)), z3.Implies(z3.And(new.edge(x, y), z3.Not(old.edge(x, y))), y == widget))))


def _store_loop1(v):
    """second loop: `widget` is registered under every dependency seen so far; edges only grow, and only towards widget"""
    dm, dm0 = v.cls._deps, v.old.self._deps
    yield "registered-under-deps-so-far", forall(0, v.i_, lambda j: mk_bool(dm.edge(v.iter_.get(j).e, v.widget.e)))
    yield "edges-only-added-towards-widget", _edges_grow_only_towards(dm, dm0, v.widget.e)
    yield "entries-and-refs-not-yet-written", same_model(v.cls._widgets, v.old.self._widgets) and same_model(v.cls._refs, v.old.self._refs)


@contract(CV + "CanvasCache.store", property="C06", replayable=False)
class store:
    """store(wcls, canvas): EITHER the canvas is entered under (widget, wcls, size, focus) AND `widget` is registered as a
    dependant of EVERY widget of the canvas's dependency list, OR (not cacheable, or some dependency is not itself
    cached: the early return) nothing at all is written — so no cached parent lacks a dependency edge."""
    self_shape = CACHE
    params = dict(wcls=WCLS, canvas=CANV)
    modifies = ("_widgets", "_refs", "_deps")
    raises = (TypeError,)
    call_real = staticmethod(_real)
    loops = {
        0: Loop(invariant=_store_loop0),
        1: Loop(invariant=_store_loop1, modifies=("cls._deps",), shapes={"cls._deps": CACHE.fields["_deps"]}),
    }

    def on_raise(a_old, s, a, exc):
        st = cur()
        yield "only-for-a-canvas-without-widget-info", is_none(cur_widget_info(st, a.canvas))
        yield "nothing-written", maps_unchanged(s, a_old)

    def ensures(old, s, a, result):
        st = cur()
        cacheable = cur_cacheable(st, a.canvas)
        wi = cur_widget_info(st, a.canvas)
        none_dep, n, at = effective_depends(st, a.canvas)
        wm, wm2, dm, dm2, rm, rm2 = old._widgets, s._widgets, old._deps, s._deps, old._refs, s._refs
        j = z3.Int("qs_j")
        all_cached = z3.Or(none_dep, z3.ForAll([j], z3.Implies(z3.And(0 <= j, j < n), wm.hasw(at(j)))))
        if is_none(wi):
            yield "without-widget-info-only-uncacheable-returns", neg(cacheable)
            yield "nothing-written", maps_unchanged(s, old)
            return
        widget, size, focus = val(wi)
        key = [widget.e, a.wcls.e, size.e, zb(focus)]
        r = ref_of(a.canvas.e)
        stored = both(cacheable, mk_bool(all_cached))
        # --- the either/or of the statement
        yield "entry-afterwards-iff-stored-or-already-there", eq(mk_bool(wm2.cached(*key)), either(stored, mk_bool(wm.cached(*key))))
        yield "not-stored-writes-nothing", implies(neg(stored), maps_unchanged(s, old))
        yield "entry-holds-this-canvas", implies(stored, both(mk_bool(wm2.cached(*key)), mk_bool(wm2.val2(*key) == r), mk_bool(deref(r) == a.canvas.e)))
        yield "other-entries-untouched", _other_entries_same(wm2, wm, key)
        yield "reverse-map-names-the-entry", implies(stored, both(mk_bool(rm2.has(r)), mk_bool(z3.And(*[p == q for p, q in zip(rm2.val(r), key)]))))
        q = z3.Const("qs_r", R)
        yield "other-refs-untouched", mk_bool(z3.ForAll([q], z3.Implies(q != r, z3.And(rm2.has(q) == rm.has(q), *[p == o for p, o in zip(rm2.val(q), rm.val(q))]))))
        yield "registered-under-every-dependency", implies(stored, mk_bool(z3.Or(none_dep, z3.ForAll([j], z3.Implies(z3.And(0 <= j, j < n), dm2.edge(at(j), widget.e))))))
        yield "edges-only-added-towards-widget", _edges_grow_only_towards(dm2, dm, widget.e)
        # call-site fact (the render wrappers): the canvas was finalized just now, so its weak reference is not in the cache yet
        w_, c_, z_, f_ = _qvars("fr")
        fresh = mk_bool(z3.ForAll([w_, c_, z_, f_], z3.Implies(wm.cached(w_, c_, z_, f_), wm.val2(w_, c_, z_, f_) != r)))
        yield "representation-invariant-kept", implies(both(rep_inv(old), fresh), rep_inv(s))
        # call-site fact (the render wrappers): fetch has just missed, there is no entry under this key. (store does not
        # remove the reference of an entry it overwrites from _refs: overwriting a live entry would leave a stale ref.)
        yield "no-stale-ref-kept", implies(both(no_stale_ref(old), neg(mk_bool(wm.cached(*key)))), no_stale_ref(s))
        yield "cached-canvases-stay-finalized", implies(all_cached_finalized(st, wm), all_cached_finalized(st, wm2))


def cur_cacheable(st, canv):
    return PROTOCOLS["CCanvas"].uf_value(st, ".cacheable", canv, [], Bool, st.ghost.get("ver", {}).get(str(canv.e), 0))


def cur_widget_info(st, canv, post=False):
    """widget_info of a canvas in its current state (finalize, modelled in the wrappers' canvas protocol, bumps the state)"""
    ver = (st.ghost.get("ver_post") if post and st.ghost.get("ver_post") is not None else st.ghost.get("ver", {})).get(str(canv.e), 0)
    return PROTOCOLS["CCanvas"].uf_value(st, ".widget_info", canv, [], Opt(Tup(WIDGET, SIZE, Bool)), ver)


def all_cached_finalized(st, wm):
    """every canvas in the cache carries widget_info (store refuses any other)"""
    w, c, z, f = _qvars("af")
    canv = SOpaque("CCanvas", deref(wm.val2(w, c, z, f)))
    wi = PROTOCOLS["CCanvas"].uf_value(st, ".widget_info", canv, [], Opt(Tup(WIDGET, SIZE, Bool)), 0)
    return mk_bool(z3.ForAll([w, c, z, f], z3.Implies(wm.cached(w, c, z, f), z3.Not(wi.isnone))))


def _other_entries_same(new, old, key):
    w, c, z, f = _qvars("oe")
    here = z3.And(w == key[0], c == key[1], z == key[2], f == key[3])
    return mk_bool(z3.ForAll([w, c, z, f], z3.Implies(z3.Not(here), z3.And(new.cached(w, c, z, f) == old.cached(w, c, z, f), z3.Implies(old.cached(w, c, z, f), new.val2(w, c, z, f) == old.val2(w, c, z, f))))))


# ============================================================================================= invalidate
def _dead(wm, dm, x):
    """x has no cached entry and no dependants list"""
    return z3.And(z3.Not(wm.hasw(x)), z3.Not(dm.has(x)))


def _untouched(wm2, dm2, wm, dm, x, k):
    c, z, f = k
    return z3.And(wm2.hasw(x) == wm.hasw(x), wm2.has2(x, c, z, f) == wm.has2(x, c, z, f), wm2.val2(x, c, z, f) == wm.val2(x, c, z, f), dm2.has(x) == dm.has(x))


def _lists_same(dm2, dm):
    x, j = z3.Const("ql_x", W), z3.Int("ql_j")
    return mk_bool(z3.ForAll([x, j], z3.And(dm2.dlen(x) == dm.dlen(x), dm2.delt(x, j) == dm.delt(x, j))))


def _each_untouched_or_dead(wm2, dm2, wm, dm):
    x, c, z, f = _qvars("ud")
    return mk_bool(z3.ForAll([x, c, z, f], z3.Or(_untouched(wm2, dm2, wm, dm, x, (c, z, f)), _dead(wm2, dm2, x))))


def _closed(wm2, dm2, dm, skip=None):
    """every dependant of a widget whose dependants list was consumed is dead"""
    x, j = z3.Const("qk_x", W), z3.Int("qk_j")
    pre = z3.And(dm.has(x), z3.Not(dm2.has(x)), 0 <= j, j < dm.dlen(x))
    if skip is not None:
        pre = z3.And(pre, x != skip)
    return mk_bool(z3.ForAll([x, j], z3.Implies(pre, _dead(wm2, dm2, dm.delt(x, j)))))


def _refs_shrink(rm2, rm):
    r = z3.Const("qr_r", R)
    return mk_bool(z3.ForAll([r], z3.And(z3.Implies(rm2.has(r), rm.has(r)), *[p == q for p, q in zip(rm2.val(r), rm.val(r))])))


def _inval_loop0(v):
    """for ref in cls._widgets[widget].values(): only refs of this widget's entries leave _refs"""
    rm, rm0 = v.cls._refs, v.old.self._refs
    r = z3.Const("qi_r", R)
    w0 = v.widget.e
    yield "refs-only-shrink", _refs_shrink(rm, rm0)
    yield "refs-of-other-widgets-kept", mk_bool(z3.ForAll([r], z3.Implies(z3.And(rm0.has(r), rm0.val(r)[0] != w0), rm.has(r))))
    yield "refs-of-the-entries-visited-so-far-forgotten", forall(0, v.i_, lambda j: mk_bool(z3.Not(rm.has(v.iter_.get(j).e))))
    yield "entries-and-deps-not-yet-written", same_model(v.cls._widgets, v.old.self._widgets) and same_model(v.cls._deps, v.old.self._deps)


def _inval_loop1(v):
    """for w in dependants: cls.invalidate(w) — state after i recursive calls, relative to the entry state"""
    wm, dm, rm = v.cls._widgets, v.cls._deps, v.cls._refs
    wm0, dm0, rm0 = v.old.self._widgets, v.old.self._deps, v.old.self._refs
    w0 = v.widget.e
    yield "widget-dead", mk_bool(_dead(wm, dm, w0))
    yield "dependants-so-far-dead", forall(0, v.i_, lambda j: mk_bool(_dead(wm, dm, dm0.delt(w0, V._z(j)))))
    yield "each-widget-untouched-or-dead", _each_untouched_or_dead(wm, dm, wm0, dm0)
    yield "lists-untouched", _lists_same(dm, dm0)
    yield "closed-under-consumed-lists", _closed(wm, dm, dm0, skip=w0)
    yield "deps-shrank", mk_bool(dm.size <= dm0.size - 1)
    yield "refs-only-shrink", _refs_shrink(rm, rm0)
    yield "representation-invariant", rep_inv(v.cls)
    yield "no-stale-ref", no_stale_ref(v.cls)
    yield "iterating-the-entry-list", both(v.iter_.length == mk_int(dm0.dlen(w0)), forall(0, v.iter_.length, lambda j: mk_bool(v.iter_.get(j).e == dm0.delt(w0, V._z(j)))))


@contract(CV + "CanvasCache.invalidate", property="C06", replayable=False)
class invalidate:
    """invalidate(widget): afterwards `widget` has no entry and no dependants list; every widget is either untouched or
    has lost ALL its entries and its list ("dead"); and the dead set is closed under the dependency edges of the entry
    state: if x's list was consumed, every y in that list is dead. With `widget` dead this gives, by induction along any
    path of edges (lemma invalidate-reaches-the-transitive-closure below), that every widget in the transitive closure
    of deps from `widget` has lost every entry. Nothing is added anywhere. Recursion: the number of keys of _deps
    decreases (the key is deleted before the dependants are visited), so cyclic dependencies terminate."""
    self_shape = CACHE_E
    params = dict(widget=WIDGET)
    modifies = ("_widgets", "_refs", "_deps")
    raises = ()
    loops = {
        0: Loop(invariant=_inval_loop0, modifies=("cls._refs",), shapes={"cls._refs": CACHE_E.fields["_refs"]}),
        1: Loop(invariant=_inval_loop1, modifies=("cls._widgets", "cls._refs", "cls._deps"),
                shapes={"cls._widgets": CACHE_E.fields["_widgets"], "cls._refs": CACHE_E.fields["_refs"], "cls._deps": CACHE_E.fields["_deps"]}),
    }

    cover_witness = staticmethod(empty_entries_witness)

    def requires(s, a):
        return full_inv(s)

    def decreases(s, a):
        return mk_int(s._deps.size)

    def ensures(old, s, a, result):
        wm, dm, rm, wm2, dm2, rm2 = old._widgets, old._deps, old._refs, s._widgets, s._deps, s._refs
        w0 = a.widget.e
        yield "widget-has-no-entry-and-no-list", mk_bool(_dead(wm2, dm2, w0))
        yield "each-widget-untouched-or-dead", _each_untouched_or_dead(wm2, dm2, wm, dm)
        yield "lists-untouched", _lists_same(dm2, dm)
        yield "dead-set-closed-under-consumed-edges", _closed(wm2, dm2, dm)
        yield "deps-do-not-grow", mk_bool(dm2.size <= dm.size)
        yield "refs-only-shrink", _refs_shrink(rm2, rm)
        yield "representation-invariant-kept", rep_inv(s)
        # no reference of an invalidated entry survives in _refs: otherwise its cleanup callback would later delete the
        # entry re-stored under the same key and the widget's dependants list (see no_stale_ref)
        yield "no-stale-ref-left", no_stale_ref(s)


@lemma("invalidate-reaches-the-transitive-closure", property="C06")
class closure_lemma:
    """Induction along a path p0 = widget, p(k+1) in deps[p(k)] (entry state): every p(k) is dead after invalidate.
    base: p0 dead (clause widget-has-no-entry-and-no-list); step: p(k) dead and p(k+1) a dependant of p(k) in the entry
    state => p(k) had a list, it is gone, so (clause dead-set-closed-under-consumed-edges) p(k+1) is dead."""
    params = dict(k=Int)

    def requires(a):
        return a.k >= 0

    def claim(a):
        st = cur()
        wm, dm, wm2, dm2 = WMap(st, "w0"), DMap(st, "d0"), WMap(st, "w1"), DMap(st, "d1")
        path = z3.Function("path", I, W)
        k = V._z(a.k)
        st.assume(mk_bool(_dead(wm2, dm2, path(0))))                                 # postcondition clause 1 at p0
        st.assume(_closed(wm2, dm2, dm))                                              # postcondition clause 4
        j = z3.Int("qp_j")
        # a path of entry-state edges (y in deps[x]: membership; the list model turns a member into an element)
        st.assume(mk_bool(z3.ForAll([j], z3.Implies(j >= 0, dm.edge(path(j), path(j + 1))))))
        yield "base", mk_bool(_dead(wm2, dm2, path(0)))
        yield "step", implies(mk_bool(_dead(wm2, dm2, path(k))), mk_bool(_dead(wm2, dm2, path(k + 1))))


# ============================================================================================= the render wrappers
# urwid/widget/widget.py: cache_widget_render.<cached_render>, nocache_widget_render.<finalize_render>,
# cache_widget_rows.<cached_rows> — the functions WidgetMeta installs as cls.render / cls.rows. Their free variables
# (`cls`, `fn`, `ignore_focus` of the enclosing function; the module globals CanvasCache, CompositeCanvas,
# validate_size) are given as ghost globals: CanvasCache is the class model above (its methods are calls under the
# contracts above), `fn` (the class's own render / rows) is an opaque callable returning a fresh canvas / an int,
# validate_size and CompositeCanvas are opaque callables with the canvas-protocol facts stated in their classes.
from urwid.canvas import CanvasError  # noqa: E402
from urwid.widget.widget import WidgetError  # noqa: E402

WW = "urwid/widget/widget.py:"


class FnRaised(Exception):
    """whatever the class's own render / rows raises (opaque)"""


size_ok = z3.Function("validate_size.accepts", W, Z, C, B)
wrap = z3.Function("CompositeCanvas.of", C, C)
CP = PROTOCOLS["CCanvas"]


def _canvas_call(self, ip, st, recv, name, args, kwargs):
    """Canvas.finalize(widget, size, focus) on an opaque canvas: the contract of the real Canvas.finalize (static
    obligation Canvas.finalize of contracts/C06_cache.py (c) + its two-line body): raises CanvasError when widget_info is
    already set, otherwise sets it to (widget, size, focus) and changes nothing else."""
    if name != "finalize":
        return Protocol.call(self, ip, st, recv, name, args, kwargs)
    widget, size, focus = args
    wi = cur_widget_info(st, recv)
    st.trace.append(("finalize", recv, widget, size, focus))
    if st.branch(z3.Not(wi.isnone)):
        raise PyRaise(SExc(CanvasError, ("finalized",), site="Canvas.finalize"))
    v0 = self.version(st, recv)
    cacheable0 = self.uf_value(st, ".cacheable", recv, [], Bool, v0)
    self.bump(st, recv)
    wi2 = cur_widget_info(st, recv)
    st.assume(neg(mk_bool(wi2.isnone)))
    w2, z2, f2 = wi2.val
    st.assume(both(mk_bool(w2.e == widget.e), mk_bool(z2.e == size.e), eq(f2, focus)))
    st.assume(eq(self.uf_value(st, ".cacheable", recv, [], Bool, self.version(st, recv)), cacheable0))
    return None


_CanvasProto.call = _canvas_call
_CanvasProto.methods = dict(_CanvasProto.methods, finalize=PMethod(result=None, params=["widget", "size", "focus"], mutates=True))


class _RenderFn:
    """The class's own render(self, size, focus=...): opaque; returns some canvas (possibly an already finalized one,
    e.g. a child's), and may raise anything."""
    kind = "RenderFn"

    def call(self, ip, st, f, args, kwargs):
        st.trace.append(("fn", args[0], args[1], kwargs.get("focus", args[2] if len(args) > 2 else None)))
        if st.fork(2) == 1:
            raise PyRaise(SExc(FnRaised, ("<render raised>",), site="opaque fn"))
        return CANV.fresh(st, "rendered")


class _RowsFn:
    kind = "RowsFn"

    def call(self, ip, st, f, args, kwargs):
        st.trace.append(("fn", args[0], args[1], args[2] if len(args) > 2 else kwargs.get("focus")))
        if st.fork(2) == 1:
            raise PyRaise(SExc(FnRaised, ("<rows raised>",), site="opaque fn"))
        r = st.fresh_int("rows")
        st.ghost["fn_rows"] = r
        return r


class _ValidateFn:
    """validate_size(widget, size, canv): raises WidgetError unless the canvas has the size asked (`accepts`)."""
    kind = "ValidateFn"

    def call(self, ip, st, f, args, kwargs):
        widget, size, canv = args
        st.trace.append(("validate_size", widget, size, canv))
        if not st.branch(size_ok(widget.e, size.e, canv.e)):
            raise PyRaise(SExc(WidgetError, ("size",), site="validate_size"))
        return None


class _WrapCtor:
    """CompositeCanvas(canv): a NEW, not yet finalized canvas with the same cols/rows (canvas protocol, proved/bounded in
    C02), hence accepted by validate_size exactly when canv is."""
    kind = "WrapCtor"

    def call(self, ip, st, f, args, kwargs):
        (canv,) = args
        r = SOpaque("CCanvas", wrap(canv.e))
        st.assume(mk_bool(wrap(canv.e) != canv.e))
        st.assume(mk_bool(cur_widget_info(st, r).isnone))
        w, z = z3.Const("qw_w", W), z3.Const("qw_z", Z)
        st.assume(mk_bool(z3.ForAll([w, z], size_ok(w, z, wrap(canv.e)) == size_ok(w, z, canv.e))))
        st.trace.append(("wrap", canv))
        return r


for _p in (_RenderFn, _RowsFn, _ValidateFn, _WrapCtor):
    PROTOCOLS[_p.kind] = _p()

_CanvasProto.methods = dict(_CanvasProto.methods, rows=PMethod(result=Int, params=[]))

WRAPPER_GLOBALS = dict(ignore_focus=Bool, cls=WCLS, CanvasCache=CACHE, CompositeCanvas=Opaque("WrapCtor"), validate_size=Opaque("ValidateFn"))


def _wrapper_requires(a):
    st = cur()
    return all_cached_finalized(st, a.g_CanvasCache._widgets)


def _trace(name):
    return [ev for ev in cur().trace if ev[0] == name]


@contract(WW + "cache_widget_render.<cached_render>", property="C06", replayable=False)
class cached_render:
    """The render WidgetMeta installs: a cache hit returns the stored canvas without rendering; a miss renders once,
    validates the size, wraps an already finalized result, finalizes for exactly (self, size, focus), offers the canvas
    to the cache (CanvasCache.store's contract) and returns it — only a finalized canvas that passed validate_size."""
    params = dict(self=WIDGET, size=SIZE, focus=Bool)
    globals_ = dict(WRAPPER_GLOBALS, fn=Opaque("RenderFn"))
    raises = (FnRaised, WidgetError)  # only what the own render raises, or the size check; never CanvasError / TypeError
    call_real = staticmethod(_real)
    cover_witness = staticmethod(empty_entries_witness)
    requires = staticmethod(_wrapper_requires)

    def ensures(a, result):
        st = cur()
        if isinstance(result, V.SOpt):
            result = st.force(result)  # the walrus-bound fetch result, known not to be None on this path
        cache0, cache = a.old.g_CanvasCache, a.g_CanvasCache
        eff_focus = both(a.focus, neg(a.g_ignore_focus))
        key = [a.self.e, a.g_cls.e, a.size.e, zb(eff_focus)]
        hit = mk_bool(cache0._widgets.cached(*key))
        wi = cur_widget_info(st, result, post=True)
        rendered, validated, finalized = _trace("fn"), _trace("validate_size"), _trace("finalize")
        yield "returns-a-finalized-canvas", neg(mk_bool(wi.isnone))
        if not rendered:
            yield "no-render-only-on-a-hit", hit
            yield "hit-returns-the-stored-canvas", mk_bool(result.e == deref(cache0._widgets.val2(*key)))
            yield "hit-leaves-the-cache-alone", same_model(cache._widgets, cache0._widgets) and same_model(cache._deps, cache0._deps) and same_model(cache._refs, cache0._refs)
            return
        yield "render-only-on-a-miss", neg(hit)
        yield "rendered-once-with-the-effective-focus", len(rendered) == 1 and both(mk_bool(rendered[0][1].e == a.self.e), mk_bool(rendered[0][2].e == a.size.e), eq(rendered[0][3], eff_focus))
        yield "validated-once", len(validated) == 1
        yield "passed-validate-size", mk_bool(size_ok(a.self.e, a.size.e, result.e))
        yield "finalized-once-for-this-call", len(finalized) == 1 and mk_bool(finalized[0][1].e == result.e)
        w2, z2, f2 = wi.val
        yield "widget-info-is-this-call", both(mk_bool(w2.e == a.self.e), mk_bool(z2.e == a.size.e), eq(f2, eff_focus))
        yield "an-entry-for-this-key-holds-this-canvas", implies(mk_bool(cache._widgets.cached(*key)), mk_bool(cache._widgets.val2(*key) == ref_of(result.e)))
        # the two call-site facts store's invariant clauses rely on hold here: fetch has just missed (no entry under the
        # key: render-only-on-a-miss) and the canvas was not finalized before this call (no cached entry holds its reference)
        yield "cache-maps-stay-inverse", implies(full_inv(cache0), full_inv(cache))


@contract(WW + "nocache_widget_render.<finalize_render>", property="C06", replayable=False)
class finalize_render:
    """The render installed for `no_cache` classes: renders, wraps an already finalized result, validates, finalizes;
    never touches the cache."""
    params = dict(self=WIDGET, size=SIZE, focus=Bool)
    globals_ = dict(WRAPPER_GLOBALS, fn=Opaque("RenderFn"))
    raises = (FnRaised, WidgetError)

    def ensures(a, result):
        st = cur()
        cache0, cache = a.old.g_CanvasCache, a.g_CanvasCache
        wi = cur_widget_info(st, result, post=True)
        rendered, validated, finalized = _trace("fn"), _trace("validate_size"), _trace("finalize")
        yield "returns-a-finalized-canvas", neg(mk_bool(wi.isnone))
        yield "rendered-once", len(rendered) == 1 and both(mk_bool(rendered[0][1].e == a.self.e), mk_bool(rendered[0][2].e == a.size.e), eq(rendered[0][3], a.focus))
        yield "passed-validate-size", len(validated) == 1 and mk_bool(size_ok(a.self.e, a.size.e, result.e))
        yield "finalized-once-for-this-call", len(finalized) == 1 and mk_bool(finalized[0][1].e == result.e)
        w2, z2, f2 = wi.val
        yield "widget-info-is-this-call", both(mk_bool(w2.e == a.self.e), mk_bool(z2.e == a.size.e), eq(f2, a.focus))
        yield "cache-untouched", same_model(cache._widgets, cache0._widgets) and same_model(cache._deps, cache0._deps) and same_model(cache._refs, cache0._refs)


@contract(WW + "cache_widget_rows.<cached_rows>", property="C06", replayable=False)
class cached_rows:
    """The rows WidgetMeta installs: answered from the cached canvas (its rows()) on a hit, computed by the class's own
    rows on a miss; the cache content is never changed."""
    params = dict(self=WIDGET, size=SIZE, focus=Bool)
    globals_ = dict(WRAPPER_GLOBALS, fn=Opaque("RowsFn"))
    raises = (FnRaised,)
    result = Int

    def ensures(a, result):
        st = cur()
        cache0, cache = a.old.g_CanvasCache, a.g_CanvasCache
        eff_focus = both(a.focus, neg(a.g_ignore_focus))
        key = [a.self.e, a.g_cls.e, a.size.e, zb(eff_focus)]
        hit = mk_bool(cache0._widgets.cached(*key))
        computed = _trace("fn")
        yield "cache-content-untouched", same_model(cache._widgets, cache0._widgets) and same_model(cache._deps, cache0._deps) and same_model(cache._refs, cache0._refs)
        if not computed:
            yield "no-computation-only-on-a-hit", hit
            stored = SOpaque("CCanvas", deref(cache0._widgets.val2(*key)))
            yield "hit-answers-the-cached-canvas-rows", result == CP.uf_value(st, "rows", stored, [], Int, 0)
            return
        yield "computation-only-on-a-miss", neg(hit)
        yield "miss-answers-the-own-rows-with-the-effective-focus", both(result == st.ghost["fn_rows"], len(computed) == 1, mk_bool(computed[0][1].e == a.self.e), mk_bool(computed[0][2].e == a.size.e), eq(computed[0][3], eff_focus))
