"""C17/C02 — markup decomposition: urwid/util.py decompose_tagmarkup / _tagmarkup_recurse, by structural induction over
the markup tree.

Statement (C17): "Each displayed character carries the display attribute of the innermost markup tag enclosing it."

The markup is an algebraic data type        Markup = Text(str | bytes) | Tuple(items...) | List[Markup, ...] | Other
(a well-formed tagged markup is the 2-tuple (attr, Markup); tuples of any other arity and non-text leaves are the
INVALID nodes that must raise TagMarkupException).  Model: individuals of the opaque kind "Markup" with observers

    tag(m) in {TEXT, TUPLE, LIST, OTHER},  tlen(m) = number of characters of a text leaf,  arity(m) of a tuple,
    tattr(m) / tchild(m) of a 2-tuple,  llen(m) / lchild(m, i) of a list,
    size(m) >= 0, strictly smaller for every child (the trees are finite: the `decreases` measure of the recursion)

and the spec functions, defined by structural recursion (their one-level unfoldings are asserted at the terms that
are evaluated -- ground instantiation, DESIGN 3.7; inside a quantifier body the unfolding is quantified with it):

    valid(m)          no invalid node in m                     (list: VP(m, llen) with VP(m, i+1) = VP(m, i) and valid(child i))
    TL(m)             number of characters of the flattened text (list: PS(m, llen), PS(m, i+1) = PS(m, i) + TL(child i))
    ATT(m, inh, p)    the attribute of character p when the inherited (enclosing) attribute is inh:
                         text: inh;   (a, sub): ATT(sub, a, p)   -- the INNERMOST tag wins;
                         list: LATT(m, llen, inh, p),  LATT(m, i+1, inh, p) = LATT(m, i, inh, p) if p < PS(m, i)
                                                                          else ATT(child i, inh, p - PS(m, i))

All leaves are of one kind (all str or all bytes: `"".join` of mixed pieces is a TypeError in CPython; the kind is a
parameter of the model).  The run-length side reuses the expansion view of contracts/C02_rle.py (`at`, `total`).

What is NOT claimed here: the *content* of the joined text (that the pieces are the leaves in order is visible in
`tl-is-the-sequence-of-leaf-lengths` only as lengths); the bounded part of C17 compares the characters."""
import z3

from pyvc import seqs as Q
from pyvc import shapes as S
from pyvc import values as V
from pyvc.api import *
from pyvc.api import PROTOCOLS
from pyvc.engine import PyRaise, SExc
from pyvc.fmap import _Keys
from pyvc.protocol import Protocol
from pyvc.seqs import LRef, ModelObj, SSeq
from pyvc.values import SBool, SOpaque, SOpt, cur, mk_bool, mk_int

from contracts.C02_rle import ATTR, RLE1, RUNS, all_runs_at_least, aeq, at, link, n_runs, rp_mono, run_at, total
from urwid import util as _util

UT = "urwid/util.py:"
TEXT, TUPLE, LIST, OTHER = 0, 1, 2, 3
MS = S.opaque_sort("Markup")
I_, B_ = z3.IntSort(), z3.BoolSort()
_AK = _Keys(ATTR)  # encoding of an optional attribute as two z3 arguments
AS = _AK.sort

_tag = z3.Function("Markup.tag", MS, I_)
_tlen = z3.Function("Markup.tlen", MS, I_)
_arity = z3.Function("Markup.arity", MS, I_)
_tattr_n = z3.Function("Markup.tattr?", MS, B_)
_tattr_e = z3.Function("Markup.tattr", MS, AS)
_tchild = z3.Function("Markup.tchild", MS, MS)
_llen = z3.Function("Markup.llen", MS, I_)
_lchild = z3.Function("Markup.lchild", MS, I_, MS)
_size = z3.Function("Markup.size", MS, I_)
_valid = z3.Function("Markup.valid", MS, B_)
_VP = z3.Function("Markup.VP", MS, I_, B_)
_TL = z3.Function("Markup.TL", MS, I_)
_PS = z3.Function("Markup.PS", MS, I_, I_)
_ATT_n = z3.Function("Markup.ATT?", MS, B_, AS, I_, B_)
_ATT_e = z3.Function("Markup.ATT", MS, B_, AS, I_, AS)
_LATT_n = z3.Function("Markup.LATT?", MS, I_, B_, AS, I_, B_)
_LATT_e = z3.Function("Markup.LATT", MS, I_, B_, AS, I_, AS)
IS_BYTES = z3.Bool("Markup.leaves-are-bytes")


def _m(x):
    return x.e if isinstance(x, SOpaque) else x


def _z(v):
    return V._z(v)


def _basic(me):
    """Range facts of the observers of a node."""
    cur().assume(z3.And(_tag(me) >= 0, _tag(me) <= 3, _tlen(me) >= 0, _arity(me) >= 0, _llen(me) >= 0, _size(me) >= 0))


def tag(m):
    _basic(_m(m))
    return mk_int(_tag(_m(m)))


def tlen(m):
    _basic(_m(m))
    return mk_int(_tlen(_m(m)))


def llen(m):
    _basic(_m(m))
    return mk_int(_llen(_m(m)))


def arity(m):
    _basic(_m(m))
    return mk_int(_arity(_m(m)))


def mk_markup(e):
    return SOpaque("Markup", e, {"truth": _markup_truth})


def lchild(m, i):
    me, zi = _m(m), _z(i)
    c = _lchild(me, zi)
    _basic(c)
    cur().assume(z3.Implies(z3.And(_tag(me) == LIST, zi >= 0, zi < _llen(me)), _size(c) < _size(me)))  # finite tree
    return mk_markup(c)


def tchild(m):
    me = _m(m)
    c = _tchild(me)
    _basic(c)
    cur().assume(z3.Implies(z3.And(_tag(me) == TUPLE, _arity(me) == 2), _size(c) < _size(me)))  # finite tree
    return mk_markup(c)


def tattr(m):
    me = _m(m)
    return SOpt(_tattr_n(me), SOpaque("Attr", _tattr_e(me)))


def size(m):
    _basic(_m(m))
    return mk_int(_size(_m(m)))


# ---- spec functions (one-level unfolding asserted at every evaluation)


def VP(m, i):
    me, zi = _m(m), _z(i)
    c = _lchild(me, zi - 1)
    cur().assume(z3.And(_VP(me, z3.IntVal(0)), z3.Implies(zi >= 1, _VP(me, zi) == z3.And(_VP(me, zi - 1), _valid(c)))))
    return mk_bool(_VP(me, zi))


def valid(m):
    me = _m(m)
    _basic(me)
    t = _tag(me)
    cur().assume(z3.And(
        z3.Implies(t == TEXT, _valid(me)),
        z3.Implies(t == OTHER, z3.Not(_valid(me))),
        z3.Implies(t == TUPLE, _valid(me) == z3.And(_arity(me) == 2, _valid(_tchild(me)))),
        z3.Implies(t == LIST, _valid(me) == _VP(me, _llen(me))),
    ))
    return mk_bool(_valid(me))


def PS(m, i):
    me, zi = _m(m), _z(i)
    c = _lchild(me, zi - 1)
    cur().assume(z3.And(_PS(me, z3.IntVal(0)) == 0, z3.Implies(zi >= 1, _PS(me, zi) == _PS(me, zi - 1) + _TL(c))))
    return mk_int(_PS(me, zi))


def TL(m):
    me = _m(m)
    _basic(me)
    t = _tag(me)
    cur().assume(z3.And(
        z3.Implies(t == TEXT, _TL(me) == _tlen(me)),
        z3.Implies(t == TUPLE, _TL(me) == _TL(_tchild(me))),
        z3.Implies(t == LIST, _TL(me) == _PS(me, _llen(me))),
    ))
    return mk_int(_TL(me))


def _opt(n, e):
    return SOpt(n, SOpaque("Attr", e))


def LATT(m, i, inh, p):
    me, zi, zp = _m(m), _z(i), _z(p)
    n, e = _AK.args(inh)
    c = _lchild(me, zi - 1)
    before = _PS(me, zi - 1)
    cur().assume(z3.Implies(zi >= 1, z3.And(
        _LATT_n(me, zi, n, e, zp) == z3.If(zp < before, _LATT_n(me, zi - 1, n, e, zp), _ATT_n(c, n, e, zp - before)),
        _LATT_e(me, zi, n, e, zp) == z3.If(zp < before, _LATT_e(me, zi - 1, n, e, zp), _ATT_e(c, n, e, zp - before)),
    )))
    return _opt(_LATT_n(me, zi, n, e, zp), _LATT_e(me, zi, n, e, zp))


def ATT(m, inh, p):
    me, zp = _m(m), _z(p)
    n, e = _AK.args(inh)
    _basic(me)
    t = _tag(me)
    cn, ce = _AK.args(tattr(m))
    sub = _tchild(me)
    ll = _llen(me)
    cur().assume(z3.And(
        z3.Implies(t == TEXT, z3.And(_ATT_n(me, n, e, zp) == n, z3.Implies(z3.Not(n), _ATT_e(me, n, e, zp) == e))),
        z3.Implies(t == TUPLE, z3.And(_ATT_n(me, n, e, zp) == _ATT_n(sub, cn, ce, zp), _ATT_e(me, n, e, zp) == _ATT_e(sub, cn, ce, zp))),
        z3.Implies(t == LIST, z3.And(_ATT_n(me, n, e, zp) == _LATT_n(me, ll, n, e, zp), _ATT_e(me, n, e, zp) == _LATT_e(me, ll, n, e, zp))),
    ))
    return _opt(_ATT_n(me, n, e, zp), _ATT_e(me, n, e, zp))


# ---- the interpreter's view of a markup node


def _markup_truth(st, v):
    """bool(text leaf) = it has characters (the only truth test the code makes is on a text leaf)."""
    if not st.branch(_tag(v.e) == TEXT):
        raise Unsupported("truth of a markup node that is not known to be a text leaf")
    return tlen(v) > 0


class EmptyText(ModelObj):
    """`piece[:0]`: the empty str / bytes; only `.join(list of text leaves)` is modelled: a text whose length is the
    sum of the lengths of the pieces (CPython: str.join / bytes.join with an empty separator; the pieces are all of
    the separator's kind by the one-kind assumption of the model)."""

    def py_len(self, st):
        return 0

    def py_truth(self, st):
        return False

    def py_call(self, ip, st, name, args, kwargs):
        if name == "join" and len(args) == 1 and isinstance(args[0], LRef):
            s = args[0].seq
            if isinstance(s, SSeq) and s.psum is not None:
                return JoinedText(s.psum(s.length))
            if isinstance(s, tuple):
                return JoinedText(sum((tlen(x) for x in s), 0))
        raise Unsupported(f"{name} on the empty text")


class JoinedText(ModelObj):
    def __init__(self, length):
        self.length = length

    def py_len(self, st):
        return self.length

    def py_truth(self, st):
        return self.length > 0


def text_len(t):
    if isinstance(t, (str, bytes)):
        return len(t)
    if isinstance(t, EmptyText):
        return 0
    return t.length


class MarkupP(Protocol):
    kind = "Markup"
    methods = {}

    def isinstance(self, ip, st, obj, cls):
        t = tag(obj)
        if cls is list:
            return t == LIST
        if cls is tuple:
            return t == TUPLE
        if cls is str:
            return both(t == TEXT, mk_bool(z3.Not(IS_BYTES)))
        if cls is bytes:
            return both(t == TEXT, mk_bool(IS_BYTES))
        raise Unsupported(f"isinstance(<markup>, {getattr(cls, '__name__', cls)})")

    def len(self, ip, st, obj):
        k = st.choose([_tag(obj.e) == c for c in (TEXT, TUPLE, LIST, OTHER)])
        if k == OTHER:
            raise Unsupported("len() of a markup element that is neither text, tuple nor list")
        return (tlen, arity, llen)[k](obj)

    def iter(self, ip, st, obj):
        if not st.branch(_tag(obj.e) == LIST):
            raise Unsupported("iteration over a markup node that is not known to be a list")
        return SSeq(llen(obj), lambda i: lchild(obj, i), MARKUP, None, "children")

    def unpack(self, ip, st, obj, n):
        if not st.branch(_tag(obj.e) == TUPLE):
            raise Unsupported("unpacking a markup node that is not known to be a tuple")
        st.partial(arity(obj) == n, ValueError, "unpack arity")
        if n != 2:
            raise Unsupported("unpacking a markup tuple into other than two names")
        return [tattr(obj), tchild(obj)]

    def subscript(self, ip, st, obj, idx):
        if st.branch(_tag(obj.e) == TEXT) and isinstance(idx, Q.SSlice) and idx.start is None and idx.stop == 0 and idx.step is None:
            return EmptyText()
        raise Unsupported("subscript of a markup node other than text[:0]")


PROTOCOLS["Markup"] = MarkupP()
MARKUP = Opaque("Markup", truth=_markup_truth)
PIECES = ListOf(MARKUP, measure=lambda e: tlen(e))


def forall(lo, hi, fn):  # noqa: F811 - as in contracts/C02_rle.py: no "is the range empty" query
    return V.forall(lo, hi, fn, check_empty=False)


def vp_mono(m, i, n):
    """Instance of the lemma `markup-valid-prefix-monotone`: VP(m, n) and 0 <= i <= n give VP(m, i)."""
    cur().assume(implies(both(VP(m, n), 0 <= i, i <= n), VP(m, i)))
    return True


def _pieces_total(tl):
    s = tl.seq if isinstance(tl, LRef) else tl
    if isinstance(s, tuple):
        return sum((tlen(x) for x in s), 0)
    return s.psum(s.length)


def _all_text(tl):
    s = tl.seq if isinstance(tl, LRef) else tl
    return forall(0, Q.seq_len(s), lambda j: tag(Q.seq_get(s, j)) == TEXT)


def _recurse_inv(v):
    m, i, inh = v.tm, v.i_, v.attr
    cur().ghost["markup_raise_index"] = i  # (read by on_raise: the child whose decomposition raised)
    rp_mono(v.ral, 0, n_runs(v.ral), 1)
    if cur().ghost.get("inv_assuming"):
        link(v.ral, n_runs(v.ral) - 1)  # definitional axiom of the expansion view of the (arbitrary) list: its last run
    yield "nothing-before-the-first-child", implies(i == 0, both(n_runs(v.ral) == 0, Q.seq_len(v.rtl) == 0))
    yield "children-so-far-are-valid", VP(m, i)
    yield "pieces-are-text-leaves", _all_text(v.rtl)
    yield "runs-cover-the-text-so-far", total(v.ral) == PS(m, i)
    yield "pieces-cover-the-text-so-far", _pieces_total(v.rtl) == PS(m, i)
    yield "no-zero-length-run", all_runs_at_least(v.ral, 1)
    yield "each-character-so-far-has-the-attribute-of-its-innermost-tag", forall(0, PS(m, i), lambda p: aeq(at(v.ral, p), LATT(m, i, inh, p)))


@contract(UT + "_tagmarkup_recurse", property=("C17", "C02"), replayable=False, branch_timeout_ms=300, cover_timeout_ms=15000)
class tagmarkup_recurse:
    params = dict(tm=MARKUP, attr=ATTR)
    result = Tup(PIECES, RLE1)
    raises = (_util.TagMarkupException,)

    def decreases(a):
        return size(a.tm)

    def ensures(a, result):
        tl, al = result
        m = a.tm
        L = TL(m)
        rp_mono(al, 0, n_runs(al), 1)
        if cur().ghost.get("c17_callee_use"):
            link(al, 0)  # definitional axioms of the expansion view of the (fresh) result list: its first run ...
            link(al, n_runs(al) - 1)  # ... and its last run
        yield "only-a-valid-markup-returns", valid(m)
        yield "one-attribute-per-character", total(al) == L
        yield "pieces-add-up-to-the-text-length", _pieces_total(tl) == L
        yield "pieces-are-text-leaves", _all_text(tl)
        yield "each-character-has-the-attribute-of-its-innermost-tag", forall(0, L, lambda p: aeq(at(al, p), ATT(m, a.attr, p)))
        yield "no-zero-length-run", all_runs_at_least(al, 1)
        yield "an-empty-text-contributes-a-piece-but-no-run", implies(both(tag(m) == TEXT, tlen(m) == 0), both(n_runs(al) == 0, Q.seq_len(tl) == 1))
        yield "an-empty-list-contributes-nothing", implies(both(tag(m) == LIST, llen(m) == 0), both(n_runs(al) == 0, Q.seq_len(tl) == 0))

    def ensures_callee(a, result):
        st = cur()
        st.ghost["c17_callee_use"] = True
        try:
            yield from tagmarkup_recurse.ensures(a, result)
        finally:
            st.ghost["c17_callee_use"] = False

    def on_raise(a, exc):
        m = a.tm
        if bool(tag(m) == LIST):
            # raised by child i (i = the loop index on this path): VP(m, i+1) is false, hence VP(m, llen) is
            i = cur().ghost.get("markup_raise_index")
            if i is not None:
                vp_mono(m, i + 1, llen(m))
        yield "only-an-invalid-markup-raises", neg(valid(m))

    def on_raise_callee(a, exc):
        yield "only-an-invalid-markup-raises", neg(valid(a.tm))

    loops = {0: Loop(invariant=_recurse_inv, shapes={"rtl": PIECES, "ral": ListOf(Tup(ATTR, S._Int(0)))})}


@contract(UT + "decompose_tagmarkup", property=("C17", "C02"), replayable=False, branch_timeout_ms=300, cover_timeout_ms=15000)
class decompose_tagmarkup:
    """(text, attribute runs) of a markup.  The attribute list may be SHORTER than the text: a trailing run of
    untagged (None) characters is dropped; a consumer reads positions past the list as None (rle_get_at)."""

    params = dict(tm=MARKUP)
    raises = (_util.TagMarkupException,)

    def ensures(a, result):
        text, al = result
        m = a.tm
        L = TL(m)
        rp_mono(al, 0, n_runs(al), 1)
        yield "only-a-valid-markup-returns", valid(m)
        yield "one-text-character-per-markup-character", text_len(text) == L
        yield "attributes-never-extend-past-the-text", both(0 <= total(al), total(al) <= L)
        yield "each-character-has-the-attribute-of-its-innermost-tag", forall(0, total(al), lambda p: aeq(at(al, p), ATT(m, None, p)))
        yield "characters-past-the-attribute-list-are-untagged", forall(total(al), L, lambda p: opt_isnone(ATT(m, None, p)))
        yield "no-zero-length-run", all_runs_at_least(al, 1)

    def on_raise(a, exc):
        yield "only-an-invalid-markup-raises", neg(valid(a.tm))


@lemma("markup-valid-prefix-monotone", property=("C17", "C02"))
class markup_valid_prefix_monotone:
    """P(n) := VP(m, n) => VP(m, i) for i <= n.  Base n = i; step from the defining equation
    VP(m, n+1) = VP(m, n) and valid(child n).  Instantiated by `vp_mono`."""

    params = dict(vi=Bool, vn=Bool, vn1=Bool, c=Bool)

    def requires(x):
        return mk_bool(V._zb(x.vn1) == z3.And(V._zb(x.vn), V._zb(x.c)))

    def claim(x):
        yield "base", implies(x.vi, x.vi)
        yield "step", implies(implies(x.vn, x.vi), implies(x.vn1, x.vi))
