"""C09 / C01 / C08 — Pile: render, rows, cursor coordinates, cursor moves and mouse hit-testing all against ONE
shared geometry (children abstract = "for every child honouring the widget protocol").

The geometry is what `Pile.get_rows_sizes` returns (verified here against the spec functions HS / SA / PH of
contracts/C19_containers.py): child j is handed the size SA(j) and is drawn in the rows [Y(j), Y(j) + H(j)),
H = heights, Y(j) = H(0) + ... + H(j-1).  Every entry point is specified relative to that one value
(`GRS.spec_value`), exactly as contracts/C09_geometry.py does for Filler / Padding with `filler_values` /
`padding_values`."""
import z3

from pyvc import seqs as Q
from pyvc import values as V
from pyvc.api import *
from pyvc.api import PROTOCOLS
from pyvc.values import cur, mk_bool, mk_int
from contracts.proto_widget import *
from contracts.C09_frame import mouse_press  # the (assumed, deterministic) predicate `is_mouse_press(event)`
from contracts.C08_focus import PI, PILE, PINL, CSIZE, GRS_RESULT, PSIZE, item_at, n_items, pile_ri
from contracts.C19_containers import (
    FIX, PH, WT, child_focus, entry_is, ph_unfold, pile_get_item_rows, pile_item_height, pile_item_kind, pile_item_rows_spec,
    pile_at, pile_item_size_is, pile_size_ok, pile_unfold, pile_wf, psum_of, reads_only, register_per_item,
)

from urwid.widget import pile as _pile


def calls(name=None):
    return [ev for ev in cur().trace if ev[0] == "call" and (name is None or ev[2] == name)]


def pile_geo_requires(s, size):
    """A well-formed Pile at a valid size; a box Pile has a positively weighted item (else PileError)."""
    return both(pile_wf(s), pile_size_ok(size), implies(len(size) == 2, WT(n_items(s)) > 0))


def pack_children_are_flow(p, lo, hi):
    return forall(lo, hi, lambda j: implies(item_at(p, j)[1][0] == "pack", sizing_has(item_at(p, j)[0], _pile.Sizing.FLOW)))


# --------------------------------------------------------------------------------------------- get_rows_sizes


def _nonneg(e):
    if isinstance(e, V.SOpt):
        return both(neg(mk_bool(e.isnone)), e.val >= 0)
    return e >= 0


def _grs_loop(v):
    p = v.self
    i = v.i_
    size, focus = v.size, v.focus
    n = n_items(p)
    W_, H_, A_ = v.widths.seq, v.heights.seq, v.w_h_args.seq
    ph_unfold(p, i - 1, size, focus)
    pile_at(i - 1)
    yield "one-entry-per-item-so-far", both(Q.seq_len(W_) == i, Q.seq_len(H_) == i, Q.seq_len(A_) == i)
    yield "widths", forall(0, i, lambda j: Q.seq_get(W_, j) == size[0])
    yield "heights", forall(0, i, lambda j: entry_is(Q.seq_get(H_, j), pile_item_height(p, j, size, focus)))
    yield "size-arguments", forall(0, i, lambda j: pile_item_size_is(Q.seq_get(A_, j), p, j, size, focus))
    yield "no-negative-height-so-far", forall(0, i, lambda j: _nonneg(Q.seq_get(H_, j)))
    yield "summed", psum_of(H_, i) == PH(focus, i)
    if len(size) == 2:
        IR = pile_item_rows_spec(p, size, focus)
        ir = v.item_rows
        yield "item-rows-computed-once", either(V.opt_isnone(ir), True if V.opt_isnone(ir) is True else both(
            Q.seq_len(val(ir)) == n, forall(0, n, lambda j: Q.seq_get(val(ir), j) == Q.seq_get(IR, j))))
        yield "same-rows-as-get_item_rows", psum_of(H_, i) == IR.psum(i)


@contract(PI + "Pile.get_rows_sizes", property=("C09", "C01", "C19"), inline=PINL, deterministic=True, replayable=False,
          cover_timeout_ms=60000)  # (its vacuity guards need a model of quantified facts: 15 s was not always enough on a busy machine)
class pile_grs:
    qf_branching = True
    """(widths, heights, size arguments), one per child: the shared geometry of every Pile entry point."""

    self_shape = PILE
    params = dict(size=PSIZE, focus=Bool)
    result = GRS_RESULT
    raises = ()
    deterministic_reads = ("_contents",)
    static_checks = [lambda: reads_only(PI + "Pile.get_rows_sizes", {"contents", "focus", "get_item_rows", "_get_fixed_rows_sizes"})]

    def requires(s, a):
        return pile_geo_requires(s, a.size)

    def ensures(old, s, a, result):
        n = n_items(old)
        W_, H_, A_ = result
        size, focus = a.size, a.focus
        ph_unfold(old, n - 1, size, focus)
        yield "one-entry-per-child", both(Q.seq_len(W_) == n, Q.seq_len(H_) == n, Q.seq_len(A_) == n)
        yield "every-child-gets-the-full-width", forall(0, n, lambda j: Q.seq_get(W_, j) == size[0])
        yield "height-is-what-the-child-occupies-at-the-size-it-is-handed", forall(0, n, lambda j: entry_is(Q.seq_get(H_, j), pile_item_height(old, j, size, focus)))
        yield "size-handed-to-each-child", forall(0, n, lambda j: pile_item_size_is(Q.seq_get(A_, j), old, j, size, focus))
        yield "no-negative-height", forall(0, n, lambda j: Q.seq_get(H_, j) >= 0)
        yield "total-height", psum_of(H_, n) == PH(focus, n)
        if len(size) == 2:
            pile_unfold(old, n - 1, size[0], focus)
            fixed = FIX(n)
            yield "box-rows-filled-exactly", psum_of(H_, n) == fixed + imax(size[1] - fixed, 0)
        yield "frame", both(s._contents._focus == old._contents._focus, n_items(s) == n)

    def ensures_callee(old, s, a, result):
        """At call sites: the quantifier-free clauses; the per-child clauses are instantiated on demand (`pile_at`)."""
        n = n_items(old)
        W_, H_, A_ = result
        size, focus = a.size, a.focus
        yield "one-entry-per-child", both(Q.seq_len(W_) == n, Q.seq_len(H_) == n, Q.seq_len(A_) == n)
        yield "total-height", psum_of(H_, n) == PH(focus, n)
        if len(size) == 2:
            fixed = FIX(n)
            yield "box-rows-filled-exactly", psum_of(H_, n) == fixed + imax(size[1] - fixed, 0)
        yield "frame", both(s._contents._focus == old._contents._focus, n_items(s) == n)
        register_per_item(n, lambda j: both(
            Q.seq_get(W_, j) == size[0], entry_is(Q.seq_get(H_, j), pile_item_height(old, j, size, focus)),
            pile_item_size_is(Q.seq_get(A_, j), old, j, size, focus), Q.seq_get(H_, j) >= 0))

    loops = {
        0: Loop(invariant=_grs_loop, shapes={"widths": ListOf(Int), "heights": ListOf(Int), "w_h_args": ListOf(CSIZE), "item_rows": Opt(ListOf(Int))}),
    }


GRS = pile_grs


# --------------------------------------------------------------------------------------------- shared helpers


class Geo:
    """The geometry of Pile `p` at (size, focus): heights H, size arguments SA, offsets Y (prefix sums of H)."""

    def __init__(self, p, size, focus):
        self.p, self.size, self.focus = p, size, focus
        self.W, self.H, self.A = GRS.spec_value(p, size=size, focus=focus)
        self.n = n_items(p)

    def Y(self, j):
        return psum_of(self.H, j)

    def h(self, j):
        return Q.seq_get(self.H, j)

    def sa(self, j):
        return Q.seq_get(self.A, j)

    def total(self):
        return self.Y(self.n)

    def child_at(self, j, row):
        """Child j is drawn at `row`: Y(j) <= row < Y(j) + H(j)."""
        return both(0 <= j, j < self.n, self.Y(j) <= row, row < self.Y(j + 1))


def arb_child():
    """An arbitrary child index: one unconstrained integer per path, shared by the loop invariant and the
    postcondition.  Nothing is ever assumed about it except instances of proved lemmas, so a clause shown for it
    holds for every index (universal generalisation) -- this keeps the hit-test obligations quantifier-free."""
    st = cur()
    if "arb_child" not in st.ghost:
        st.ghost["arb_child"] = st.fresh_int("child")
    return st.ghost["arb_child"]


def psum_monotone(H, a, b):
    """Instance of lemma `prefix-sum-monotone` (C19_containers, proved base + step) for the heights, which are
    non-negative (clause `no-negative-height` of get_rows_sizes): 0 <= a <= b <= len  =>  Y(a) <= Y(b)."""
    cur().assume(implies(both(0 <= a, a <= b, b <= Q.seq_len(H)), psum_of(H, a) <= psum_of(H, b)))


def _hit_loop(v):
    """Loops of mouse_event / move_cursor_to_coords: `wrow` is the top edge Y(i) of the child looked at, which
    is not below `row` (every child passed so far ends at or above the row)."""
    H = v.heights
    i = v.i_
    j = arb_child()
    psum_monotone(H, i + 1, j)
    psum_monotone(H, j + 1, i)
    psum_monotone(H, i + 1, Q.seq_len(H))
    yield "top-edge-is-the-prefix-sum", v.wrow == psum_of(H, i)
    yield "children-passed-end-at-or-above-the-row", v.wrow <= v.row


EINL = PINL + ("urwid/widget/widget.py:Widget.selectable",)


def opt_shift(res, base, dx, dy):
    """res == base shifted by (dx, dy), None iff None (formula, never forks)."""
    nb, nr = V.opt_isnone(base), V.opt_isnone(res)
    if nb is True:
        return nr
    vb, vr = val(base), val(res)
    if vr is None:
        return nb
    return either(both(nb, nr), both(neg(nb), neg(nr), vr[0] == vb[0] + dx, vr[1] == vb[1] + dy))


# --------------------------------------------------------------------------------------------- rows


@contract(PI + "Pile.rows", property=("C01", "C09"), inline=PINL, replayable=False)
class pile_rows:
    qf_branching = True
    """C01 (ii): a flow Pile reports exactly the rows its rendering has (the sum of the geometry's heights)."""

    self_shape = PILE
    params = dict(size=Tup(Int), focus=Bool)
    result = Int
    raises = ()

    def requires(s, a):
        return pile_geo_requires(s, a.size)

    def ensures(old, s, a, result):
        g = Geo(old, a.size, a.focus)
        yield "rows-equal-the-rendered-rows", result == g.total()


# --------------------------------------------------------------------------------------------- get_cursor_coords


@contract(PI + "Pile.get_cursor_coords", property="C09", inline=EINL, replayable=False)
class pile_gcc:
    qf_branching = True
    self_shape = PILE
    params = dict(size=PSIZE)
    result = Opt(Tup(Int, Int))
    raises = ()
    invariant = staticmethod(pile_ri)

    def requires(s, a):
        return pile_geo_requires(s, a.size)

    def ensures(old, s, a, result):
        W = PROTOCOLS["Widget"]
        n = n_items(old)
        yield "frame", both(s._contents._focus == old._contents._focus, n_items(s) == n)
        if not old._selectable:
            yield "unselectable-pile-reports-no-cursor", is_none(result)
            return
        if n == 0:
            yield "empty-pile-reports-no-cursor", is_none(result)
            return
        f = old._contents._focus
        w = item_at(old, f)[0]
        if not W.hasattr(None, cur(), w, "get_cursor_coords"):
            yield "no-cursor-protocol", is_none(result)
            return
        g = Geo(old, a.size, True)
        cc = W.call_quiet(cur(), w, "get_cursor_coords", dict(size=g.sa(f)))
        yield "focus-childs-cursor-shifted-by-the-rows-above", opt_shift(result, cc, 0, g.Y(f))


# --------------------------------------------------------------------------------------------- mouse_event


def _delivery(old, s, a, g, j, ev, row_name="row"):
    """The recorded child call `ev` went to child j with the translated cell."""
    v = ev[3]
    return both(eq(ev[1], item_at(old, j)[0]), V.struct_eq(g.sa(j), v["size"]), v["col"] == a.col, v[row_name] == a.row - g.Y(j))


@contract(PI + "Pile.mouse_event", property=("C09", "C08"), inline=EINL, replayable=False)
class pile_mouse:
    qf_branching = True
    self_shape = PILE
    params = dict(size=PSIZE, event=Opaque("Key"), button=Int, col=Int, row=Int, focus=Bool)
    result = Bool
    raises = ()
    invariant = staticmethod(pile_ri)

    def requires(s, a):
        return both(pile_geo_requires(s, a.size), 0 <= a.row)

    def ensures(old, s, a, result):
        W = PROTOCOLS["Widget"]
        st = cur()
        n = n_items(old)
        g = Geo(old, a.size, a.focus)
        me = calls("mouse_event")
        f0 = old._contents._focus
        yield "contents-untouched", n_items(s) == n
        yield "at-most-one-child-called", len(me) <= 1
        if a.row >= g.total():
            yield "row-below-the-last-child-not-delivered", both(len(me) == 0, result == False, s._contents._focus == f0)  # noqa: E712
            return
        j = arb_child()  # arbitrary: the clauses below hold for every child index j
        at_row = g.child_at(j, a.row)
        w = item_at(old, j)[0]
        press = both(mouse_press(a.event), a.button == 1, W.call_quiet(st, w, "selectable", {}))
        yield "button-1-press-on-a-selectable-child-moves-the-focus-there", implies(both(at_row, press), s._contents._focus == j)
        yield "nothing-else-moves-the-focus", implies(both(at_row, neg(press)), s._contents._focus == f0)
        has = W.hasattr(None, st, w, "mouse_event")
        if not me:
            yield "not-delivered-only-without-a-handler", implies(at_row, both(neg(has), result == False))  # noqa: E712
            return
        ev = me[0]
        v = ev[3]
        yield "delivered-to-the-child-at-that-row-with-child-relative-coordinates", implies(at_row, both(has, _delivery(old, s, a, g, j, ev)))
        yield "event-passed-on-unchanged", both(eq(v["event"], a.event), v["button"] == a.button)
        yield "focus-flag-only-for-the-focus-child", implies(at_row, eq(v["focus"], both(a.focus, eq(item_at(s, s._contents._focus)[0], w))))
        yield "result-is-childs", eq(result, ev[4])

    loops = {0: Loop(invariant=_hit_loop)}


# --------------------------------------------------------------------------------------------- move_cursor_to_coords


@contract(PI + "Pile.move_cursor_to_coords", property=("C09", "C08"), inline=EINL, replayable=False)
class pile_mctc:
    qf_branching = True
    self_shape = PILE
    params = dict(size=PSIZE, col=Int, row=Int)
    result = Bool
    raises = ()
    invariant = staticmethod(pile_ri)

    def requires(s, a):
        return both(pile_geo_requires(s, a.size), 0 <= a.row)

    def ensures(old, s, a, result):
        W = PROTOCOLS["Widget"]
        st = cur()
        n = n_items(old)
        g = Geo(old, a.size, True)
        mv = calls("move_cursor_to_coords")
        f0 = old._contents._focus
        yield "contents-untouched", n_items(s) == n
        yield "preferred-column-captured", opt_eq(s.pref_col, a.col)
        yield "at-most-one-child-asked", len(mv) <= 1
        yield "focus-moves-only-on-success", implies(neg(result), s._contents._focus == f0)
        if a.row >= g.total():
            yield "row-below-the-last-child-rejected", both(len(mv) == 0, result == False)  # noqa: E712
            return
        j = arb_child()  # arbitrary (see mouse_event)
        at_row = g.child_at(j, a.row)
        w = item_at(old, j)[0]
        sel = W.call_quiet(st, w, "selectable", {})
        has = W.hasattr(None, st, w, "move_cursor_to_coords")
        yield "on-success-the-focus-is-the-child-at-that-row", implies(both(at_row, result), s._contents._focus == j)
        if not mv:
            yield "not-asked-only-if-unselectable-or-without-the-method", implies(at_row, either(neg(sel), neg(has)))
            yield "unselectable-child-rejected", implies(both(at_row, neg(sel)), result == False)  # noqa: E712
            yield "selectable-child-without-the-method-accepted", implies(both(at_row, sel, neg(has)), result == True)  # noqa: E712
            return
        ev = mv[0]
        yield "the-selectable-child-at-that-row-is-asked-for-the-translated-cell", implies(at_row, both(sel, has, _delivery(old, s, a, g, j, ev)))
        yield "succeeds-iff-the-child-accepts", eq(result, ev[4])

    loops = {0: Loop(invariant=_hit_loop)}


# --------------------------------------------------------------------------------------------- render


def _render_loop(v):
    """The canvases collected so far have the rows of the children seen so far (a child without rows is skipped
    and adds none), and each is as wide as the pile."""
    st = cur()
    i = v.i_
    H = v.heights
    cl = v.combinelist.seq
    m = Q.seq_len(cl)
    pile_at(i - 1, i, *st.ghost.get("extreme_witnesses", []))
    k = V.arbitrary("CanvasCombine.k")
    yield "pile-width", implies(n_items(v.self) > 0, v.maxcol == v.size[0])
    yield "no-more-canvases-than-children-seen", both(0 <= m, m <= i)
    yield "rows-so-far", psum_of(cl, m) == psum_of(H, i)
    if not isinstance(cl, tuple):  # (the empty list before the first iteration: nothing to say)
        yield "every-canvas-has-the-pile-width", implies(both(0 <= k, k < m), Q.seq_get(cl, k)[0].ncols == v.size[0])
        yield "the-first-canvas-has-the-pile-width", implies(0 < m, Q.seq_get(cl, 0)[0].ncols == v.size[0])


@contract(PI + "Pile.render", property=("C01", "C09"), inline=EINL, replayable=False)
class pile_render:
    """C01 (ii): the canvas of a Pile is exactly as wide as asked and has the rows of the shared geometry (flow:
    their sum = what Pile.rows reports) or exactly the rows asked for (box: padded / trimmed at the bottom).
    (The cursor clause of C09 (i) for render is not stated here: see the final report.)"""

    self_shape = PILE
    qf_branching = True
    params = dict(size=PSIZE, focus=Bool)
    result = CCANVAS
    raises = ()

    def requires(s, a):
        return both(pile_geo_requires(s, a.size), a.size[0] >= 1)

    def ensures(old, s, a, r):
        g = Geo(old, a.size, a.focus)
        yield "width-is-the-width-asked-for", r.ncols == a.size[0]
        if len(a.size) == 2:
            yield "box-height-is-the-height-asked-for", r.nrows == a.size[1]
        else:
            yield "flow-height-is-the-sum-of-the-childrens-rows", r.nrows == g.total()
        yield "frame", both(s._contents._focus == old._contents._focus, n_items(s) == n_items(old))

    loops = {0: Loop(invariant=_render_loop, shapes={"combinelist": COMBINE_LIST})}
