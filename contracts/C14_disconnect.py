"""C14 — Signals.disconnect (by arguments) and Signals.register: contracts on the real methods of urwid/signals.py.

Statement: "disconnecting something that is not connected does nothing"; "handlers already disconnected when the
emit starts ... are never called" (so a disconnect that is given the arguments of a connected handler must remove
it).  Plan (DESIGN §6 C14): disconnect removes the FIRST entry equal on (callback, user_arg, user_args), order of
the rest preserved; no-op -- no exception -- if none matches or the name was never connected.

What "equal" means is Python's `==` on the stored tuple, spelled out here independently of the interpreter:
  * callbacks: `==`, an equivalence that CONTAINS identity but is coarser (two bound-method objects of the same
    function and instance are equal, never identical): modelled by an uninterpreted class function
    `Callback.eqclass`; `is` stays identity (pyvc: protocol hook `py_eq`).
  * user_arg: None or the same individual.
  * weak arguments: the stored weak references against references freshly made from the `weak_args` given:
    `weakref.ref.__eq__` -- both referents alive and the same, or the very same reference object.
  * user_args: same length, same individuals in order.
(`==` of an argument individual with itself only: argument objects with a user-defined `__eq__` coarser than
identity are outside the model, as everywhere in C14.)

Handler entries here carry their (weak_args, user_args) as real sequences (held by value), not as the opaque
tokens of contracts/C14_signals.py, because the code compares them."""
import weakref as _weakref

import z3

from pyvc import seqs as Q
from pyvc import shapes as S
from pyvc import values as V
from pyvc.api import *
from pyvc.api import PROTOCOLS
from pyvc.seqs import DRef, LRef, SObj
from pyvc.values import cur, mk_bool

from contracts.C14_signals import (NAMES, in_place_clauses, SG, SIGNALS_C, Sender, _WR_OF, _WR_REF, _connect_real, _connect_setup, fresh_sender,
                                   handler_eq, handlers_of, item, length, removal_claims, same_seq)
from urwid import signals as _sig

HANDLER_D = Tup(Opaque("SigKey"), Opaque("Callback"), Opt(Opaque("Arg")), Tup(TupleOf(Opaque("WeakRef")), TupleOf(Opaque("Arg"))))
SENDER_D = Custom(lambda st, hint: fresh_sender(st, hint, HANDLER_D), "sender")

_CB_CLASS = z3.Function("Callback.eqclass", S.opaque_sort("Callback"), z3.IntSort())
_WR_DEAD = z3.Function("WeakRef.dead", S.opaque_sort("WeakRef"), z3.IntSort(), z3.BoolSort())


def cb_equal(a, b):
    """Python `==` of two callables: an equivalence containing identity (equal class of `Callback.eqclass`)."""
    return mk_bool(_CB_CLASS(a.e) == _CB_CLASS(b.e))


def wr_alive(r):
    return mk_bool(z3.Not(_WR_DEAD(r.e, z3.IntVal(0))))


def wr_equal(a, b):
    """weakref.ref.__eq__ (CPython Objects/weakrefobject.c weakref_richcompare): if either referent is dead the
    references are equal only when they are the same object; otherwise the referents are compared (individuals:
    by identity)."""
    return either(mk_bool(a.e == b.e), both(wr_alive(a), wr_alive(b), mk_bool(_WR_REF(a.e) == _WR_REF(b.e))))


PROTOCOLS["Callback"].py_eq = lambda st, a, b: cb_equal(a, b)
PROTOCOLS["WeakRef"].py_eq = lambda st, a, b: wr_equal(a, b)


def _disconnect_real(ip, st, f, args, kwargs):
    if f is _weakref.ref:
        target = args[0]
        e = _WR_OF(target.e)
        # a reference made now to an argument of this very call: the referent is strongly held by the caller
        st.assume(both(mk_bool(_WR_REF(e) == target.e), mk_bool(z3.Not(_WR_DEAD(e, z3.IntVal(0))))))
        return V.SOpaque("WeakRef", e)
    return _connect_real(ip, st, f, args, kwargs)


def matches(h, a):
    """h[1:] == (callback, user_arg, (weakrefs of weak_args, tuple(user_args))), by the definitions above."""
    wrefs, uargs = h[3]
    nw, nu = length(a.weak_args), length(a.user_args)
    return both(
        cb_equal(h[1], a.callback),
        opt_eq(h[2], a.user_arg),
        length(wrefs) == nw,
        forall(0, nw, lambda k: either(mk_bool(item(wrefs, k).e == _WR_OF(item(a.weak_args, k).e)),
                                       both(wr_alive(item(wrefs, k)), mk_bool(_WR_REF(item(wrefs, k).e) == item(a.weak_args, k).e)))),
        length(uargs) == nu,
        forall(0, nu, lambda k: eq(item(uargs, k), item(a.user_args, k))),
    )


def keys_distinct(H):
    n = length(H)
    return forall(0, n, lambda i: forall(0, n, lambda j: implies(neg(i == j), neg(eq(item(H, i)[0], item(H, j)[0])))))


@contract(SG + "Signals.disconnect", property="C14", replayable=False, inline=(SG + "setdefaultattr", SG + "Signals._prepare_user_args"))
class disconnect:
    self_shape = SIGNALS_C
    params = dict(obj=SENDER_D, name=Atom("sig", "other"), callback=Opaque("Callback"), user_arg=Opt(Opaque("Arg")),
                  weak_args=TupleOf(Opaque("Arg")), user_args=TupleOf(Opaque("Arg")))
    forall_range_check = False  # (run time only: the path conditions are quantified, emptiness checks of ranges are slow)
    branch_timeout_ms = 400
    raises = ()  # "disconnecting something that is not connected does nothing": in particular it does not raise
    setup = staticmethod(_connect_setup)
    call_real = staticmethod(_disconnect_real)

    def requires(s, a):
        # keys are unique objects, one per connect (Signals.connect: fresh-key; disconnect_by_key only removes)
        return both(*[keys_distinct(handlers_of(a.obj, nm)) for nm in NAMES])

    def ensures(old, s, a, result):
        st = cur()
        entry = st.ghost["obj_at_entry"]
        H0 = handlers_of(entry, a.name)
        H1 = handlers_of(a.obj, a.name)
        n, m = length(H0), length(H1)
        yield "returns-None", result is None
        yield from in_place_clauses(a.obj)  # the registry's dict and list objects stay (C14_signals.in_place_clauses)
        calls = [ev for ev in s.trace if ev[0] == "disconnect_by_key"]
        yield "at-most-one-removal", len(calls) <= 1
        for other in NAMES:
            if not bool(a.name == other):
                yield f"other-signal-{other}-untouched", same_seq(handlers_of(entry, other), handlers_of(a.obj, other))
        if not calls:
            yield "not-connected-with-these-arguments", forall(0, n, lambda j: neg(matches(item(H0, j), a)))
            yield "then-nothing-changed", same_seq(H0, H1)
            return
        _ev, c_obj, c_name, c_key = calls[0][:4]
        i = st.ghost["loop_index"]
        yield "removal-addressed-to-this-sender-and-signal", both(c_obj is a.obj, eq(c_name, a.name))
        yield "the-entry-removed-is-the-first-that-equals-the-arguments", both(
            i >= 0, i < n, matches(item(H0, i), a), forall(0, i, lambda j: neg(matches(item(H0, j), a))), eq(c_key, item(H0, i)[0]))
        f = getattr(H1, "filter_of", None)
        yield "the-list-was-filtered", f is not None
        if f is None:
            return
        _base, zi, zp, _p = f
        yield from removal_claims(H0, H1, item(H0, i)[0], zi, zp)
        yield "every-entry-but-that-one-survives", forall(0, n, lambda j: implies(neg(j == i), both(zp(j) >= 0, zp(j) < m, handler_eq(item(H1, zp(j)), item(H0, j)))))

    def _inv(v):
        st = cur()
        H0 = handlers_of(st.ghost["obj_at_entry"], v.name)
        a = View(dict(callback=v.callback, user_arg=st.ghost["user_arg_at_entry"], weak_args=st.ghost["weak_args_at_entry"], user_args=st.ghost["user_args_at_entry"]))
        return both(
            # nothing equal to the arguments among the entries already passed
            forall(0, v.i_, lambda j: neg(matches(item(H0, j), a))),
            # what is walked is the list as it was at entry, untouched so far
            same_seq(Q.to_sseq(v.iter_.seq if isinstance(v.iter_, LRef) else v.iter_), H0),
            same_seq(handlers_of(v.obj, v.name), H0),
            len([ev for ev in v.self.trace if ev[0] == "disconnect_by_key"]) == 0,
        )

    loops = {0: Loop(invariant=_inv)}


def _disconnect_setup(st, self_obj, vals):
    _connect_setup(st, self_obj, vals)
    # the parameter names `user_args` is re-bound in the body (to the prepared pair): the invariant needs the originals
    st.ghost["user_arg_at_entry"] = vals["user_arg"]
    st.ghost["weak_args_at_entry"] = vals["weak_args"]
    st.ghost["user_args_at_entry"] = vals["user_args"]


disconnect.setup = staticmethod(_disconnect_setup)


# ---- register

class _Sig2:  # a second sender class, to state "other classes' registrations untouched"
    pass


@contract(SG + "Signals.register", property="C14", replayable=False)
class register:
    """`self._supported[sig_cls] = signals`: afterwards connect() accepts exactly these names for the class."""
    self_shape = Obj(_sig.Signals, dict(_supported=Custom(lambda st, hint: DRef({_Sig2: ("x",)}) if st.fork(2) else DRef({_Sig2: ("x",), Sender: ("old",)}), "registry")))
    params = dict(sig_cls=Const(Sender), signals=Const(NAMES))

    def ensures(old, s, a, result):
        d = s._supported.d
        yield "registered-for-the-class", Sender in d and d[Sender] is a.signals
        yield "replaces-an-earlier-registration-keeps-other-classes", set(d) == {Sender, _Sig2} and d[_Sig2] == ("x",)
        yield "returns-None", result is None
