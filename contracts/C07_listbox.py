"""C07 -- ListBox shows a gap-free window of its items that contains the focus.

`ListBox.calculate_visible` (the three walker-driven loops), `get_focus_offset_inset`, `_set_focus_valign_complete` and
`render` against a *chain model* of the opaque list walker ("for every walker honouring the ListWalker interface"):

    chain(d, k)    d = 0: upwards, d = 1: downwards; chain(d, 0) is the walker's focus, chain(d, k+1) is what
                   get_prev / get_next answers for the position of chain(d, k); OK(d, k): that item exists
    R(d, k)        rows of the k items nearest to the focus in direction d (prefix sum over the chain, each item's
                   rows((maxcol,)) as the widget reports them)

Both are recursive definitions over the step count k (consistent for every walker: cyclic / wrap-around position
graphs included), instantiated groundly at the step terms in play (`chain_unfold`).  The three `while` loops carry the
ghost iteration counter of the engine (`Loop(counter=True)`): "the loop has walked k items" is the abstraction the
invariants talk about, and the counters at loop exit are the witnesses `ka`, `kb` of the postcondition
"there are ka, kb such that the rows shown are  chain(0,ka) .. focus .. chain(1,kb)  minus trim_top / trim_bottom".

Not claimed here: termination of the loops (a walker may offer infinitely many 0-row widgets), and the completion of a
pending focus change (step 0 of calculate_visible = `_set_focus_complete`, contracts/C08_listbox.py): `requires` says
that no change is pending."""
import z3

from pyvc import seqs as Q
from pyvc import shapes as S
from pyvc import values as V
from pyvc.api import *
from pyvc.api import PROTOCOLS
from pyvc.values import cur, is_none, mk_bool, mk_int
from contracts.proto_widget import *
from contracts.C08_listbox import FILL, LBX, WALKER, WIDGET, lb_ok, walker_focus, widget_at

from urwid.widget import listbox as _lbmod

# ------------------------------------------------------------------------------------------------ state of a ListBox

VALIGN = Enum("top", "middle", "bottom", "relative")
VHEIGHT = Enum("relative", "given")

LB = Obj(
    _lbmod.ListBox,
    dict(
        _body=WALKER,
        set_focus_pending=Const(None),
        set_focus_valign_pending=Const(None),
        offset_rows=Int,
        inset_fraction=Tup(Int, Int),
        pref_col=Opt(Int),
        _rendered_size=Tup(Int, Int),
    ),
)


def no_change_pending(s):
    """`set_focus_pending` and `set_focus_valign_pending` are both None (a formula; never forks)."""
    out = []
    for p in (s.set_focus_pending, s.set_focus_valign_pending):
        out.append(True if p is None else (mk_bool(p.isnone) if isinstance(p, V.SOpt) else False))
    return both(*out)


def focus_widget(s, when="now"):
    return val(walker_focus(s, when)[0])


def rows_of(w, maxcol, focus=False):
    return PROTOCOLS["Widget"].call_quiet(cur(), w, "rows", dict(size=(maxcol,), focus=focus))


def nonempty(s):
    return neg(mk_bool(walker_focus(s)[0].isnone))


def size_ok(size):
    return both(0 <= size[0], size[0] < DIMMAX, 1 <= size[1], size[1] < DIMMAX)


# ------------------------------------------------------------------------------------------------ get_focus_offset_inset


@contract(LBX + "ListBox.get_focus_offset_inset", property="C07", replayable=False)
class lb_get_focus_offset_inset:
    """(offset rows, inset rows) of the focus widget: one of them is 0; the inset is the stored fraction of the
    widget's rows, rounded down, and leaves a row of the widget (0 <= inset < rows, or both 0)."""

    self_shape = LB
    params = dict(size=Tup(Int, Int))
    result = Tup(Int, Int)
    raises = (_lbmod.ListBoxError,)
    modifies = ()

    def requires(s, a):
        return both(nonempty(s), a.size[0] >= 0)

    # raises exactly for a corrupt scroll state (never under the class invariant `lb_ok`)
    raises_iff = {_lbmod.ListBoxError: lambda s, a: both(s.offset_rows == 0, neg(both(0 <= s.inset_fraction[0], 0 <= s.inset_fraction[1], s.inset_fraction[0] < s.inset_fraction[1])))}

    def ensures(old, s, a, result):
        off, inset = result
        rows = rows_of(focus_widget(old, "entry"), a.size[0], True)
        inum, iden = old.inset_fraction
        yield "offset-is-the-stored-one", off == old.offset_rows
        yield "one-of-them-is-zero", either(off == 0, inset == 0)
        yield "inset-leaves-a-row-of-the-widget", both(0 <= inset, either(inset < rows, both(rows == 0, inset == 0)))
        yield "inset-is-the-fraction-of-the-rows-rounded-down", implies(off == 0, both(inset * iden <= rows * inum, rows * inum < (inset + 1) * iden))
        yield "fraction-was-valid", implies(off == 0, both(0 <= inum, inum < iden))

    def on_raise(old, s, a, exc):
        inum, iden = old.inset_fraction
        yield "only-for-a-corrupt-fraction", both(old.offset_rows == 0, either(inum < 0, iden < 0, inum >= iden))


# ------------------------------------------------------------------------------------------------ the chain model

# arguments: (walker, walker state version, maxcol, direction, step)
_KEY = (S.opaque_sort("ListWalker"), z3.IntSort(), z3.IntSort(), z3.IntSort(), z3.IntSort())
_OK = z3.Function("lbchain$OK", *_KEY, z3.BoolSort())
_POS = z3.Function("lbchain$POS", *_KEY, z3.IntSort())
_W = z3.Function("lbchain$W", *_KEY, S.opaque_sort("Widget"))
_R = z3.Function("lbchain$R", *_KEY, z3.IntSort())

UP, DOWN = 0, 1


class Chain:
    """The items around the walker's focus at one walker state and one width (see the module docstring)."""

    def __init__(self, lb, maxcol, when="now"):
        st = cur()
        P = PROTOCOLS["ListWalker"]
        self.walker = lb._body
        self.maxcol = maxcol
        if when == "entry":
            self.ver = 0
        elif when == "exit":
            self.ver = st.ghost.get("ver_post", st.ghost.get("ver", {})).get(str(self.walker.e), 0)
        else:
            self.ver = P.version(st, self.walker)
        self.key = (self.walker.e, z3.IntVal(self.ver), V._z(maxcol))
        g = P.uf_value(st, "get_focus", self.walker, [], P.methods["get_focus"].result, self.ver)
        self.focus_widget, self.focus_pos = val(g[0]), g[1]
        # the axioms already instantiated on this path (z3 terms are hash-consed: get_id() identifies the index term)
        self.done = st.ghost.setdefault("lbchain_done", set())
        base = ("base", self.key[0].get_id(), self.ver, self.key[2].get_id())
        if base not in self.done:
            self.done.add(base)
            for d in (UP, DOWN):
                st.assume(z3.And(_OK(*self.key, z3.IntVal(d), z3.IntVal(0)), _POS(*self.key, z3.IntVal(d), z3.IntVal(0)) == V._z(self.focus_pos),
                                 _W(*self.key, z3.IntVal(d), z3.IntVal(0)) == self.focus_widget.e, _R(*self.key, z3.IntVal(d), z3.IntVal(0)) == 0))

    def _a(self, d, k):
        return (*self.key, z3.IntVal(d), V._z(k))

    def ok(self, d, k):
        return mk_bool(_OK(*self._a(d, k)))

    def pos(self, d, k):
        return mk_int(_POS(*self._a(d, k)))

    def widget(self, d, k):
        return V.SOpaque("Widget", _W(*self._a(d, k)), {})

    def R(self, d, k):
        return mk_int(_R(*self._a(d, k)))

    def item_rows(self, d, k, focus_rows):
        """Rows of chain(d, k); k = 0 is the focus widget (rendered with focus: `focus_rows`)."""
        return ite(k <= 0, focus_rows, self.R(d, k) - self.R(d, k - 1))

    def mono(self, d, a, b):
        """Lemma `chain-rows-monotone` (below), instantiated: R(d, a) <= R(d, b) for 0 <= a <= b with OK(d, b)."""
        cur().assume(implies(both(0 <= a, a <= b, self.ok(d, b)), both(self.R(d, a) <= self.R(d, b), self.ok(d, a))))

    def neighbour(self, d, position):
        P = PROTOCOLS["ListWalker"]
        name = "get_prev" if d == UP else "get_next"
        m = P.methods[name]
        r = P.uf_value(cur(), name, self.walker, [V._z(position)], m.result, self.ver)
        for f in m.ensures(cur(), self.walker, {"position": position}, r):  # the protocol's own clauses for this answer
            cur().assume(f)
        return r

    def unfold(self, d, k):
        """Definitional axioms at step k (for k >= 0): chain(d, k+1) from chain(d, k)."""
        st = cur()
        inst = (self.key[0].get_id(), self.ver, self.key[2].get_id(), d, V._z(k).get_id())
        if inst in self.done:
            return
        self.done.add(inst)
        g = self.neighbour(d, self.pos(d, k))
        there = both(self.ok(d, k), neg(mk_bool(g[0].isnone)))
        w = val(g[0])
        rows = rows_of(w, self.maxcol, False)
        st.assume(implies(k >= 0, both(
            eq(self.ok(d, k + 1), there),
            implies(there, both(self.pos(d, k + 1) == g[1], mk_bool(_W(*self._a(d, k + 1)) == w.e), self.R(d, k + 1) == self.R(d, k) + rows, rows >= 0)),
            # lemma `chain-rows-non-negative` (below), instantiated: a prefix sum of rows >= 0 over items that exist
            implies(self.ok(d, k), self.R(d, k) >= 0),
        )))


def cps_rows(fill):
    """Sum of the `rows` components of a fill list [(widget, position, rows)]."""
    f = Q.seq_cpsum(fill, 2)
    if f is None:
        raise Unsupported("fill list without the prefix sums of its rows")
    return f(Q.seq_len(fill))


def cursor_row_visible(cursor, off, maxrow):
    """The cursor the focus widget reports (None, or (x, y) relative to the widget) lies on a row of the box."""
    if cursor is None:
        return True
    if isinstance(cursor, V.SOpt):
        return either(mk_bool(cursor.isnone), both(0 <= off + cursor.val[1], off + cursor.val[1] < maxrow))
    return both(0 <= off + cursor[1], off + cursor[1] < maxrow)


def item_ok(fill, j, maxcol, ch=None, d=None, m=None, k=None):
    """Entry j of a fill list carries the rows its widget reports at this width (unfocused), and its widget is the one the
    walker has at its position (`ch`: the chain, for the walker and its state version).  With `d`, `m` (and `k`): the entry
    IS the chain item chain(d, m), 1 <= m (<= k, the items walked), and the entries before it are exactly the chain items
    before it that have rows -- the rows listed up to and including it are the chain's: cps(j) = R(d, m - 1),
    cps(j + 1) = R(d, m)."""
    w, p, r = Q.seq_get(fill, j)
    if ch is None:
        return r == rows_of(w, maxcol, False)
    out = [r == rows_of(w, maxcol, False), eq(w, widget_at(ch.walker, ch.ver, p))]
    if m is not None:
        f = Q.seq_cpsum(fill, 2)
        ch.unfold(d, m - 1)
        out += [1 <= m, ch.ok(d, m), p == ch.pos(d, m), f(j) == ch.R(d, m - 1), f(j + 1) == ch.R(d, m)]
        if k is not None:
            out.append(m <= k)
    return both(*out)


def every_item_ok(fill, maxcol, name, ch=None, d=None, m=None, k=None):
    """`for every index j of the fill list: item_ok` as a statement about ONE arbitrary index (universal
    generalisation, pyvc.values.arbitrary): proved / assumed for that index only, hence for all.  `m`: the chain index of
    THAT entry (a witness: a ghost of the loops, a Skolem function of the index at call sites)."""
    n = Q.seq_len(fill)
    if isinstance(n, int):
        if n == 0:
            return True
        raise Unsupported("fill list of concrete non-zero length")
    q = V.arbitrary(name)
    return implies(both(0 <= q, q < n), item_ok(fill, q, maxcol, ch, d, m, k))


def _mq_at_head(v, slot, fill, name, rows_name, index):
    """Ghost of the loops of calculate_visible: the chain index of the ARBITRARY entry q (`every_item_ok`) of the fill list.
    At the loop head of the arbitrary iteration it is an unknown of the invariant (a fresh constant when the invariant is
    assumed); when the invariant is re-established after the body it is `index` (the item just walked) if q is the entry
    just appended, else the old one.  `rows_name`: the local holding the rows of the item just walked when 0-row items
    are not appended (None: every item is appended)."""
    st = cur()
    if isinstance(v.i_, int):
        return 0  # inv-init: the list is empty (loops 2, 3) / handled by the caller (loop 4)
    if st.ghost.get("inv_assuming"):
        st.ghost[slot] = st.fresh_int(slot[3:])
        return st.ghost[slot]
    q = V.arbitrary(name)
    appended = True if rows_name is None else neg(getattr(v, rows_name) == 0)
    return ite(both(appended, q == Q.seq_len(fill) - 1), index, st.ghost[slot])


def _mq_after(end, slot, fill_name, name, found_name, index):
    """... and when the loop was left: by `break` on an item that was found, that item was appended (it crosses the edge,
    so it has rows / loop 4 appends every item)."""
    st = cur()
    if isinstance(end.i_, int) or slot not in st.ghost:
        return 0
    if end.broke_ and not is_none(getattr(end, found_name)):
        q = V.arbitrary(name)
        return ite(q == Q.seq_len(getattr(end, fill_name)) - 1, index, st.ghost[slot])
    return st.ghost[slot]


def last_listed(ch, fill, fpos, kb, kl, d=DOWN):
    """chain(d, kl) is the outermost item that is listed in direction d (the focus when nothing is) -- its position and its
    widget: whatever the walker has between it and chain(d, kb) has no rows."""
    n = Q.seq_len(fill)
    if isinstance(n, int):
        end_pos = Q.seq_get(fill, n - 1)[1] if n > 0 else fpos
        same_widget = eq(Q.seq_get(fill, n - 1)[0], ch.widget(d, kl)) if n > 0 else True
    else:
        end_pos = ite(n > 0, Q.seq_get(fill, n - 1)[1], fpos)
        same_widget = implies(n > 0, eq(Q.seq_get(fill, imax(n - 1, 0))[0], ch.widget(d, kl)))
    return both(0 <= kl, kl <= kb, ch.R(d, kl) == ch.R(d, kb), end_pos == ch.pos(d, kl), implies(n == 0, kl == 0), implies(n > 0, kl >= 1), same_widget)


def trim_inside_outermost_listed(trim, fill, focus_rows):
    """The rows cut off at an edge are rows of the outermost LISTED item on that side (of the focus widget when nothing is
    listed there), and leave a row of it."""
    n = Q.seq_len(fill)
    if isinstance(n, int):
        rows = Q.seq_get(fill, n - 1)[2] if n > 0 else focus_rows
    else:
        rows = ite(n > 0, Q.seq_get(fill, imax(n - 1, 0))[2], focus_rows)
    return both(trim >= 0, implies(trim > 0, trim < rows))


def _kl_at_head(v, slot="lb_kl", rows_name="n_rows"):
    """Ghost of loop 3 (loop 2: slot "lb_kt", rows in `p_rows`): the chain index of the last item appended to the fill
    list.  At the loop head of the arbitrary iteration it is an unknown of the invariant (a fresh constant when the
    invariant is assumed); when the invariant is re-established after the body it is the index just appended, or the old
    one when a 0-row widget was skipped."""
    st = cur()
    if isinstance(v.i_, int):
        return 0  # inv-init: nothing walked yet
    if st.ghost.get("inv_assuming"):
        st.ghost[slot] = st.fresh_int(slot[3:])
        return st.ghost[slot]
    # inv-preserve: v.i_ = j + 1 items walked, the last one appended unless it had no rows
    return ite(getattr(v, rows_name) != 0, v.i_, st.ghost[slot])


def _kl_final():
    end = loop_end(1)
    st = cur()
    if isinstance(end.i_, int) or "lb_kl" not in st.ghost:
        return 0
    if end.broke_ and not is_none(end.next_pos):
        return end.i_ + 1  # left on the item that crosses the bottom edge: it has rows and was appended
    return st.ghost["lb_kl"]


def _mq_after_loop2():
    end = loop_end(0)
    return _mq_after(end, "lb_mq_above", "fill_above", "cv.above", "prev", end.i_ + 1)


def _mq_above_final():
    end = loop_end(2)
    return _mq_after(end, "lb_mq_above4", "fill_above", "cv.above", "prev", _k2() + end.i_ + 1)


def _mq_below_final():
    end = loop_end(1)
    return _mq_after(end, "lb_mq_below", "fill_below", "cv.below", "next_pos", end.i_ + 1)


def _kt_after_loop2():
    """Chain index of the topmost listed item when loop 2 was left."""
    end = loop_end(0)
    st = cur()
    if isinstance(end.i_, int) or "lb_kt" not in st.ghost:
        return 0
    if end.broke_ and not is_none(end.prev):
        return end.i_ + 1  # left on the item that crosses the top edge: it has rows and was appended
    return st.ghost["lb_kt"]


def _kt_final():
    """... and at the end: loop 4 appends every item it walks."""
    m = steps_done(loop_end(2), "prev")
    return ite(m >= 1, _k2() + m, _kt_after_loop2())


def loop_end(ordinal):
    return cur().ghost["loop_end"][ordinal]


def steps_done(end, none_name):
    """Number of chain items a loop has walked when it was left: its completed iterations, plus the one in progress
    when it was left by `break` after a neighbour was found."""
    if not end.broke_:
        return end.i_
    return end.i_ if is_none(getattr(end, none_name)) else end.i_ + 1


def _k2():
    return steps_done(loop_end(0), "prev")


def _kb():
    return steps_done(loop_end(1), "next_pos")


def _cv_loop_above(v):
    """Loop 2 (the widgets above the focus), k items walked."""
    ch = Chain(v.self, v.maxcol)
    k = v.i_
    ch.unfold(UP, k)
    e = v.at_entry
    yield "at-the-kth-item-above", both(ch.ok(UP, k), v.pos == ch.pos(UP, k), v.top_pos == v.pos)
    ch.unfold(UP, k - 1)
    yield "rows-collected-are-the-chains", both(cps_rows(v.fill_above) == ch.R(UP, k), ch.R(UP, k) >= 0)
    yield "lines-left", both(v.fill_lines == e.offset_rows - ch.R(UP, k), v.fill_lines >= 0)
    yield "walked-on-only-while-lines-were-left", implies(k >= 1, ch.R(UP, k - 1) < e.offset_rows)
    yield "offset-and-trim-untouched", both(v.offset_rows == e.offset_rows, v.trim_top == e.trim_top)
    yield "every-listed-item-has-its-widgets-rows", every_item_ok(v.fill_above, v.maxcol, "cv.above", ch, UP, _mq_at_head(v, "lb_mq_above", v.fill_above, "cv.above", "p_rows", v.i_), k)
    kt = _kl_at_head(v, "lb_kt", "p_rows")
    ch.unfold(UP, kt)
    yield "top-listed-item-above", both(last_listed(ch, v.fill_above, v.focus_pos, k, kt, UP), Q.seq_len(v.fill_above) <= k)
    yield "trim-top-inside-the-topmost-listed-item", trim_inside_outermost_listed(v.trim_top, v.fill_above, v.focus_rows)


def _cv_loop_below(v):
    """Loop 3 (the widgets below the focus), j items walked."""
    ch = Chain(v.self, v.maxcol)
    j = v.i_
    ch.unfold(DOWN, j)
    off = v.offset_rows - v.inset_rows
    yield "at-the-jth-item-below", both(ch.ok(DOWN, j), v.pos == ch.pos(DOWN, j))
    yield "rows-collected-are-the-chains", both(cps_rows(v.fill_below) == ch.R(DOWN, j), ch.R(DOWN, j) >= 0)
    ch.unfold(DOWN, j - 1)
    yield "lines-left", both(v.fill_lines == v.maxrow - v.focus_rows - off - ch.R(DOWN, j), implies(j >= 1, v.fill_lines >= 0))
    yield "walked-on-only-while-lines-were-left", implies(j >= 1, v.maxrow - v.focus_rows - off - ch.R(DOWN, j - 1) > 0)
    yield "trim-untouched", v.trim_bottom == imax(v.focus_rows + off - v.maxrow, 0)
    yield "every-listed-item-has-its-widgets-rows", every_item_ok(v.fill_below, v.maxcol, "cv.below", ch, DOWN, _mq_at_head(v, "lb_mq_below", v.fill_below, "cv.below", "n_rows", v.i_), j)
    kl = _kl_at_head(v)
    ch.unfold(DOWN, kl)
    yield "last-listed-item-below", both(last_listed(ch, v.fill_below, v.focus_pos, j, kl), Q.seq_len(v.fill_below) <= j)
    yield "trim-bottom-inside-the-bottommost-listed-item", trim_inside_outermost_listed(v.trim_bottom, v.fill_below, v.focus_rows)


def _cv_loop_refill(v):
    """Loop 4 (more widgets above, when the walker ran out below), m more items walked after loop 2's k2."""
    ch = Chain(v.self, v.maxcol)
    k2, kb = _k2(), _kb()
    k = k2 + v.i_
    ch.unfold(UP, k)
    ch.unfold(UP, k - 1)
    off = v.offset_rows - v.inset_rows
    shown = off + v.focus_rows + ch.R(DOWN, kb) - v.trim_bottom
    yield "at-the-kth-item-above", both(ch.ok(UP, k), v.pos == ch.pos(UP, k))
    yield "rows-collected-are-the-chains", cps_rows(v.fill_above) == ch.R(UP, k)
    yield "focus-sits-below-the-rows-above", off == ch.R(UP, k) - v.trim_top
    yield "lines-left-are-the-blank-rows", both(v.fill_lines == v.maxrow - shown, v.fill_lines >= 0, v.fill_lines <= v.at_entry.fill_lines)
    yield "no-refill-while-a-row-is-cut-off", implies(v.fill_lines > 0, both(v.trim_top == 0, v.trim_bottom == 0))
    yield "trim-top-inside-the-topmost-item", both(v.trim_top >= 0, implies(v.trim_top > 0, v.trim_top < ch.item_rows(UP, k, v.focus_rows)))
    yield "a-focus-row-stays-visible", implies(v.focus_rows >= 1, both(off < v.maxrow, off + v.focus_rows >= 1))
    yield "cursor-row-stays-visible", cursor_row_visible(v.cursor, off, v.maxrow)
    mq = _mq_after_loop2() if isinstance(v.i_, int) else _mq_at_head(v, "lb_mq_above4", v.fill_above, "cv.above", None, k)
    yield "every-listed-item-has-its-widgets-rows", every_item_ok(v.fill_above, v.maxcol, "cv.above", ch, UP, mq, k)
    kt = ite(v.i_ >= 1, k, _kt_after_loop2())
    ch.unfold(UP, kt)
    yield "top-listed-item-above", last_listed(ch, v.fill_above, v.focus_pos, k, kt, UP)
    yield "trim-top-inside-the-topmost-listed-item", trim_inside_outermost_listed(v.trim_top, v.fill_above, v.focus_rows)


CV_RESULT = Tup(Tup(Int, WIDGET, Int, Dim, Opt(Tup(Nat, Nat))), Tup(Int, FILL), Tup(Int, FILL))


def cv_clauses(ch, s, a, result, ka, kb, kl, callee=False, kt=None):
    """The postcondition of calculate_visible for the witnesses ka, kb (items walked above / below), kl and kt (the
    bottommost / topmost listed item)."""
    maxcol, maxrow = a.size
    (off, fw, fpos, frows, cursor), (tt, above), (tb, below) = result
    above, below = [x.seq if isinstance(x, Q.LRef) else x for x in (above, below)]  # the lists' contents now (values)
    A, B = cps_rows(above), cps_rows(below)
    ch.unfold(UP, ka)
    ch.unfold(UP, ka - 1)
    ch.unfold(DOWN, kb)
    ch.unfold(DOWN, kb - 1)
    yield "middle-is-the-walkers-focus", both(fpos == ch.focus_pos, eq(fw, ch.focus_widget), frows == rows_of(ch.focus_widget, maxcol, True))
    yield "window-is-a-stretch-of-the-chain", both(ka >= 0, kb >= 0, ch.ok(UP, ka), ch.ok(DOWN, kb))
    yield "rows-listed-are-the-chains-no-gap", both(A == ch.R(UP, ka), B == ch.R(DOWN, kb))
    yield "focus-sits-below-the-rows-above", off == A - tt
    yield "trim-top-inside-the-topmost-item", both(tt >= 0, implies(tt > 0, tt < ch.item_rows(UP, ka, frows)))
    yield "trim-bottom-inside-the-bottommost-item", both(tb >= 0, implies(tb > 0, tb < ch.item_rows(DOWN, kb, frows)))
    shown = A - tt + frows + B - tb
    yield "never-more-than-the-box", shown <= maxrow
    yield "blank-rows-only-below-the-last-item", implies(shown < maxrow, both(tb == 0, neg(ch.ok(DOWN, kb + 1))))
    yield "blank-rows-only-with-everything-above-shown", implies(shown < maxrow, both(tt == 0, neg(ch.ok(UP, ka + 1))))
    yield "a-focus-row-is-visible", implies(frows >= 1, both(off < maxrow, off + frows >= 1))
    yield "focus-not-below-the-box", off <= maxrow
    yield "cursor-row-is-visible", cursor_row_visible(cursor, off, maxrow)
    W = PROTOCOLS["Widget"]
    wants = both(a.focus, W.call_quiet(cur(), fw, "selectable", {}), W.hasattr(None, cur(), fw, "get_cursor_coords"))
    reported = W.call_quiet(cur(), fw, "get_cursor_coords", dict(size=(maxcol,)))
    yield "cursor-is-what-the-focused-selectable-focus-widget-reports", either(both(wants, V.opt_eq(cursor, reported)), both(neg(wants), V.opt_isnone(cursor)))
    ch.unfold(DOWN, kl)
    yield "last-listed-item-below", last_listed(ch, below, fpos, kb, kl)
    if kt is not None:
        ch.unfold(UP, kt)
        yield "top-listed-item-above", last_listed(ch, above, fpos, ka, kt, UP)
        yield "trim-top-inside-the-topmost-listed-item", trim_inside_outermost_listed(tt, above, frows)
        yield "trim-bottom-inside-the-bottommost-listed-item", trim_inside_outermost_listed(tb, below, frows)
    if callee:
        # per-item clauses: kept as lazy facts, instantiated by the caller at the indices it looks at; the chain index of
        # entry j is a Skolem function of j (one per call)
        st = cur()
        ma = z3.Function(st.fresh_name("cv_m_above"), z3.IntSort(), z3.IntSort())
        mb = z3.Function(st.fresh_name("cv_m_below"), z3.IntSort(), z3.IntSort())
        st.ghost["cv_item_index"] = (lambda j: mk_int(ma(V._z(j))), lambda j: mk_int(mb(V._z(j))))
        V.lazy_forall(0, Q.seq_len(above), lambda j: item_ok(above, j, maxcol, ch, UP, mk_int(ma(V._z(j))), ka))
        V.lazy_forall(0, Q.seq_len(below), lambda j: item_ok(below, j, maxcol, ch, DOWN, mk_int(mb(V._z(j))), kb))
    else:
        yield "every-item-above-is-a-chain-item-with-its-widgets-rows-none-with-rows-skipped", every_item_ok(above, maxcol, "cv.above", ch, UP, _mq_above_final(), ka)
        yield "every-item-below-is-a-chain-item-with-its-widgets-rows-none-with-rows-skipped", every_item_ok(below, maxcol, "cv.below", ch, DOWN, _mq_below_final(), kb)


@contract(LBX + "ListBox.calculate_visible", property="C07", replayable=False)  # C08 uses it as a callee contract only
class lb_calculate_visible:
    """The widgets drawn around the walker's focus at this size: (row offset, focus widget, focus position, focus rows,
    cursor), (trim_top, [(widget, position, rows)] above, nearest first), (trim_bottom, [... below])."""

    self_shape = LB
    params = dict(size=Tup(Int, Int), focus=Bool)
    result = CV_RESULT
    raises = ()
    modifies = ()

    def requires(s, a):
        # no focus change pending (step 0), a list that is not empty, a sane scroll state
        return both(no_change_pending(s), nonempty(s), size_ok(a.size), lb_ok(s))

    loops = {
        0: Loop(invariant=_cv_loop_above, counter=True, shapes={"fill_above": FILL}),
        1: Loop(invariant=_cv_loop_below, counter=True, shapes={"fill_below": FILL}),
        2: Loop(invariant=_cv_loop_refill, counter=True, shapes={"fill_above": FILL}),
    }

    def ensures(old, s, a, result):
        ch = Chain(old, a.size[0], "entry")
        ka = _k2() + steps_done(loop_end(2), "prev")
        import os
        if os.environ.get("LBDBG"):
            e0, e1, e2 = loop_end(0), loop_end(1), loop_end(2)
            print("PATH", cur().path_key(), "L2", e0.broke_, e0.broke_ and is_none(e0.prev), "L3", e1.broke_, e1.broke_ and is_none(e1.next_pos), "L4", e2.broke_, e2.broke_ and is_none(e2.prev))
        yield from cv_clauses(ch, s, a, result, ka, _kb(), _kl_final(), kt=_kt_final())
        yield "moves-no-focus", walker_focus(s, "exit")[1] == walker_focus(old, "entry")[1]

    def ensures_callee(old, s, a, result):
        st = cur()
        ch = Chain(old, a.size[0])
        ka, kb, kl, kt = st.fresh_int("ka"), st.fresh_int("kb"), st.fresh_int("kl"), st.fresh_int("kt")
        st.ghost["cv_witness"] = (ch, ka, kb, kl, result)
        st.ghost["cv_kt"] = kt
        st.ghost["cv_lists"] = (Q.to_sseq(result[1][1]), Q.to_sseq(result[2][1]))  # the lists as returned (render reverses one in place)
        yield from cv_clauses(ch, s, a, result, ka, kb, kl, callee=True, kt=kt)


# ------------------------------------------------------------------------------------------------ _set_focus_valign_complete

LBV = Obj(
    _lbmod.ListBox,
    dict(
        _body=WALKER,
        set_focus_pending=Opt(Int),  # whatever was pending (the value is only overwritten here)
        set_focus_valign_pending=Tup(VALIGN, Int),
        offset_rows=Int,
        inset_fraction=Tup(Int, Int),
        pref_col=Opt(Int),
    ),
)

_CTBF = "urwid/widget/filler.py:calculate_top_bottom_filler"


@contract(LBX + "ListBox._set_focus_valign_complete", property="C07", replayable=False, inline=(_CTBF,), contract_overrides={_CTBF: None})
class lb_set_focus_valign_complete:
    """Completing `set_focus_valign((vt, va))` now that the size is known: both pending requests are cleared, and the
    focus widget is put `spare` rows below the top for 'bottom', half of that (rounded down) for 'middle', 0 for 'top',
    va per cent of it (rounded half up from below) for 'relative' -- spare = maxrow - rows, 0 when the widget is taller
    than the box -- and never on or below the last row: a focus row (if it has one) is inside the box, and shift_focus
    does not raise (before /repo b1ed84b a 0-row focus widget aligned 'bottom' asked for offset maxrow: ListBoxError).
    calculate_top_bottom_filler is inlined (its C19 contract bounds the alignment only to within a row)."""

    self_shape = LBV
    params = dict(size=Tup(Int, Int), focus=Bool)
    raises = ()
    modifies = ("set_focus_pending", "set_focus_valign_pending", "offset_rows", "inset_fraction")

    def requires(s, a):
        vt, va = s.set_focus_valign_pending
        return both(size_ok(a.size), implies(vt == "relative", both(0 <= va, va <= 100)))

    def ensures(old, s, a, result):
        maxcol, maxrow = a.size
        vt, va = old.set_focus_valign_pending
        g = walker_focus(old, "entry")
        empty = mk_bool(g[0].isnone)
        yield "both-pending-requests-cleared", both(s.set_focus_pending is None, s.set_focus_valign_pending is None)
        yield "empty-list-nothing-else", implies(empty, both(s.offset_rows == old.offset_rows, s.inset_fraction[0] == old.inset_fraction[0], s.inset_fraction[1] == old.inset_fraction[1]))
        rows = rows_of(val(g[0]), maxcol, a.focus)
        spare = imax(maxrow - rows, 0)
        off = s.offset_rows
        cap = lambda x: imin(x, maxrow - 1)  # noqa: E731
        yield "no-inset", implies(neg(empty), both(s.inset_fraction[0] == 0, s.inset_fraction[1] == 1))
        yield "top", implies(both(neg(empty), vt == "top"), off == 0)
        yield "bottom", implies(both(neg(empty), vt == "bottom"), off == cap(spare))
        yield "middle", implies(both(neg(empty), vt == "middle"), off == cap(spare // 2))
        # relative: va per cent of the spare rows go above, to within the rounding of int_scale: |100*top - va*spare| <= 100
        yield "relative", implies(both(neg(empty), vt == "relative"), either(off == maxrow - 1, both(100 * off - va * spare <= 100, va * spare - 100 * off <= 100)))
        yield "relative-ends", implies(both(neg(empty), vt == "relative"), both(implies(va == 0, off == 0), implies(va == 100, off == cap(spare))))
        yield "a-focus-row-inside-the-box", implies(neg(empty), both(0 <= off, off < maxrow))
        yield "widget-not-cut-while-it-fits", implies(both(neg(empty), rows <= maxrow, rows >= 1), off + rows <= maxrow)
        yield "scroll-state-sane", implies(neg(empty), lb_ok(s))
        yield "moves-no-focus", walker_focus(s, "exit")[1] == g[1]


# ------------------------------------------------------------------------------------------------ render


def _cv():
    """(chain, ka, kb, kl, above, below, ...) of the calculate_visible call made by render on this path."""
    ch, ka, kb, kl, result = cur().ghost["cv_witness"]
    return ch, ka, kb, kl, result


def _cv_lists():
    return cur().ghost["cv_lists"]


def _widths_ok(comb, n, maxcol):
    """Every canvas collected so far is maxcol wide: stated for one arbitrary index (the one CanvasCombine's
    equal-widths obligation is stated for) and for index 0."""
    if isinstance(comb, (tuple, list)):
        return both(True, *[c[0].ncols == maxcol for c in comb])
    k = V.arbitrary("CanvasCombine.k")
    return both(implies(both(0 <= k, k < n), Q.seq_get(comb, k)[0].ncols == maxcol), implies(n > 0, Q.seq_get(comb, 0)[0].ncols == maxcol))


def _render_loop_above(v):
    above, below = _cv_lists()
    n = Q.seq_len(above)
    i = v.i_
    V.instantiate(n - 1 - i)
    cps = Q.seq_cpsum(above, 2)
    comb = v.combinelist.seq
    yield "one-canvas-per-item-so-far", Q.seq_len(comb) == i
    yield "rows-so-far", both(v.rows == cps(n) - cps(n - i), Q.to_sseq(comb).psum(i) == v.rows)
    yield "all-canvases-maxcol-wide", _widths_ok(comb, i, v.maxcol)


def _render_loop_below(v):
    above, below = _cv_lists()
    na = Q.seq_len(above)
    i = v.i_
    V.instantiate(i)
    comb = v.combinelist.seq
    m = na + 1 + i
    yield "one-canvas-per-item-so-far", Q.seq_len(comb) == m
    yield "rows-so-far", both(v.rows == Q.seq_cpsum(above, 2)(na) + v.focus_rows + Q.seq_cpsum(below, 2)(i), Q.to_sseq(comb).psum(m) == v.rows)
    yield "all-canvases-maxcol-wide", _widths_ok(comb, m, v.maxcol)


def _render_loop_tail(v):
    """The consistency check below the last rendered item: it walks chain(DOWN, kl+1 ..), items without rows."""
    ch, ka, kb, kl, _r = _cv()
    q = kl + 1 + v.i_
    ch.unfold(DOWN, q - 1)
    ch.unfold(DOWN, q)
    ch.mono(DOWN, q, kb)
    ch.mono(DOWN, kl, q - 1)
    g = ch.neighbour(DOWN, ch.pos(DOWN, q - 1))
    yield "within-the-rowless-tail", both(kl + 1 <= q, q <= kb + 1, ch.ok(DOWN, q - 1))
    yield "looking-at-the-next-chain-item", both(V.opt_eq(v.widget, g[0]), v.next_pos == g[1])


@contract(LBX + "ListBox.render", property="C07", replayable=False, abstract_contains=True)
class lb_render:
    """The canvas has exactly the size asked, and nothing on the way raises: every listed widget renders the rows
    calculate_visible listed for it, the two trims are inside the combined canvas, the rows never exceed the box, and
    when rows are left blank the walker has nothing with rows below the last rendered item (so none of render's own
    ListBoxError consistency checks fires).  Not expressed: the cursor of the canvas (CanvasCombine leaves it
    unspecified for a list of symbolic length)."""

    self_shape = LB
    params = dict(size=Tup(Int, Int), focus=Bool)
    result = CCANVAS
    # "rendering a ListBox never raises".
    # FAILS-ON-TREE: raises/ListBoxError@urwid/widget/listbox.py:708 for focus=False and a focus widget whose rows depend
    # on `focus`: calculate_visible lists the focus widget with rows((maxcol,), True), render draws it with focus=focus and
    # compares.  Replayed: a flow widget with rows = 2 if focus else 1,
    #   ListBox(SimpleListWalker([W(), Text("b")])).render((5, 3), focus=False)
    #   -> ListBoxError: Focus Widget <W selectable flow widget> at position 0 within listbox calculated 2 rows but rendered 1!
    raises = ()
    modifies = ("_rendered_size",)

    def requires(s, a):
        return both(no_change_pending(s), nonempty(s), size_ok(a.size), lb_ok(s))

    def call_real(ip, st, f, args, kwargs):
        if f is frozenset and len(args) == 1 and isinstance(args[0], (Q.SSeq, Q.LRef)):
            # frozenset(<positions of the rendered items>): only asked `x in ...` here, which the contract leaves
            # unspecified (abstract_contains: both answers are explored)
            return args[0]
        return NotImplemented

    loops = {
        0: Loop(invariant=_render_loop_above, shapes={"combinelist": COMBINE_LIST}),
        1: Loop(invariant=_render_loop_below, shapes={"combinelist": COMBINE_LIST}),
        2: Loop(invariant=_render_loop_tail, counter=True),
    }

    def ensures(old, s, a, result):
        yield "canvas-is-the-box", both(result.ncols == a.size[0], result.nrows == a.size[1])
        yield "size-remembered", both(s._rendered_size[0] == a.size[0], s._rendered_size[1] == a.size[1])
        yield "moves-no-focus", walker_focus(s, "exit")[1] == walker_focus(old, "entry")[1]
        # the widgets' render calls logged on this path (those of the two loops belong to the arbitrary iteration, whose
        # own obligation is the rows check in the loop body): the focus widget is drawn once, with the focus flag asked
        from pyvc.protocol import calls_on

        drawn = calls_on(cur(), None, "render")
        fw = focus_widget(old, "entry")
        yield "focus-widget-drawn-once-with-the-focus-asked", both(len(drawn) == 1, *[both(eq(ev[1], fw), eq(ev[3]["focus"], a.focus), V.struct_eq(ev[3]["size"], (a.size[0],))) for ev in drawn])


# ------------------------------------------------------------------------------------------------ the empty list

def is_empty(s):
    return mk_bool(walker_focus(s)[0].isnone)


@contract(LBX + "ListBox.calculate_visible", property="C07", replayable=False, alias="empty")
class lb_calculate_visible_empty:
    """A walker without a focus (the empty list): (None, None, None), nothing looked at."""

    self_shape = LB
    params = dict(size=Tup(Int, Int), focus=Bool)
    result = Tup(Const(None), Const(None), Const(None))
    raises = ()
    modifies = ()

    def requires(s, a):
        return both(no_change_pending(s), is_empty(s))

    def ensures(old, s, a, result):
        yield "three-nones", both(len(result) == 3, result[0] is None, result[1] is None, result[2] is None)


_CV = LBX + "ListBox.calculate_visible"


@contract(LBX + "ListBox.render", property="C07", replayable=False, alias="empty", contract_overrides={_CV: lb_calculate_visible_empty})
class lb_render_empty:
    """The empty list renders as a blank canvas of the size asked (for any size, 0 rows included)."""

    self_shape = LB
    params = dict(size=Tup(Int, Int), focus=Bool)
    raises = ()
    modifies = ("_rendered_size",)

    def requires(s, a):
        return both(no_change_pending(s), is_empty(s), a.size[0] >= 0, a.size[1] >= 0)

    def ensures(old, s, a, result):
        yield "blank-canvas-of-the-size-asked", both(result.ncols == a.size[0], result.nrows == a.size[1], mk_bool(result.cursor.isnone))
        yield "size-remembered", both(s._rendered_size[0] == a.size[0], s._rendered_size[1] == a.size[1])


# ------------------------------------------------------------------------------------------------ engine model check


def _namedtuple_model_check():
    """pyvc.builtins_model.namedtuple_new against CPython, on the NamedTuple classes of listbox.py and a class with
    defaults: same tuple / same TypeError for positional, keyword, mixed, missing, surplus, repeated, unknown arguments."""
    import itertools
    import typing

    from pyvc.builtins_model import is_namedtuple_class, namedtuple_new
    from pyvc.engine import PyRaise

    class WithDefaults(typing.NamedTuple):
        a: int
        b: int = 7
        c: typing.Any = None

    classes = [_lbmod.VisibleInfoMiddle, _lbmod.VisibleInfoFillItem, _lbmod.VisibleInfoTopBottom, _lbmod.VisibleInfo, WithDefaults]
    n = bad = 0
    detail = ""
    for cls in classes:
        if not is_namedtuple_class(cls):
            return ("namedtuple-model-agrees-with-cpython", False, f"{cls.__name__} not recognised")
        fields = cls._fields
        names = list(fields) + ["zz"]
        for npos in range(len(fields) + 2):
            for kws in itertools.chain.from_iterable(itertools.combinations(names, r) for r in range(min(len(names), 3) + 1)):
                args = list(range(10, 10 + npos))
                kwargs = {k: 100 + i for i, k in enumerate(kws)}
                try:
                    want = ("ok", tuple(cls(*args, **kwargs)))
                except TypeError:
                    want = ("TypeError",)
                try:
                    r = namedtuple_new(cls, args, kwargs)
                    got = ("ok", tuple(r))
                    if any(getattr(cls(*args, **kwargs), f) != r[i] for i, f in enumerate(fields)):
                        got = ("field-order",)
                except PyRaise as e:
                    got = (e.exc.cls.__name__,)
                n += 1
                if got != want:
                    bad += 1
                    detail = detail or f"{cls.__name__}(*{args}, **{kwargs}): CPython {want}, model {got}"
    return ("namedtuple-model-agrees-with-cpython", bad == 0, detail or f"{n} constructor calls compared")


def _writes_within(target, allowed, callees=()):
    """Static frame check (the engine does not generate one): the attributes of `self` assigned in the body of
    `target` are within `allowed` (= the contract's `modifies`), and the methods of `self` it calls are `callees`
    (whose own `modifies` are within `allowed`, or which are not reached under `requires`: stated per use)."""
    import ast

    from pyvc import source as SRC

    def chk():
        node = SRC.resolve(target).node
        me = node.args.args[0].arg
        stores = {n.attr for n in ast.walk(node) if isinstance(n, ast.Attribute) and isinstance(n.value, ast.Name) and n.value.id == me and isinstance(n.ctx, (ast.Store, ast.Del))}
        called = {n.func.attr for n in ast.walk(node) if isinstance(n, ast.Call) and isinstance(n.func, ast.Attribute) and isinstance(n.func.value, ast.Name) and n.func.value.id == me}
        ok = stores <= set(allowed) and called <= set(callees)
        return ("writes-within-modifies", ok, f"assigned: {sorted(stores)}; self-methods called: {sorted(called)}")

    return chk


# calculate_visible: `_set_focus_complete` (step 0) is not reached under `requires` (no change pending: the call sits
# under `if self.set_focus_pending or self.set_focus_valign_pending`); get_focus_offset_inset modifies nothing
lb_calculate_visible.static_checks = [_namedtuple_model_check, _writes_within(LBX + "ListBox.calculate_visible", (), ("_set_focus_complete", "get_focus_offset_inset"))]
lb_get_focus_offset_inset.static_checks = [_writes_within(LBX + "ListBox.get_focus_offset_inset", ())]
lb_set_focus_valign_complete.static_checks = [_writes_within(LBX + "ListBox._set_focus_valign_complete", lb_set_focus_valign_complete.modifies, ("shift_focus",))]
lb_render.static_checks = [_writes_within(LBX + "ListBox.render", lb_render.modifies, ("calculate_visible",))]


@lemma("chain-rows-non-negative", property="C07")
class chain_rows_nonneg:
    """R(d, k) >= 0 for every k >= 0 with OK(d, k) -- induction on k: R(d, 0) = 0; OK(d, k+1) implies OK(d, k) and
    R(d, k+1) = R(d, k) + rows with rows >= 0 (widget protocol).  Used, instantiated, by `Chain.unfold`."""

    params = dict(rk=Int, rows=Int, ok_k=Bool, ok_k1=Bool)

    def requires(x):
        # the defining equations at step k, and the induction hypothesis at k
        return both(implies(x.ok_k1, x.ok_k), x.rows >= 0, implies(x.ok_k, x.rk >= 0))

    def claim(x):
        yield "base", 0 >= 0
        yield "step", implies(x.ok_k1, x.rk + x.rows >= 0)


@lemma("chain-rows-monotone", property="C07")
class chain_rows_monotone:
    """For 0 <= a <= b with OK(d, b): OK(d, a) and R(d, a) <= R(d, b) -- induction on b from a: base b = a; step:
    OK(d, b+1) implies OK(d, b) and R(d, b+1) = R(d, b) + rows, rows >= 0.  Used, instantiated, by `Chain.mono`."""

    params = dict(ra=Int, rb=Int, rows=Int, ok_a=Bool, ok_b=Bool, ok_b1=Bool)

    def requires(x):
        # defining equations at step b, induction hypothesis at b
        return both(implies(x.ok_b1, x.ok_b), x.rows >= 0, implies(x.ok_b, both(x.ok_a, x.ra <= x.rb)))

    def claim(x):
        yield "base", implies(x.ok_a, both(x.ok_a, x.ra <= x.ra))
        yield "step", implies(x.ok_b1, both(x.ok_a, x.ra <= x.rb + x.rows))
