"""C19 — Overlay: where the top widget goes (calculate_padding_filler) and the size it is handed (top_w_size)."""
from pyvc.api import *
from pyvc.api import PROTOCOLS
from pyvc.values import cur, mk_bool
from spec.layout import *
from contracts.proto_widget import *

from urwid.widget import overlay as _overlay

OV = "urwid/widget/overlay.py:"
B = 2**26

OVERLAY = Obj(
    _overlay.Overlay,
    dict(
        top_w=Opaque("Widget"),
        bottom_w=Opaque("Widget"),
        align_type=Enum("left", "center", "right", "relative"),
        align_amount=Int,
        width_type=Enum("given", "relative", "pack"),
        width_amount=Int,
        min_width=Opt(Int),
        left=Int,
        right=Int,
        valign_type=Enum("top", "middle", "bottom", "relative"),
        valign_amount=Int,
        height_type=Enum("given", "relative", "pack"),
        height_amount=Int,
        min_height=Opt(Int),
        top=Int,
        bottom=Int,
    ),
)


def overlay_wf(s):
    """What set_overlay_parameters establishes (normalize_align/width/valign/height), with the size bounds of the
    float-as-rational reading of the relative-size rounding."""
    return both(
        0 <= s.align_amount, s.align_amount <= 100, 0 <= s.valign_amount, s.valign_amount <= 100,
        0 <= s.left, s.left < PARTMAX, 0 <= s.right, s.right < PARTMAX, 0 <= s.top, s.top < PARTMAX, 0 <= s.bottom, s.bottom < PARTMAX,
        implies(s.width_type == "given", both(s.width_amount >= 0, s.width_amount < PARTMAX)),
        implies(s.width_type == "relative", both(s.width_amount >= 0, s.width_amount <= 100)),
        implies(s.height_type == "given", both(s.height_amount >= 0, s.height_amount < PARTMAX)),
        implies(s.height_type == "relative", both(s.height_amount >= 0, s.height_amount <= 100)),
        implies(neg(mk_bool(s.min_width.isnone)), both(s.min_width.val >= 0, s.min_width.val < PARTMAX)),
        implies(neg(mk_bool(s.min_height.isnone)), both(s.min_height.val >= 0, s.min_height.val < PARTMAX)),
    )


def _size_ok(size):
    return both(*[both(x >= 0, x < DIMMAX) for x in size])


@contract(OV + "Overlay.calculate_padding_filler", property="C19", replayable=False, alias="space-partition")
class overlay_cpf:
    """(left, right, top, bottom) around the top widget inside the bottom widget's (maxcol, maxrow)."""

    self_shape = OVERLAY
    params = dict(size=Tup(Int, Int), focus=Bool)
    result = Tup(Int, Int, Int, Int)
    raises = (_overlay.OverlayError,)

    def requires(s, a):
        return both(overlay_wf(s), _size_ok(a.size))

    def ensures(old, s, a, result):
        W = PROTOCOLS["Widget"]
        st = cur()
        l, r, t, b = result
        maxcol, maxrow = a.size
        cw, ch = maxcol - l - r, maxrow - t - b  # what top_w_size hands to the top widget
        yield "no-negative-dimension", both(cw >= 0, ch >= 0)
        yield "top-edge-never-clipped", t >= 0
        if old.width_type == "pack":
            pw, ph = W.call_quiet(st, old.top_w, "pack", dict(size=(), focus=a.focus))
            yield "fixed-widget-has-a-height", ph > 0
            yield "fixed-widget-keeps-its-own-size-clipped-if-need-be", both(cw == pw, ch == ph)
            req_w = pw
        else:
            req_w = requested_size(maxcol, old.width_type, old.width_amount, old.min_width, old.left, old.right)
            spare = maxcol - req_w - old.left - old.right
            yield "columns-not-clipped", both(l >= 0, r >= 0)
            yield "requested-width-when-it-fits-beside-the-margins", implies(spare >= 0, both(cw == req_w, l >= old.left, r >= old.right))
            yield "requested-width-when-only-the-margins-do-not-fit", implies(both(spare < 0, req_w <= maxcol), cw == req_w)
            yield "all-columns-when-too-wide", implies(req_w > maxcol, cw == maxcol)
        spare_w = maxcol - req_w - old.left - old.right
        dw = 200 * (l - old.left) - 2 * align_pct(old.align_type, old.align_amount) * spare_w
        yield "horizontal-spare-split-by-the-alignment-percentage", implies(spare_w >= 0, both(dw <= 200, dw >= -200))
        if old.width_type == "pack":
            req_h = ph
        elif old.height_type == "pack":
            req_h = W.call_quiet(st, old.top_w, "rows", dict(size=(cw,), focus=a.focus))
            yield "flow-widget-gets-the-rows-it-asks-for-clipped-if-need-be", ch == req_h
        else:
            req_h = requested_size(maxrow, old.height_type, old.height_amount, old.min_height, old.top, old.bottom)
            spare = maxrow - req_h - old.top - old.bottom
            yield "rows-not-clipped", b >= 0
            yield "requested-height-when-it-fits-beside-the-margins", implies(spare >= 0, both(ch == req_h, t >= old.top, b >= old.bottom))
            yield "requested-height-when-only-the-margins-do-not-fit", implies(both(spare < 0, req_h <= maxrow), ch == req_h)
            yield "all-rows-when-too-tall", implies(req_h > maxrow, ch == maxrow)
        spare_h = maxrow - req_h - old.top - old.bottom
        dh = 200 * (t - old.top) - 2 * align_pct(old.valign_type, old.valign_amount, "top", "middle", "bottom") * spare_h
        yield "vertical-spare-split-by-the-alignment-percentage", implies(spare_h >= 0, both(dh <= 200, dh >= -200))
        yield "frame", both(*[eq(s.fields[k], old.fields[k]) for k in OVERLAY.fields if k not in ("top_w", "bottom_w", "min_width", "min_height")])

    def on_raise(old, s, a, exc):
        W = PROTOCOLS["Widget"]
        pw, ph = W.call_quiet(cur(), old.top_w, "pack", dict(size=(), focus=a.focus))
        yield "only-for-a-fixed-widget-without-height", both(old.width_type == "pack", ph == 0)


@contract(OV + "Overlay.top_w_size", property="C19", replayable=False, alias="space-partition")
class overlay_tws:
    """The size handed to the top widget: () for a fixed one, (cols,) for a flow one, (cols, rows) otherwise —
    what is left of the bottom widget's size inside the four margins; never negative for margins that
    calculate_padding_filler produced (its clause no-negative-dimension)."""

    self_shape = OVERLAY
    params = dict(size=Tup(Int, Int), left=Int, right=Int, top=Int, bottom=Int)
    raises = ()

    def requires(s, a):
        return both(_size_ok(a.size), a.size[0] - a.left - a.right >= 0, a.size[1] - a.top - a.bottom >= 0)

    def ensures(old, s, a, result):
        maxcol, maxrow = a.size
        if old.width_type == "pack":
            yield "fixed-widget-gets-no-size", len(result) == 0
        elif old.height_type == "pack":
            yield "flow-widget-gets-the-columns-inside-the-margins", both(len(result) == 1, result[0] == maxcol - a.left - a.right if len(result) == 1 else False)
        else:
            yield "box-widget-gets-what-is-inside-the-margins", both(len(result) == 2, both(result[0] == maxcol - a.left - a.right, result[1] == maxrow - a.top - a.bottom) if len(result) == 2 else False)
        yield "no-negative-dimension", both(*[x >= 0 for x in result])
