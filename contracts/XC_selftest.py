"""Contracts (shapes only) for the encoding self-test programs of spec/xcheck_cases.py: the xcheck samples
concrete inputs within these shapes.  Property id "XC" is not a property of urwid: these run with every
check as a guard on the checker itself."""
from pyvc.api import *

_K = "verif:spec/xcheck_cases.py:"
_I = Int(-9, 40)
_L = ListOf(Int(-3, 9), max_len=4)


def _case(name, **params):
    @contract(_K + name, property="XC", replayable=False)
    class _c:
        pass

    _c.params = params
    return _c


_case("x_floordiv_mod", a=_I, b=Int(-7, 7))
_case("x_round_idioms", a=Int(0, 40), b=Int(0, 40), c=Int(1, 40))
_case("x_minmax_abs", a=_I, b=_I, c=_I)
_case("x_slice_indices", n=Int(0, 6), start=Opt(Int(-8, 8)), stop=Opt(Int(-8, 8)), step=Opt(Int(-3, 3)))
_case("x_range_len", a=Int(-5, 8), b=Int(-5, 8), s=Int(-3, 3))
_case("x_list_slice", items=_L, lo=Int(-6, 6), hi=Int(-6, 6))
_case("x_list_index", items=_L, i=Int(-6, 6))
_case("x_list_methods", items=_L, i=Int(-6, 6), v=Int(0, 5))
_case("x_list_pop", items=_L, i=Int(-6, 6))
_case("x_list_setdel", items=_L, i=Int(-6, 6), v=Int(0, 5))
_case("x_list_remove_index", items=_L, v=Int(-3, 9))
_case("x_sorted", items=_L)
_case("x_tuple_ops", a=_I, b=_I)
_case("x_bitops", x=Int(0, 255), k=Int(0, 4))
_case("x_bool_ops", a=Int(-2, 3), b=Int(-2, 3), f=Bool)
_case("x_opt", a=Opt(Int(-2, 3)), b=_I)
_case("x_loop_sum", items=ListOf(Int(0, 6), max_len=4), lim=Int(0, 6))
_case("x_zip_enum", xs=_L, ys=_L)
_case("x_try", a=Int(-6, 6), items=_L)
_case("x_chain_cmp", a=_I, b=_I, c=_I)
_case("x_seq_eq", xs=ListOf(Int(0, 2), max_len=3), ys=ListOf(Int(0, 2), max_len=3), k=Int(0, 3))
_case("x_namedtuple", a=_I, b=_I, items=_L)
_case("x_iadd_subscript", items=_L, v=Int(0, 5))
_case("x_minmax_single", a=_I)

from spec import xcheck_cases as _xc  # noqa: E402


@contract(_K + "XBox.x_iadd_attr", property="XC", replayable=False)
class _x_iadd_attr:
    self_shape = Obj(_xc.XBox, dict(items=_L))
    params = dict(v=Int(0, 5))
_case("x_max_short_slice", items=ListOf(Int(0, 6), max_len=7), i=Int(-1, 3))
_ROWS = ListOf(ListOf(Int(0, 3), max_len=3), max_len=3)
_case("x_generator", rows=_ROWS, extra=_ROWS, k=Int(0, 3), w=Int(0, 4)).generator_as_list = True
_case("x_splice_rows", rows=_ROWS, y=Int(-1, 3), v=Int(0, 5))
_case("x_generator_same_list", a=Int(0, 3), n=Int(0, 3), w=Int(0, 3)).generator_as_list = True
