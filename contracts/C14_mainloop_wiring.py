"""C14 — the library's own connect / disconnect pairs: MainLoop.start() / stop() (urwid/event_loop/main_loop.py).

start() connects the loop's `_reset_input_descriptors` to the screen's INPUT_DESCRIPTORS_CHANGED signal, stop() must
drop exactly that connection ("handlers already disconnected when the emit starts ... are never called": a stopped
loop must not be re-hooked by a later emit; "exactly once": a loop started, stopped and started again listens once).
Second, independent contracts (alias "signal-wiring") on the two functions whose control flow contracts/C12_mainloop.py
verifies; its models of the screen / event loop are reused.  connect_signal / disconnect_signal are ghost events
("connect" | "disconnect", sender, name, callback, #extra arguments) -- their bodies: contracts/C14_signals.py,
C14_disconnect.py (connect raises NameError iff the name is not registered for the sender's class)."""
import z3

from pyvc import shapes as S
from pyvc import values as V
from pyvc.api import *
from pyvc.api import PROTOCOLS
from pyvc.engine import PyRaise, SExc
from pyvc.interp import FnVal
from pyvc.values import cur, mk_bool

from contracts.C12_mainloop import MAINLOOP, ML
from urwid import signals as _sig
from urwid.display.common import INPUT_DESCRIPTORS_CHANGED
from urwid.event_loop.main_loop import CantUseExternalLoop
from urwid.util import StoppingContext


def _registers(scr):
    return mk_bool(z3.Function("Screen.registers_input_descriptors_changed", scr.e.sort(), z3.BoolSort())(scr.e))


def _wiring_real(ip, st, f, args, kwargs):
    if f is StoppingContext:
        return None
    if f == _sig.connect_signal:
        ok = st.branch(_registers(args[0]).e)
        st.ghost.setdefault("wiring", []).append(("connect", args[0], args[1], args[2], len(args) - 3 + len(kwargs), ok))
        if not ok:
            raise PyRaise(SExc(NameError, ("<no such signal for the class>",), site="callee Signals.connect"))
        return V.SOpaque("SigKey", z3.Const(st.fresh_name("key"), S.opaque_sort("SigKey")))
    if f == _sig.disconnect_signal:
        st.ghost.setdefault("wiring", []).append(("disconnect", args[0], args[1], args[2], len(args) - 3 + len(kwargs)))
        return None
    return NotImplemented


def _ours(ev, s):
    """The event names (our screen, INPUT_DESCRIPTORS_CHANGED, our bound _reset_input_descriptors, no extra arguments)."""
    _k, scr, name, cb, extra = ev[:5]
    return both(isinstance(scr, V.SOpaque) and mk_bool(scr.e == s.screen.e), name == INPUT_DESCRIPTORS_CHANGED,
                isinstance(cb, FnVal) and cb.bound is s and cb.ref.node.name == "_reset_input_descriptors", extra == 0)


@contract(ML + "MainLoop.start", property="C14", alias="signal-wiring", replayable=False, inline=(ML + "MainLoop._reset_input_descriptors",))
class ml_start_wiring:
    self_shape = MAINLOOP
    raises = (CantUseExternalLoop,)
    call_real = staticmethod(_wiring_real)
    modifies = ("idle_handle",)

    def ensures(old, s, a, result):
        w = cur().ghost.get("wiring", [])
        yield "connects-exactly-once-and-disconnects-nothing", [ev[0] for ev in w] == ["connect"]
        if [ev[0] for ev in w] == ["connect"]:
            yield "to-its-own-screen-with-its-own-handler", _ours(w[0], s)
            yield "connected-iff-the-screen-class-has-the-signal", eq(w[0][5], _registers(s.screen))

    def on_raise(old, s, a, exc):
        yield "a-refused-start-connects-nothing", not cur().ghost.get("wiring", [])


@contract(ML + "MainLoop.stop", property="C14", alias="signal-wiring", replayable=False)
class ml_stop_wiring:
    self_shape = MAINLOOP
    call_real = staticmethod(_wiring_real)

    def ensures(old, s, a, result):
        w = cur().ghost.get("wiring", [])
        yield "disconnects-exactly-once-and-connects-nothing", [ev[0] for ev in w] == ["disconnect"]
        if [ev[0] for ev in w] == ["disconnect"]:
            yield "the-connection-start-made", _ours(w[0], s)
