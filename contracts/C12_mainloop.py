"""C12 — MainLoop: exit/exception contracts of _run/run/start/stop and input routing order.
Screens, event loops, widgets and user callbacks are opaque; only user callbacks (which run inside
event_loop.run() / _run_screen_event_loop()) may raise, as the statement says."""
import z3

from pyvc import seqs as Q
from pyvc import shapes as S
from pyvc import values as V
from pyvc.api import *
from pyvc.api import PROTOCOLS
from pyvc.engine import PyRaise, SExc
from pyvc.protocol import PMethod, Protocol
from pyvc.values import cur, mk_bool
from contracts.proto_widget import COMMAND_MAP, command_of

from urwid.event_loop import main_loop as _ml
from urwid.event_loop.abstract_loop import ExitMainLoop
from urwid.event_loop.main_loop import CantUseExternalLoop
from urwid import signals as _signals_mod
from urwid.util import StoppingContext
from urwid.display.common import INPUT_DESCRIPTORS_CHANGED as _common_INPUT_DESCRIPTORS_CHANGED

ML = "urwid/event_loop/main_loop.py:"


class ScreenProtocol(Protocol):
    kind = "Screen"
    methods = {
        "start": PMethod(None, params=[]),
        "stop": PMethod(None, params=[]),
        "set_mouse_tracking": PMethod(None, params=[]),
        "hook_event_loop": PMethod(None, params=["event_loop", "callback"]),
        "unhook_event_loop": PMethod(None, params=["event_loop"]),
        "get_cols_rows": PMethod(Tup(Int(1, 2**16), Int(1, 2**16)), params=[]),
        "clear": PMethod(None, params=[]),
        "draw_screen": PMethod(None, params=["size", "canvas"]),
        "set_input_timeouts": PMethod(None, params=["max_wait"]),
        "get_input": PMethod(None, params=["raw_keys"]),  # result: see call() below
    }
    attrs = {"started": Bool}
    has = {"hook_event_loop": "uf"}

    def call(self, ip, st, recv, name, args, kwargs):
        if name == "get_input":
            # blocks until input arrives or the timeout set before runs out: any batch of events (possibly empty)
            # and the raw codes; logged as a "wait"
            st.event("wait", st.ghost.get("input_timeout", "unset"), st.ghost.get("now"))
            r = (fresh_keys(st, "input"), V.SOpaque("RawCodes", z3.Const(st.fresh_name("raw"), S.opaque_sort("RawCodes"))))
            st.event("call", recv, name, {"raw_keys": args[0] if args else kwargs.get("raw_keys")}, r)
            return r
        if name == "set_input_timeouts":
            t = args[0] if args else kwargs.get("max_wait")
            st.ghost["input_timeout"] = t  # (a float: not encodable as an uninterpreted-function argument)
            st.event("call", recv, name, {"max_wait": t}, None)
            return None
        return super().call(ip, st, recv, name, args, kwargs)


class EventLoopProtocol(Protocol):
    kind = "EventLoop"
    methods = {
        "enter_idle": PMethod(Int, params=["callback"]),
        "remove_enter_idle": PMethod(Bool, params=["handle"]),
        "alarm": PMethod(Opaque("AlarmHandle"), params=["seconds", "callback"]),
        "remove_alarm": PMethod(Bool, params=["handle"]),
        "watch_file": PMethod(Int, params=["fd", "callback"]),
        "remove_watch_file": PMethod(Bool, params=["handle"]),
        # user callbacks run in here: it may raise anything (ExitMainLoop or any other exception)
        "run": PMethod(None, params=[], raises_any=(ExitMainLoop, BaseException)),
    }


PROTOCOLS["Screen"] = ScreenProtocol()
PROTOCOLS["EventLoop"] = EventLoopProtocol()
PROTOCOLS["AlarmHandle"] = type("AH", (Protocol,), {"kind": "AlarmHandle", "methods": {}})()

MAINLOOP = Obj(_ml.MainLoop, dict(
    screen=Opaque("Screen"), event_loop=Opaque("EventLoop"), handle_mouse=Bool, idle_handle=Int,
    _topmost_widget=Opaque("Widget"), screen_size=Opt(Tup(Int(1, 2**16), Int(1, 2**16))),
    _input_filter=Opt(Opaque("UserFn")), _unhandled_input=Opt(Opaque("UserFn"))))


def _real(ip, st, f, args, kwargs):
    if f is StoppingContext:
        return None
    name = getattr(f, "__name__", "")
    owner = getattr(f, "__self__", None)
    if owner is _signals_mod._signals and name in ("connect", "disconnect"):
        # signal wiring of the screen (delivery itself: verified under C14): which signal of which object goes to which
        # method of the loop
        h = args[2] if len(args) > 2 else None
        st.event("signal", name, args[0] if args else None, args[1] if len(args) > 1 else None,
                 (getattr(getattr(h, "ref", None), "qualname", None), getattr(h, "bound", None)))
        return None
    return NotImplemented


def screen_calls(st):
    return [ev[2] for ev in st.trace if ev[0] == "call" and ev[1].kind == "Screen" and ev[2] in ("start", "stop")]


def restored(st):
    """The screen trace ends with stop() after the last start() (and it was started at all)."""
    sc = screen_calls(st)
    return bool(sc) and sc[-1] == "stop" and "start" in sc


@contract(ML + "MainLoop.start", property="C12", replayable=False, inline=(ML + "MainLoop._reset_input_descriptors",))
class ml_start:
    self_shape = MAINLOOP
    raises = (CantUseExternalLoop,)
    call_real = staticmethod(_real)
    modifies = ("idle_handle",)
    # (_reset_input_descriptors has a contract of its own below; here its body is executed: `inline=`)
    contract_overrides = {ML + "MainLoop._reset_input_descriptors": None}

    def ensures(old, s, a, result):
        st = cur()
        names = [ev[2] for ev in st.trace if ev[0] == "call"]
        yield "screen-started-first", bool(names) and names[0] == "start"
        yield "input-hooked-and-idle-redraw-registered", "hook_event_loop" in names and "enter_idle" in names and "alarm" in names
        yield "mouse-tracking-only-if-asked", eq("set_mouse_tracking" in names, old.handle_mouse)
        # the display may be stopped and started again while the loop runs (shelling out, suspend / resume): the
        # screen announces that with INPUT_DESCRIPTORS_CHANGED, which must reach the re-hook
        sig = [e[1:] for e in st.trace if e[0] == "signal"]
        yield "descriptor-changes-of-the-screen-lead-to-a-re-hook", len(sig) == 1 and sig[0][0] == "connect" and sig[0][1] is old.screen and sig[0][2] == _common_INPUT_DESCRIPTORS_CHANGED and sig[0][3] == ("MainLoop._reset_input_descriptors", s)
        hooks = [ev for ev in st.trace if ev[0] == "call" and ev[2] in ("hook_event_loop", "unhook_event_loop")]
        yield "input-goes-to-MainLoop._update", len(hooks) == 2 and hooks[1][2] == "hook_event_loop" and hooks[1][3]["event_loop"] is old.event_loop and getattr(getattr(hooks[1][3]["callback"], "ref", None), "qualname", "") == "MainLoop._update"

    def on_raise(old, s, a, exc):
        st = cur()
        yield "only-for-screens-without-external-loop-support", neg(PROTOCOLS["Screen"].hasattr(None, st, old.screen, "hook_event_loop"))
        yield "screen-was-started", screen_calls(st) == ["start"]

    log_event = "start"

    def ensures_callee(old, s, a, result):
        return ()

    raises_iff = {CantUseExternalLoop: lambda s, a: neg(PROTOCOLS["Screen"].hasattr(None, cur(), s.screen, "hook_event_loop"))}

    def effects(old, s, a, result):
        cur().event("call", old.screen, "start", {}, None)

    def effects_raise(s, a, exc):
        cur().event("call", s.screen, "start", {}, None)


@contract(ML + "MainLoop.stop", property="C12", replayable=False)
class ml_stop:
    self_shape = MAINLOOP
    call_real = staticmethod(_real)

    def ensures(old, s, a, result):
        st = cur()
        names = [ev[2] for ev in st.trace if ev[0] == "call"]
        yield "hooks-removed-then-screen-stopped", names == ["remove_enter_idle", "unhook_event_loop", "stop"]
        sig = [e[1:] for e in st.trace if e[0] == "signal"]
        yield "re-hook-disconnected-before-the-screen-stops", len(sig) == 1 and sig[0][0] == "disconnect" and sig[0][1] is old.screen and sig[0][2] == _common_INPUT_DESCRIPTORS_CHANGED and sig[0][3] == ("MainLoop._reset_input_descriptors", s) and st.trace.index(("signal", *sig[0])) < [i for i, ev in enumerate(st.trace) if ev[0] == "call" and ev[2] == "stop"][0]

    log_event = "stop"

    def ensures_callee(old, s, a, result):
        return ()

    def effects(old, s, a, result):
        cur().event("call", old.screen, "stop", {}, None)


# MainLoop._run_screen_event_loop (the built-in loop for screens without external event-loop support; user callbacks
# run in there, it may raise anything): its body is verified in contracts/C12_screen_loop.py; at the call site in _run
# only "raises BaseException" and its log event are used, as before.


@contract(ML + "MainLoop._run", property="C12", replayable=False)
class ml_run_:
    self_shape = MAINLOOP
    raises = (ExitMainLoop, BaseException)
    call_real = staticmethod(_real)
    log_event = "_run"

    def ensures_callee(old, s, a, result):
        return ()

    def on_raise_callee(old, s, a, exc):
        return ()

    def ensures(old, s, a, result):
        yield "display-stopped-after-being-started", restored(cur())

    def on_raise(old, s, a, exc):
        yield "display-stopped-after-being-started", restored(cur())
        yield "the-exception-raised-by-the-callback-leaves-unchanged", exc.cls in (BaseException, ExitMainLoop) and ("opaque EventLoop.run" in str(exc.site) or "callee MainLoop._run_screen_event_loop" in str(exc.site))


@contract(ML + "MainLoop.run", property="C12", replayable=False)
class ml_run:
    self_shape = MAINLOOP
    raises = (BaseException,)
    call_real = staticmethod(_real)

    def ensures(old, s, a, result):
        yield "ran-the-loop-once", count_ev(s.trace, "_run") == 1

    def on_raise(old, s, a, exc):
        yield "ExitMainLoop-never-escapes", not issubclass(exc.cls, ExitMainLoop)
        yield "anything-else-propagates-unchanged", exc.cls is BaseException and "callee MainLoop._run" in str(exc.site)


ml_run_.raises_any_split = True


# ---- input routing

class UserFnProtocol(Protocol):
    """input_filter / unhandled_input given by the user: opaque, may raise anything."""

    kind = "UserFn"
    methods = {}

    def call(self, ip, st, f, args, kwargs):
        k = st.fork(2)
        st.event("userfn", f, tuple(args))
        h = getattr(ip.task.c, "userfn_havoc", None)  # rely of the contract under verification (e.g. alarms set / removed)
        if h is not None:
            h(st)
        if k == 1:
            raise PyRaise(SExc(BaseException, ("<user callback raised>",), site="user callback"))
        if f.meta.get("role") == "filter":
            return st.ghost["filtered_keys"]
        return st.fresh_bool("handled")


PROTOCOLS["UserFn"] = UserFnProtocol()
from contracts.proto_widget import *  # noqa: E402,F401


def fresh_keys(st, hint):
    """A list of input events of symbolic length: each is the resize marker, a key string or a mouse tuple."""
    n = st.fresh_int(hint + "_len")
    st.assume(n >= 0)
    nm = st.fresh_name(hint)
    fk = z3.Function(f"{nm}$key", z3.IntSort(), S.opaque_sort("Key"))
    kind = z3.Function(f"{nm}$kind", z3.IntSort(), z3.IntSort())
    fb, fc, fr_ = (z3.Function(f"{nm}${x}", z3.IntSort(), z3.IntSort()) for x in ("button", "col", "row"))

    def getter(j):
        zj = V._z(j)
        s = cur()
        k = s.choose([kind(zj) == 0, kind(zj) == 1, z3.And(kind(zj) != 0, kind(zj) != 1)])
        if k == 0:
            return "window resize"
        if k == 1:
            return V.SOpaque("Key", fk(zj), {"str": True})
        return (V.SOpaque("Key", fk(zj), {"mouse": True}), V.mk_int(fb(zj)), V.mk_int(fc(zj)), V.mk_int(fr_(zj)))

    seq = Q.SSeq(n, getter, None, None, "keys")
    seq.kind_fn = kind
    has = z3.Bool(f"{nm}$has_resize")
    wit = z3.Int(f"{nm}$resize_at")

    def contains_model(s, x):
        """`"window resize" in keys`, exactly: true iff some index of the batch holds the marker (a witness index when
        true, no index at all when false).  Other members: not modelled (falls back to abstract_contains)."""
        if not (isinstance(x, str) and x == "window resize"):
            return NotImplemented
        j = z3.Int(f"{nm}$j")
        s.assume(z3.Implies(has, z3.And(0 <= wit, wit < V._z(n), kind(wit) == 0)))
        s.assume(z3.Implies(z3.Not(has), z3.ForAll([j], z3.Implies(z3.And(0 <= j, j < V._z(n)), kind(j) != 0))))
        return mk_bool(has)

    def model_get(model, j):
        """Element j of the batch in a solver model (for counterexample display; no forks)."""
        ev = lambda e: model.eval(e, model_completion=True)  # noqa: E731
        k = ev(kind(j)).as_long()
        if k == 0:
            return "window resize"
        if k == 1:
            return f"<Key:{ev(fk(j))}>"
        return (f"<Key:{ev(fk(j))}>", ev(fb(j)).as_long(), ev(fc(j)).as_long(), ev(fr_(j)).as_long())

    seq.contains_model = contains_model
    seq.model_get = model_get
    return Q.LRef(seq)


def holds_resize(keys):
    """Spec: some event of the batch (at any index, alone or among keys and mouse events) is the resize marker."""
    seq = keys.seq
    j = z3.Int("j!resize")
    return mk_bool(z3.Exists([j], z3.And(0 <= j, j < V._z(seq.length), seq.kind_fn(j) == 0)))


def only_resizes(keys):
    """Spec: the batch holds nothing that is routed to a widget or handler (it is empty or all resize markers)."""
    seq = keys.seq
    j = z3.Int("j!route")
    return mk_bool(z3.ForAll([j], z3.Implies(z3.And(0 <= j, j < V._z(seq.length)), seq.kind_fn(j) == 0)))


PROTOCOLS["Key"].isinstance = lambda ip, st, obj, cls: issubclass(str, cls)
PROTOCOLS["Key"].contains = lambda st, obj, x: bool(obj.meta.get("mouse")) if x == "mouse" else False
_orig_truth = None


def _proc_real(ip, st, f, args, kwargs):
    from urwid.util import is_mouse_event
    if f is is_mouse_event:
        return isinstance(args[0], tuple) and len(args[0]) == 4
    return _real(ip, st, f, args, kwargs)


def iteration_ok(st, key, n_before):
    """What one iteration of process_input did with `key` (events after index n_before of the trace):
    widget first, unhandled_input exactly when the widget did not handle it, nothing else."""
    evs = st.trace[n_before:]
    calls = [(e[2], e) for e in evs if e[0] == "call" and e[1].kind == "Widget" and e[2] in ("keypress", "mouse_event")]
    user = [e for e in evs if e[0] == "userfn"]
    clears = [e for e in evs if e[0] == "call" and e[1].kind == "Screen" and e[2] == "clear"]
    if isinstance(key, str) and key == "window resize":
        return len(calls) == 0 and len(user) == 0 and len(clears) == 0
    return True


@contract(ML + "MainLoop.process_input", property="C12", replayable=False,
          inline=(ML + "MainLoop.unhandled_input",), globals_=dict(command_map=Const(COMMAND_MAP)))
class process_input:
    self_shape = MAINLOOP
    params = dict(keys=Custom(fresh_keys, "keys"))
    result = Bool
    raises = (BaseException,)
    call_real = staticmethod(_proc_real)

    def setup(st, self_obj, vals):
        u = self_obj.fields["_unhandled_input"]
        u.val.meta["role"] = "unhandled"

    def ensures(old, s, a, result):
        yield "size-known-afterwards", neg(is_none(s.screen_size))

    # per key (one arbitrary iteration): the obligations below are generated at the call sites
    loops = {0: Loop(invariant=lambda v: routing_invariant(v), modifies=("self.screen_size",))}


def routing_invariant(v):
    st = cur()
    yield "size-known", neg(is_none(v.self.screen_size))
    if v.trace_mark_ is None:
        return
    # one arbitrary iteration just ran: judge what it did with its key
    key = st.ghost["loop_elem"]
    evs = st.trace[v.trace_mark_:]
    wcalls = [e for e in evs if e[0] == "call" and e[1].kind == "Widget" and e[2] in ("keypress", "mouse_event")]
    user = [e for e in evs if e[0] == "userfn"]
    clears = [e for e in evs if e[0] == "call" and e[1].kind == "Screen" and e[2] == "clear"]
    size = val(v.self.screen_size)
    W = PROTOCOLS["Widget"]
    w = v.self._topmost_widget
    has_unhandled = not is_none(v.self._unhandled_input)
    if isinstance(key, str):
        yield "resize-marker-not-routed", len(wcalls) == 0 and len(user) == 0 and len(clears) == 0
        return
    if isinstance(key, tuple):
        offered = bool(W.hasattr(None, st, w, "mouse_event"))
        yield "mouse-event-offered-to-topmost-widget-once", len(wcalls) == (1 if offered else 0)
        handled = False
        if wcalls:
            a = wcalls[0][3]
            yield "with-its-coordinates-and-focus", both(wcalls[0][2] == "mouse_event", eq(a["size"], size), eq(a["event"], key[0]), a["button"] == key[1], a["col"] == key[2], a["row"] == key[3], eq(a["focus"], True))
            handled = bool(wcalls[0][4])
        if handled:
            yield "handled-mouse-event-not-passed-on", len(user) == 0 and len(clears) == 0
        else:
            yield "unhandled-mouse-event-passed-to-unhandled_input-once", len(user) == (1 if has_unhandled else 0) and len(clears) == 0
            if user:
                yield "unchanged", user[0][2][0] is key
        return
    # a key string
    selcalls = [e for e in evs if e[0] == "call" and e[1].kind == "Widget" and e[2] == "selectable"]
    yield "asks-whether-the-widget-is-selectable", len(selcalls) == 1
    sel = bool(selcalls[0][4]) if selcalls else False
    yield "key-offered-to-a-selectable-topmost-widget-once", len(wcalls) == (1 if sel else 0)
    key2 = key
    handled = False
    if wcalls:
        a = wcalls[0][3]
        yield "with-the-screen-size", both(wcalls[0][2] == "keypress", eq(a["size"], size), eq(a["key"], key))
        r = wcalls[0][4]
        if is_none(r):
            handled = True
        else:
            key2 = val(r)
    if handled:
        yield "handled-key-not-passed-on", len(user) == 0 and len(clears) == 0
    elif bool(command_of(key2) == "redraw screen"):
        yield "redraw-command-clears-the-screen", len(clears) == 1 and len(user) == 0
    else:
        yield "unhandled-key-passed-to-unhandled_input-once", len(user) == (1 if has_unhandled else 0) and len(clears) == 0
        if user:
            yield "as-returned-by-the-widget", eq(user[0][2][0], key2)


process_input.log_event = "process_input"
# at a call site (MainLoop._update): process_input may assign self.screen_size (it asks the screen when the size is
# not known) - frame it, and hand the caller the postcondition proved above
process_input.modifies = ("screen_size",)
process_input.ensures_callee = staticmethod(lambda old, s, a, result: (("size-known-afterwards", neg(is_none(s.screen_size))),))
process_input.on_raise_callee = staticmethod(lambda old, s, a, exc: ())


def _update_setup(st, self_obj, vals):
    f = self_obj.fields["_input_filter"]
    f.val.meta["role"] = "filter"
    st.ghost["filtered_keys"] = fresh_keys(st, "filtered")


@contract(ML + "MainLoop._update", property="C12", replayable=False, inline=(ML + "MainLoop.input_filter",), abstract_contains=True)
class ml_update:
    self_shape = MAINLOOP
    params = dict(keys=Custom(fresh_keys, "keys"), raw=Opaque("RawCodes"))
    raises = (BaseException,)
    setup = staticmethod(_update_setup)

    def ensures(old, s, a, result):
        yield from _update_claims(old, s, a)
        st = cur()
        batch = a.keys if is_none(old._input_filter) else st.ghost["filtered_keys"]
        procs = [e for e in s.trace if e[0] == "process_input"]
        # "each input event is passed ... to the topmost widget": the batch may be withheld from process_input only
        # when it holds nothing to route (empty, or nothing but resize markers)
        if not procs:
            yield "events-withheld-from-process_input-only-when-nothing-to-route", only_resizes(batch)
        # "redrawn from the resulting widget state before the loop next waits": a resize ANYWHERE in the batch
        # (alone, or among keys / mouse events) makes the loop forget the cached size, so that the idle redraw
        # (draw_screen, below) asks the screen for its current size
        yield "resize-anywhere-in-the-batch-forgets-the-cached-size", implies(holds_resize(batch), is_none(s.screen_size))

    def on_raise(old, s, a, exc):
        yield from _update_claims(old, s, a)
        yield "callback-exception-propagates-unchanged", exc.cls is BaseException


def _update_claims(old, s, a):
    if True:
        st = cur()
        user = [e for e in st.trace if e[0] == "userfn"]
        procs = [e for e in s.trace if e[0] == "process_input"]
        if is_none(old._input_filter):
            yield "no-filter-keys-go-straight-to-process_input", len(user) == 0 and all(p[1] is a.keys for p in procs if len(p) > 1 and p[1] != "raised")
        else:
            yield "input-filter-first-and-once-per-batch", len(user) == 1 and user[0][2][0] is a.keys and user[0][2][1] is a.raw
            yield "process_input-gets-the-filtered-events", all(p[1] is st.ghost["filtered_keys"] for p in procs if len(p) > 1 and p[1] != "raised")
        yield "process_input-at-most-once", len(procs) <= 1


PROTOCOLS["RawCodes"] = type("RC", (Protocol,), {"kind": "RawCodes", "methods": {}})()


# ---- redraw on idle, and the screen start/stop protocol

def _redraw_claims(old, s):
    """One redraw (MainLoop.draw_screen): the topmost widget is rendered in focus and that canvas is painted, at the
    size the loop has cached - or, when the cached size was forgotten (start of the session, or a batch with a
    resize: MainLoop._update above), at the size the screen reports NOW, asked for before rendering."""
    st = cur()
    calls = [e for e in st.trace if e[0] == "call"]
    draws = [e for e in calls if e[1].kind == "Screen" and e[2] == "draw_screen"]
    renders = [e for e in calls if e[1].kind == "Widget" and e[2] == "render"]
    asks = [e for e in calls if e[1].kind == "Screen" and e[2] == "get_cols_rows"]
    yield "redraws-from-the-current-widget-state", len(draws) == 1 and len(renders) == 1
    if not (draws and renders):
        return
    yield "topmost-widget-rendered-in-focus-at-the-screen-size", both(renders[0][1] is old._topmost_widget, eq(renders[0][3]["focus"], True), eq(renders[0][3]["size"], draws[0][3]["size"]), draws[0][3]["canvas"] is renders[0][4])
    yield "rendered-then-painted", calls.index(renders[0]) < calls.index(draws[0])
    before = [e for e in asks if calls.index(e) < calls.index(renders[0])]
    painted = draws[0][3]["size"]
    if is_none(old.screen_size):
        yield "forgotten-size-asked-from-the-screen-before-rendering", len(before) >= 1
    if before:
        yield "painted-at-the-size-the-screen-reports-now", eq(painted, before[-1][4])
    else:
        # no fresh answer: only the cached size can be right (no resize was seen since it was cached)
        yield "painted-at-the-cached-size", (not is_none(old.screen_size)) and eq(painted, val(old.screen_size))
    # (asking again although a size is cached, or not caching the answer, is allowed: the statement does not care)
    if not is_none(s.screen_size):
        yield "cache-holds-nothing-but-the-size-painted", eq(val(s.screen_size), painted)


@contract(ML + "MainLoop.draw_screen", property="C12", replayable=False)
class draw_screen:
    self_shape = MAINLOOP
    raises = (BaseException,)

    def ensures(old, s, a, result):
        yield from _redraw_claims(old, s)

    # at a call site (entering_idle): one logged redraw; it may cache the size it asked for
    log_event = "draw_screen"
    modifies = ("screen_size",)

    def ensures_callee(old, s, a, result):
        return ()

    def on_raise_callee(old, s, a, exc):
        return ()


@contract(ML + "MainLoop.entering_idle", property="C12", replayable=False)
class entering_idle:
    self_shape = MAINLOOP
    raises = (BaseException,)

    def ensures(old, s, a, result):
        st = cur()
        started = PROTOCOLS["Screen"].uf_value(st, ".started", old.screen, [], Bool, 0)
        draws = [e for e in st.trace if e[0] == "call" and e[1].kind == "Screen" and e[2] == "draw_screen"]
        renders = [e for e in st.trace if e[0] == "call" and e[1].kind == "Widget" and e[2] == "render"]
        # before the loop waits again: exactly one redraw (MainLoop.draw_screen, contract above) on a started screen
        yield "nothing-painted-except-through-draw_screen", len(draws) == 0 and len(renders) == 0
        if started:
            yield "redraws-from-the-current-widget-state", count_ev(s.trace, "draw_screen") == 1
        else:
            yield "no-drawing-on-a-stopped-screen", count_ev(s.trace, "draw_screen") == 0


PROTOCOLS["Widget"].methods["render"].raises_any = False

from urwid.display import common as _common  # noqa: E402

DCM = "urwid/display/common.py:"
BASESCREEN = Obj(_common.BaseScreen, dict(_started=Bool))


@contract(DCM + "BaseScreen._start", property=(), assumed=True, notes="subclass hook (terminal mode changes): logged")
class bs__start:
    self_shape = BASESCREEN
    log_event = "_start"

    def requires(s, a):
        # started-before-the-start-hook-runs: the hook announces the screen's input descriptors
        # (INPUT_DESCRIPTORS_CHANGED -> MainLoop._reset_input_descriptors -> Screen.get_input_descriptors, which
        # reports the tty and the resize pipe exactly when the screen counts as started): owed by BaseScreen.start
        return s._started == True  # noqa: E712


@contract(DCM + "BaseScreen._stop", property=(), assumed=True, notes="subclass hook (terminal mode restoration): logged")
class bs__stop:
    self_shape = BASESCREEN
    log_event = "_stop"


def _bs_real(ip, st, f, args, kwargs):
    if f is StoppingContext:
        return None
    return NotImplemented


@contract(DCM + "BaseScreen.start", property="C12", replayable=False)
class bs_start:
    self_shape = BASESCREEN
    call_real = staticmethod(_bs_real)
    no_xcheck = "call_real models StoppingContext(self) (the return value, a context manager) as None"

    def ensures(old, s, a, result):
        yield "started-afterwards", s._started == True  # noqa: E712
        yield "terminal-set-up-exactly-when-it-was-not-started", count_ev(s.trace, "_start") == (0 if bool(old._started) else 1)


@contract(DCM + "BaseScreen.stop", property="C12", replayable=False)
class bs_stop:
    self_shape = BASESCREEN

    def ensures(old, s, a, result):
        yield "stopped-afterwards", s._started == False  # noqa: E712
        yield "terminal-restored-exactly-when-it-was-started", count_ev(s.trace, "_stop") == (1 if bool(old._started) else 0)
        yield "idempotent", True


# ---- terminal modes: Screen._start / Screen._stop of the POSIX raw display

import os as _os  # noqa: E402
import termios as _termios  # noqa: E402
import tty as _tty  # noqa: E402
from urwid.display import _posix_raw_display as _prd  # noqa: E402
from urwid.display import _raw_display_base as _rdb  # noqa: E402
from urwid.display import escape as _esc  # noqa: E402

PRD = "urwid/display/_posix_raw_display.py:"
RDB = "urwid/display/_raw_display_base.py:"
MODES = ("m_alt", "m_paste", "m_focus", "m_mouse", "m_cbreak", "m_signals", "m_cursor_hidden")
# the modes that are switched by escape sequences travelling through the output stream (the others are set by
# ioctl / signal(): immediate)
WMODES = ("m_alt", "m_paste", "m_focus", "m_mouse", "m_cursor_hidden")
# Ghost state of the output path.  `m_X` is the mode X of the TERMINAL, i.e. as of the bytes that have ARRIVED there.
# Bytes written to the screen's output stream but not flushed yet are in the stream's buffer: per mode the last
# pending switch is what counts (`p_X_set`: one is pending, `p_X_val`: to which value) - switches of different
# modes commute.
PENDING = tuple(f"p_{m[2:]}_{k}" for m in WMODES for k in ("set", "val"))
RAWSCREEN = Obj(_prd.Screen, dict(
    bracketed_paste_mode=Bool, focus_reporting=Bool, _alternate_buffer=Bool, _mouse_tracking_enabled=Bool,
    _rows_used=Opt(Int), maxrow=Opt(Int), _next_timeout=Opt(Int), max_wait=Opt(Int), _signal_keys_set=Bool,
    _old_signal_keys=Opt(Tup(Int, Int, Int, Int, Int)), _old_termios_settings=Opt(Opaque("Termios")), input_fd=Opt(Int),
    _term_output_file=Opaque("OutStream"), screen_buf=Opt(Opaque("ScreenBuf")), out_unbuffered=Bool, _started=Bool,
    **{m: Bool for m in MODES}, **{p: Bool for p in PENDING}))

# effect table of the escape constants on the ghost mode set (what a VT100/xterm does with them)
EFFECTS = [
    (_esc.SWITCH_TO_ALTERNATE_BUFFER, "m_alt", True), (_esc.RESTORE_NORMAL_BUFFER, "m_alt", False),
    (_esc.ENABLE_BRACKETED_PASTE_MODE, "m_paste", True), (_esc.DISABLE_BRACKETED_PASTE_MODE, "m_paste", False),
    (_esc.ENABLE_FOCUS_REPORTING, "m_focus", True), (_esc.DISABLE_FOCUS_REPORTING, "m_focus", False),
    (_esc.MOUSE_TRACKING_ON, "m_mouse", True), (_esc.MOUSE_TRACKING_OFF, "m_mouse", False),
    (_esc.HIDE_CURSOR, "m_cursor_hidden", True), (_esc.SHOW_CURSOR, "m_cursor_hidden", False),
]


def _pend(m):
    return f"p_{m[2:]}_set", f"p_{m[2:]}_val"


def eventual(s, m):
    """Mode m of the terminal once everything written so far has arrived (= after a flush)."""
    if m not in WMODES:
        return s.fields[m]
    ps, pv = _pend(m)
    return V.ite(s.fields[ps], s.fields[pv], s.fields[m])


class OutStreamProtocol(Protocol):
    """The screen's output stream (`Screen._term_output_file`, sys.stdout by default: a BUFFERED text stream) with
    the terminal at its far end.  Trusted: (1) stream semantics - write() appends to the stream's buffer, nothing
    reaches the terminal before flush(), flush() delivers the whole buffer in order [the adversarial case; a stream
    that delivers earlier (`out_unbuffered`, a symbolic flag of the pre-state) hands every write straight on];
    (2) the effect table EFFECTS: what a VT100/xterm does with the escape constants, applied in textual order.
    Screen.write / Screen.flush themselves are NOT assumed: their bodies are inlined into _start / _stop."""

    kind = "OutStream"
    methods = {"write": PMethod(None, params=["data"]), "flush": PMethod(None, params=[])}

    def call(self, ip, st, recv, name, args, kwargs):
        o = st.ghost["screen_obj"]
        if kwargs or len(args) != (1 if name == "write" else 0):
            raise PyRaise(SExc(TypeError, (f"{name}: bad arguments",)))
        if name == "write":
            data = args[0]
            if not isinstance(data, str):
                raise Unsupported("write of non-constant data to the output stream")
            direct = bool(o.fields["out_unbuffered"])
            hits = sorted((data.find(k), k, f, v) for k, f, v in EFFECTS if k in data)
            for _pos, _k, f, v in hits:
                if direct:
                    o.fields[f] = v
                else:
                    ps, pv = _pend(f)
                    o.fields[ps], o.fields[pv] = True, v
        else:
            for m in WMODES:
                ps, pv = _pend(m)
                o.fields[m] = eventual(o, m)
                o.fields[ps] = False
        st.event("call", recv, name, {"data": args[0]} if args else {}, None)
        return None


PROTOCOLS["OutStream"] = OutStreamProtocol()
PROTOCOLS["ScreenBuf"] = type("SB", (Protocol,), {"kind": "ScreenBuf", "methods": {}})()


for _name, _field, _val in (("signal_init", "m_signals", True), ("signal_restore", "m_signals", False)):
    @contract(PRD + f"Screen.{_name}", property=(), assumed=True, notes="installs / restores SIGWINCH, SIGCONT, SIGTSTP handlers: ghost flag")
    class _sig:
        self_shape = RAWSCREEN
        _f, _v = _field, _val

        def effects(old, s, a, result, _f=_field, _v=_val):
            s.fields[_f] = _v

for _name in ("_start_gpm_tracking", "_stop_gpm_tracking"):
    @contract(PRD + f"Screen.{_name}", property=(), assumed=True, notes="gpm mouse helper process on the Linux console: outside the terminal mode set")
    class _gpm:
        self_shape = RAWSCREEN


@contract("urwid/display/common.py:RealTerminal.tty_signal_keys", property=(), assumed=True, notes="tty signal keys: saved/restored through the same call; not part of the mode set tracked here")
class scr_tsk:
    self_shape = RAWSCREEN
    result = Tup(Int, Int, Int, Int, Int)


@contract(RDB + "Screen._input_fileno", property=(), assumed=True, notes="the input descriptor or None")
class scr_fileno:
    self_shape = RAWSCREEN
    pure_spec = staticmethod(lambda old, a: old.input_fd)


@contract(RDB + "Screen._attrspec_to_escape", property=(), assumed=True, notes="an SGR sequence (C17 owns its content); contains no mode-changing sequence")
class scr_a2e:
    self_shape = RAWSCREEN
    pure_spec = staticmethod(lambda old, a: "\x1b[0;39;49m")


PROTOCOLS["Termios"] = type("TP", (Protocol,), {"kind": "Termios", "methods": {}})()
PROTOCOLS["SignalKeys"] = type("SK", (Protocol,), {"kind": "SignalKeys", "methods": {}})()
_ISATTY = z3.Function("os.isatty", z3.IntSort(), z3.BoolSort())


def _tty_real(ip, st, f, args, kwargs):
    from urwid.display.common import AttrSpec
    o = st.ghost["screen_obj"]
    if f is _os.isatty:
        return mk_bool(_ISATTY(V._z(args[0])))
    if f is _termios.tcgetattr:
        return V.SOpaque("Termios", z3.Const("saved_termios", S.opaque_sort("Termios")))
    if f is _tty.setcbreak:
        o.fields["m_cbreak"] = True
        return None
    if f is _termios.tcsetattr:
        # restoring the settings saved by _start undoes cbreak mode
        saved = V.SOpaque("Termios", z3.Const("saved_termios", S.opaque_sort("Termios")))
        if bool(opt_eq(args[2], saved)):
            o.fields["m_cbreak"] = False
        return None
    if f is AttrSpec:
        return "<default attrspec>"
    owner = getattr(f, "__self__", None)
    if owner is _signals_mod._signals and getattr(f, "__name__", "") == "emit":
        # (delivery: C14.)  Logged with what a handler asking the screen for its descriptors would see at this moment
        # (MainLoop._reset_input_descriptors -> hook_event_loop -> get_input_descriptors: `_started` decides)
        st.event("emit", args[0] if args else None, args[1] if len(args) > 1 else None, o.fields["_started"])
        return False
    return NotImplemented


def _scr_setup(st, self_obj, vals):
    st.ghost["screen_obj"] = self_obj


def modes(s):
    return {m: s.fields[m] for m in MODES}


_OUT = (RDB + "Screen.write", RDB + "Screen.flush", RDB + "Screen.clear")


def nothing_pending(s):
    return both(*[neg(s.fields[_pend(m)[0]]) for m in WMODES])


@contract(PRD + "Screen._start", property="C12", replayable=False, inline=(RDB + "Screen._mouse_tracking", PRD + "Screen._mouse_tracking", RDB + "Screen._start", "urwid/display/common.py:BaseScreen._start", *_OUT))
class scr__start:
    self_shape = RAWSCREEN
    params = dict(alternate_buffer=Bool)
    setup = staticmethod(_scr_setup)
    call_real = staticmethod(_tty_real)

    def requires(s, a):
        # a terminal in its initial modes, nothing on its way to it; the screen already counts as started
        # (BaseScreen.start owes that to its hook: contract of BaseScreen._start above)
        return both(*[neg(s.fields[m]) for m in MODES], nothing_pending(s), s._started == True)  # noqa: E712

    def ensures(old, s, a, result):
        # (_start need not flush: the modes are those the terminal has once the bytes written have arrived)
        tty = (not is_none(old.input_fd)) and bool(mk_bool(_ISATTY(V._z(val(old.input_fd)))))
        yield "alternate-buffer-iff-asked", both(eq(eventual(s, "m_alt"), a.alternate_buffer), eq(s._alternate_buffer, a.alternate_buffer))
        yield "paste-and-focus-reporting-iff-configured", both(eq(eventual(s, "m_paste"), old.bracketed_paste_mode), eq(eventual(s, "m_focus"), old.focus_reporting))
        yield "mouse-tracking-as-last-set", eq(eventual(s, "m_mouse"), old._mouse_tracking_enabled)
        yield "cbreak-iff-tty", eq(s.m_cbreak, tty)
        yield "signal-handlers-installed", s.m_signals == True  # noqa: E712
        if tty:
            yield "old-tty-settings-saved", neg(is_none(s._old_termios_settings))
        # a (re)start inside a running loop - after shelling out, on SIGCONT - must get the terminal input and the
        # resize pipe watched again: the loop is told that the descriptors changed, at a moment when the screen
        # reports them (get_input_descriptors: nothing while `_started` is False)
        emits = [e for e in cur().trace if e[0] == "emit"]
        yield "input-descriptors-announced-once", len(emits) == 1 and emits[0][1] is s and emits[0][2] == _common_INPUT_DESCRIPTORS_CHANGED
        if emits:
            yield "announced-while-the-screen-reports-its-descriptors", emits[-1][3] == True  # noqa: E712
        yield "still-started", s._started == True  # noqa: E712


@contract(PRD + "Screen._stop", property="C12", replayable=False,
          inline=(RDB + "Screen._mouse_tracking", PRD + "Screen._mouse_tracking", RDB + "Screen._stop_mouse_restore_buffer", RDB + "Screen._stop", "urwid/display/common.py:BaseScreen._stop", *_OUT))
class scr__stop:
    self_shape = RAWSCREEN
    setup = staticmethod(_scr_setup)
    call_real = staticmethod(_tty_real)

    def requires(s, a):
        # the state _start leaves behind (its postcondition), options unchanged since; how much of what was written
        # during the session has reached the terminal is arbitrary (any split between `m_X` and the pending switch)
        tty = (not is_none(s.input_fd)) and bool(mk_bool(_ISATTY(V._z(val(s.input_fd)))))
        saved = V.SOpaque("Termios", z3.Const("saved_termios", S.opaque_sort("Termios")))
        return both(eq(eventual(s, "m_alt"), s._alternate_buffer), eq(eventual(s, "m_paste"), s.bracketed_paste_mode),
                    eq(eventual(s, "m_focus"), s.focus_reporting),
                    eq(s.m_cbreak, tty), s.m_signals == True,  # noqa: E712
                    implies(tty, opt_eq(s._old_termios_settings, saved)),
                    implies(s.out_unbuffered, nothing_pending(s)))  # (a stream that never holds anything back)

    def ensures(old, s, a, result):
        # "leaving the terminal in its initial modes": when _stop returns - not at some later flush that may never
        # happen (exec, kill, crash) - the terminal HAS the initial modes, judged by the bytes that reached it ...
        for m in MODES:
            yield f"initial-mode-restored/{m[2:]}", s.fields[m] == False  # noqa: E712
        # ... and nothing still sitting in the output buffer will take it out of them again
        for m in WMODES:
            yield f"nothing-pending-that-changes/{m[2:]}", eventual(s, m) == False  # noqa: E712


@contract("urwid/display/escape.py:set_cursor_position", property=(), assumed=True, notes="a cursor-addressing sequence ESC[r;cH (C04 owns its format); contains no mode-changing sequence")
class esc_scp:
    params = dict(x=Int, y=Int)
    pure_spec = staticmethod(lambda a: "\x1b[<row>;<col>H")


# ---- input descriptors: what the event loop watches follows the screen's start / stop ("each input event is passed
# ..." also after the display was stopped and started again inside run(): shelling out, job-control suspend / resume)

@contract(ML + "MainLoop._reset_input_descriptors", property="C12", replayable=False)
class ml_reset_input_descriptors:
    """The handler of the screen's INPUT_DESCRIPTORS_CHANGED signal (connected by MainLoop.start)."""
    self_shape = MAINLOOP

    def requires(s, a):
        # MainLoop.start connects it only for a screen with event-loop support (it raises CantUseExternalLoop before)
        return PROTOCOLS["Screen"].hasattr(None, cur(), s.screen, "hook_event_loop")

    def ensures(old, s, a, result):
        st = cur()
        calls = [e for e in st.trace if e[0] == "call"]
        yield "old-watches-removed-then-the-screen-hooked-again", [e[2] for e in calls] == ["unhook_event_loop", "hook_event_loop"] and all(e[1] is old.screen for e in calls)
        if len(calls) == 2:
            yield "on-the-loops-own-event-loop", calls[0][3]["event_loop"] is old.event_loop and calls[1][3]["event_loop"] is old.event_loop
            cb = calls[1][3]["callback"]
            yield "input-goes-to-MainLoop._update", getattr(getattr(cb, "ref", None), "qualname", "") == "MainLoop._update" and getattr(cb, "bound", None) is s

    def ensures_callee(old, s, a, result):
        return ()


# ---- the descriptors the screen asks the event loop to watch

# the resize socket / the terminal input stream / the gpm helper's output: objects with a fileno(), not ints
PROTOCOLS["Sock"] = type("SockP", (Protocol,), {"kind": "Sock", "methods": {"fileno": PMethod(Int, params=[])}})()
PROTOCOLS["InStream"] = type("InP", (Protocol,), {"kind": "InStream", "methods": {"fileno": PMethod(Int, params=[])}})()
PROTOCOLS["Sock"].isinstance = PROTOCOLS["InStream"].isinstance = lambda ip, st, obj, cls: False
DESCR_FIELDS = dict(_started=Bool, _resize_pipe_rd=Opaque("Sock"), input_io=Opt(Opaque("InStream")))
DSCREEN_BASE = Obj(_rdb.Screen, DESCR_FIELDS)


@contract(RDB + "Screen._term_input_io", property=(), assumed=True, notes="the input stream if it has a fileno(), else None (a property over hasattr): ghost field input_io")
class scr_input_io:
    self_shape = DSCREEN_BASE
    result = Opt(Opaque("InStream"))
    pure_spec = staticmethod(lambda old, a: old.input_io)


def _descriptor_claims(old, result, extra=()):
    """`result` = what the screen wants watched: nothing while it is stopped; the resize pipe (through which SIGWINCH
    reaches the loop) and the terminal input whenever it counts as started."""
    n = Q.seq_len(result)
    want = [old._resize_pipe_rd] + ([val(old.input_io)] if not is_none(old.input_io) else []) + list(extra)
    if not bool(old._started):
        yield "nothing-to-watch-while-stopped", n == 0
    else:
        # (the list is built element by element: its length is concrete on every path)
        same = isinstance(n, int) and n == len(want)
        yield "resize-pipe-and-terminal-input-while-started", both(same, *[eq(Q.seq_get(result, i), w) for i, w in enumerate(want) if same])


import subprocess as _subprocess  # noqa: E402

GPM = Obj(_subprocess.Popen, dict(stdout=Opt(Opaque("InStream"))))
DSCREEN = Obj(_prd.Screen, dict(gpm_mev=Opt(GPM), **DESCR_FIELDS))


@contract(PRD + "Screen.get_input_descriptors", property="C12", replayable=False, inline=(RDB + "Screen.get_input_descriptors",))
class scr_get_input_descriptors:
    """Both bodies (the POSIX screen's and, through super(), the one of _raw_display_base.Screen, executed in line):
    the resize pipe and the terminal input, plus the output of the gpm mouse helper (Linux console) when one runs."""
    self_shape = DSCREEN
    result = ListOf(Opaque("InStream"))

    def ensures(old, s, a, result):
        extra = []
        if not is_none(old.gpm_mev) and not is_none(val(old.gpm_mev).stdout):
            extra = [val(val(old.gpm_mev).stdout)]
        yield from _descriptor_claims(old, result, extra)

    def ensures_callee(old, s, a, result):
        return ()


def _descriptors_now(old, a):
    """What get_input_descriptors answers in the state `old` (its postcondition above, as a value)."""
    if not bool(old._started):
        return Q.LRef(())
    out = [old._resize_pipe_rd]
    if not is_none(old.input_io):
        out.append(val(old.input_io))
    if not is_none(old.gpm_mev) and not is_none(val(old.gpm_mev).stdout):
        out.append(val(val(old.gpm_mev).stdout))
    return Q.LRef(tuple(out))


scr_get_input_descriptors.pure_spec = staticmethod(_descriptors_now)

HSCREEN = Obj(_prd.Screen, dict(gpm_mev=Opt(GPM), _current_event_loop_handles=ListOf(Int), **DESCR_FIELDS))


@contract(PRD + "Screen.hook_event_loop", property="C12", replayable=False)
class scr_hook_event_loop:
    self_shape = HSCREEN
    params = dict(event_loop=Opaque("EventLoop"), callback=Opaque("UserFn"))

    def ensures(old, s, a, result):
        st = cur()
        want = list(_descriptors_now(old, a).seq)
        watches = [e for e in st.trace if e[0] == "call" and e[2] == "watch_file"]
        filenos = [e for e in st.trace if e[0] == "call" and e[2] == "fileno"]
        n = len(want)
        # "each input event is passed ...": it can only be passed on if the loop watches where it arrives
        yield "one-watch-per-descriptor-the-screen-reports-now", len(watches) == n and len(filenos) == n
        if len(watches) == n and len(filenos) == n:
            yield "on-the-given-event-loop-in-order", both(*[both(w[1] is a.event_loop, eq(f[1], d), eq(w[3]["fd"], f[4])) for w, f, d in zip(watches, filenos, want)])
            cbs = [w[3]["callback"] for w in watches]
            yield "input-goes-through-the-screens-parser-to-the-callback", all(getattr(getattr(cb, "ref", None), "qualname", "").endswith("hook_event_loop.<wrapper>") for cb in cbs)
            hs = s._current_event_loop_handles
            same = Q.seq_len(hs) == n if isinstance(Q.seq_len(hs), int) else False
            yield "handles-kept-for-unhook", both(same, *[eq(Q.seq_get(hs, i), w[4]) for i, w in enumerate(watches) if same])


USCREEN = Obj(_prd.Screen, dict(_current_event_loop_handles=ListOf(Int), _input_timeout=Opt(Opaque("AlarmHandle"))))


def _unhook_inv(v):
    st = cur()
    hs = v.self._current_event_loop_handles
    # the loop runs over ALL the handles hook_event_loop kept (same length, and - at the arbitrary index - same element)
    yield "over-all-the-remembered-handles", both(Q.seq_len(v.iter_) == Q.seq_len(hs), implies(both(0 <= v.i_, v.i_ < Q.seq_len(hs)), eq(Q.seq_get(v.iter_, v.i_), Q.seq_get(hs, v.i_))))
    if v.trace_mark_ is None:
        return
    # one arbitrary iteration: exactly the watch whose handle it is is taken from the given loop
    calls = [e for e in st.trace[v.trace_mark_:] if e[0] == "call"]
    yield "each-remembered-watch-is-removed", len(calls) == 1 and calls[0][2] == "remove_watch_file" and calls[0][1] is v.event_loop and bool(eq(calls[0][3]["handle"], st.ghost["loop_elem"]))


@contract(PRD + "Screen.unhook_event_loop", property="C12", replayable=False)
class scr_unhook_event_loop:
    self_shape = USCREEN
    params = dict(event_loop=Opaque("EventLoop"))
    loops = {0: Loop(invariant=_unhook_inv)}

    def ensures(old, s, a, result):
        st = cur()
        rm = [e for e in st.trace if e[0] == "call" and e[2] == "remove_alarm"]
        # the alarm that waits for the rest of an incomplete escape sequence goes too (exactly when one is pending)
        if is_none(old._input_timeout):
            yield "no-alarm-to-remove", len(rm) == 0
        else:
            yield "pending-input-timeout-removed", len(rm) == 1 and rm[0][1] is a.event_loop and bool(eq(rm[0][3]["handle"], val(old._input_timeout))) and is_none(s._input_timeout)
