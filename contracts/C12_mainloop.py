"""C12 — MainLoop: exit/exception contracts of _run/run/start/stop and input routing order.
Screens, event loops, widgets and user callbacks are opaque; only user callbacks (which run inside
event_loop.run() / _run_screen_event_loop()) may raise, as the statement says."""
import z3

from pyvc import seqs as Q
from pyvc import shapes as S
from pyvc import values as V
from pyvc.api import *
from pyvc.api import PROTOCOLS
from pyvc.engine import PyRaise, SExc
from pyvc.protocol import PMethod, Protocol
from pyvc.values import cur, mk_bool
from contracts.proto_widget import COMMAND_MAP, command_of

from urwid.event_loop import main_loop as _ml
from urwid.event_loop.abstract_loop import ExitMainLoop
from urwid.event_loop.main_loop import CantUseExternalLoop
from urwid import signals as _signals_mod
from urwid.util import StoppingContext

ML = "urwid/event_loop/main_loop.py:"


class ScreenProtocol(Protocol):
    kind = "Screen"
    methods = {
        "start": PMethod(None, params=[]),
        "stop": PMethod(None, params=[]),
        "set_mouse_tracking": PMethod(None, params=[]),
        "hook_event_loop": PMethod(None, params=["event_loop", "callback"]),
        "unhook_event_loop": PMethod(None, params=["event_loop"]),
        "get_cols_rows": PMethod(Tup(Int(1, 2**16), Int(1, 2**16)), params=[]),
        "clear": PMethod(None, params=[]),
        "draw_screen": PMethod(None, params=["size", "canvas"]),
    }
    attrs = {"started": Bool}
    has = {"hook_event_loop": "uf"}


class EventLoopProtocol(Protocol):
    kind = "EventLoop"
    methods = {
        "enter_idle": PMethod(Int, params=["callback"]),
        "remove_enter_idle": PMethod(Bool, params=["handle"]),
        "alarm": PMethod(Opaque("AlarmHandle"), params=["seconds", "callback"]),
        # user callbacks run in here: it may raise anything (ExitMainLoop or any other exception)
        "run": PMethod(None, params=[], raises_any=(ExitMainLoop, BaseException)),
    }


PROTOCOLS["Screen"] = ScreenProtocol()
PROTOCOLS["EventLoop"] = EventLoopProtocol()
PROTOCOLS["AlarmHandle"] = type("AH", (Protocol,), {"kind": "AlarmHandle", "methods": {}})()

MAINLOOP = Obj(_ml.MainLoop, dict(
    screen=Opaque("Screen"), event_loop=Opaque("EventLoop"), handle_mouse=Bool, idle_handle=Int,
    _topmost_widget=Opaque("Widget"), screen_size=Opt(Tup(Int(1, 2**16), Int(1, 2**16))),
    _input_filter=Opt(Opaque("UserFn")), _unhandled_input=Opt(Opaque("UserFn"))))


def _real(ip, st, f, args, kwargs):
    if f is StoppingContext:
        return None
    name = getattr(f, "__name__", "")
    owner = getattr(f, "__self__", None)
    if owner is _signals_mod._signals and name in ("connect", "disconnect"):
        st.event("signal", name)  # signal wiring of the screen: verified under C14; no effect on this property
        return None
    return NotImplemented


def screen_calls(st):
    return [ev[2] for ev in st.trace if ev[0] == "call" and ev[1].kind == "Screen" and ev[2] in ("start", "stop")]


def restored(st):
    """The screen trace ends with stop() after the last start() (and it was started at all)."""
    sc = screen_calls(st)
    return bool(sc) and sc[-1] == "stop" and "start" in sc


@contract(ML + "MainLoop.start", property="C12", replayable=False, inline=(ML + "MainLoop._reset_input_descriptors",))
class ml_start:
    self_shape = MAINLOOP
    raises = (CantUseExternalLoop,)
    call_real = staticmethod(_real)
    modifies = ("idle_handle",)

    def ensures(old, s, a, result):
        st = cur()
        names = [ev[2] for ev in st.trace if ev[0] == "call"]
        yield "screen-started-first", bool(names) and names[0] == "start"
        yield "input-hooked-and-idle-redraw-registered", "hook_event_loop" in names and "enter_idle" in names and "alarm" in names
        yield "mouse-tracking-only-if-asked", eq("set_mouse_tracking" in names, old.handle_mouse)

    def on_raise(old, s, a, exc):
        st = cur()
        yield "only-for-screens-without-external-loop-support", neg(PROTOCOLS["Screen"].hasattr(None, st, old.screen, "hook_event_loop"))
        yield "screen-was-started", screen_calls(st) == ["start"]

    log_event = "start"

    def ensures_callee(old, s, a, result):
        return ()

    raises_iff = {CantUseExternalLoop: lambda s, a: neg(PROTOCOLS["Screen"].hasattr(None, cur(), s.screen, "hook_event_loop"))}

    def effects(old, s, a, result):
        cur().event("call", old.screen, "start", {}, None)

    def effects_raise(s, a, exc):
        cur().event("call", s.screen, "start", {}, None)


@contract(ML + "MainLoop.stop", property="C12", replayable=False)
class ml_stop:
    self_shape = MAINLOOP
    call_real = staticmethod(_real)

    def ensures(old, s, a, result):
        st = cur()
        names = [ev[2] for ev in st.trace if ev[0] == "call"]
        yield "hooks-removed-then-screen-stopped", names == ["remove_enter_idle", "unhook_event_loop", "stop"]

    log_event = "stop"

    def ensures_callee(old, s, a, result):
        return ()

    def effects(old, s, a, result):
        cur().event("call", old.screen, "stop", {}, None)


@contract(ML + "MainLoop._run_screen_event_loop", property=(), assumed=True, notes="the built-in loop for screens without external event-loop support: user callbacks run in here, it may raise anything (bounded check only)")
class ml_rsel:
    self_shape = MAINLOOP
    raises = (BaseException,)
    log_event = "_run_screen_event_loop"


@contract(ML + "MainLoop._run", property="C12", replayable=False)
class ml_run_:
    self_shape = MAINLOOP
    raises = (ExitMainLoop, BaseException)
    call_real = staticmethod(_real)
    log_event = "_run"

    def ensures_callee(old, s, a, result):
        return ()

    def on_raise_callee(old, s, a, exc):
        return ()

    def ensures(old, s, a, result):
        yield "display-stopped-after-being-started", restored(cur())

    def on_raise(old, s, a, exc):
        yield "display-stopped-after-being-started", restored(cur())
        yield "the-exception-raised-by-the-callback-leaves-unchanged", exc.cls in (BaseException, ExitMainLoop) and ("opaque EventLoop.run" in str(exc.site) or "callee MainLoop._run_screen_event_loop" in str(exc.site))


@contract(ML + "MainLoop.run", property="C12", replayable=False)
class ml_run:
    self_shape = MAINLOOP
    raises = (BaseException,)
    call_real = staticmethod(_real)

    def ensures(old, s, a, result):
        yield "ran-the-loop-once", count_ev(s.trace, "_run") == 1

    def on_raise(old, s, a, exc):
        yield "ExitMainLoop-never-escapes", not issubclass(exc.cls, ExitMainLoop)
        yield "anything-else-propagates-unchanged", exc.cls is BaseException and "callee MainLoop._run" in str(exc.site)


ml_run_.raises_any_split = True


# ---- input routing

class UserFnProtocol(Protocol):
    """input_filter / unhandled_input given by the user: opaque, may raise anything."""

    kind = "UserFn"
    methods = {}

    def call(self, ip, st, f, args, kwargs):
        k = st.fork(2)
        st.event("userfn", f, tuple(args))
        if k == 1:
            raise PyRaise(SExc(BaseException, ("<user callback raised>",), site="user callback"))
        if f.meta.get("role") == "filter":
            return st.ghost["filtered_keys"]
        return st.fresh_bool("handled")


PROTOCOLS["UserFn"] = UserFnProtocol()
from contracts.proto_widget import *  # noqa: E402,F401


def fresh_keys(st, hint):
    """A list of input events of symbolic length: each is the resize marker, a key string or a mouse tuple."""
    n = st.fresh_int(hint + "_len")
    st.assume(n >= 0)
    nm = st.fresh_name(hint)
    fk = z3.Function(f"{nm}$key", z3.IntSort(), S.opaque_sort("Key"))
    kind = z3.Function(f"{nm}$kind", z3.IntSort(), z3.IntSort())
    fb, fc, fr_ = (z3.Function(f"{nm}${x}", z3.IntSort(), z3.IntSort()) for x in ("button", "col", "row"))

    def getter(j):
        zj = V._z(j)
        s = cur()
        k = s.choose([kind(zj) == 0, kind(zj) == 1, z3.And(kind(zj) != 0, kind(zj) != 1)])
        if k == 0:
            return "window resize"
        if k == 1:
            return V.SOpaque("Key", fk(zj), {"str": True})
        return (V.SOpaque("Key", fk(zj), {"mouse": True}), V.mk_int(fb(zj)), V.mk_int(fc(zj)), V.mk_int(fr_(zj)))

    return Q.LRef(Q.SSeq(n, getter, None, None, "keys"))


PROTOCOLS["Key"].isinstance = lambda ip, st, obj, cls: issubclass(str, cls)
PROTOCOLS["Key"].contains = lambda st, obj, x: bool(obj.meta.get("mouse")) if x == "mouse" else False
_orig_truth = None


def _proc_real(ip, st, f, args, kwargs):
    from urwid.util import is_mouse_event
    if f is is_mouse_event:
        return isinstance(args[0], tuple) and len(args[0]) == 4
    return _real(ip, st, f, args, kwargs)


def iteration_ok(st, key, n_before):
    """What one iteration of process_input did with `key` (events after index n_before of the trace):
    widget first, unhandled_input exactly when the widget did not handle it, nothing else."""
    evs = st.trace[n_before:]
    calls = [(e[2], e) for e in evs if e[0] == "call" and e[1].kind == "Widget" and e[2] in ("keypress", "mouse_event")]
    user = [e for e in evs if e[0] == "userfn"]
    clears = [e for e in evs if e[0] == "call" and e[1].kind == "Screen" and e[2] == "clear"]
    if isinstance(key, str) and key == "window resize":
        return len(calls) == 0 and len(user) == 0 and len(clears) == 0
    return True


@contract(ML + "MainLoop.process_input", property="C12", replayable=False,
          inline=(ML + "MainLoop.unhandled_input",), globals_=dict(command_map=Const(COMMAND_MAP)))
class process_input:
    self_shape = MAINLOOP
    params = dict(keys=Custom(fresh_keys, "keys"))
    result = Bool
    raises = (BaseException,)
    call_real = staticmethod(_proc_real)

    def setup(st, self_obj, vals):
        u = self_obj.fields["_unhandled_input"]
        u.val.meta["role"] = "unhandled"

    def ensures(old, s, a, result):
        yield "size-known-afterwards", neg(is_none(s.screen_size))

    # per key (one arbitrary iteration): the obligations below are generated at the call sites
    loops = {0: Loop(invariant=lambda v: routing_invariant(v), modifies=("self.screen_size",))}


def routing_invariant(v):
    st = cur()
    yield "size-known", neg(is_none(v.self.screen_size))
    if v.trace_mark_ is None:
        return
    # one arbitrary iteration just ran: judge what it did with its key
    key = st.ghost["loop_elem"]
    evs = st.trace[v.trace_mark_:]
    wcalls = [e for e in evs if e[0] == "call" and e[1].kind == "Widget" and e[2] in ("keypress", "mouse_event")]
    user = [e for e in evs if e[0] == "userfn"]
    clears = [e for e in evs if e[0] == "call" and e[1].kind == "Screen" and e[2] == "clear"]
    size = val(v.self.screen_size)
    W = PROTOCOLS["Widget"]
    w = v.self._topmost_widget
    has_unhandled = not is_none(v.self._unhandled_input)
    if isinstance(key, str):
        yield "resize-marker-not-routed", len(wcalls) == 0 and len(user) == 0 and len(clears) == 0
        return
    if isinstance(key, tuple):
        offered = bool(W.hasattr(None, st, w, "mouse_event"))
        yield "mouse-event-offered-to-topmost-widget-once", len(wcalls) == (1 if offered else 0)
        handled = False
        if wcalls:
            a = wcalls[0][3]
            yield "with-its-coordinates-and-focus", both(wcalls[0][2] == "mouse_event", eq(a["size"], size), eq(a["event"], key[0]), a["button"] == key[1], a["col"] == key[2], a["row"] == key[3], eq(a["focus"], True))
            handled = bool(wcalls[0][4])
        if handled:
            yield "handled-mouse-event-not-passed-on", len(user) == 0 and len(clears) == 0
        else:
            yield "unhandled-mouse-event-passed-to-unhandled_input-once", len(user) == (1 if has_unhandled else 0) and len(clears) == 0
            if user:
                yield "unchanged", user[0][2][0] is key
        return
    # a key string
    selcalls = [e for e in evs if e[0] == "call" and e[1].kind == "Widget" and e[2] == "selectable"]
    yield "asks-whether-the-widget-is-selectable", len(selcalls) == 1
    sel = bool(selcalls[0][4]) if selcalls else False
    yield "key-offered-to-a-selectable-topmost-widget-once", len(wcalls) == (1 if sel else 0)
    key2 = key
    handled = False
    if wcalls:
        a = wcalls[0][3]
        yield "with-the-screen-size", both(wcalls[0][2] == "keypress", eq(a["size"], size), eq(a["key"], key))
        r = wcalls[0][4]
        if is_none(r):
            handled = True
        else:
            key2 = val(r)
    if handled:
        yield "handled-key-not-passed-on", len(user) == 0 and len(clears) == 0
    elif bool(command_of(key2) == "redraw screen"):
        yield "redraw-command-clears-the-screen", len(clears) == 1 and len(user) == 0
    else:
        yield "unhandled-key-passed-to-unhandled_input-once", len(user) == (1 if has_unhandled else 0) and len(clears) == 0
        if user:
            yield "as-returned-by-the-widget", eq(user[0][2][0], key2)


process_input.log_event = "process_input"
process_input.ensures_callee = staticmethod(lambda old, s, a, result: ())
process_input.on_raise_callee = staticmethod(lambda old, s, a, exc: ())


def _update_setup(st, self_obj, vals):
    f = self_obj.fields["_input_filter"]
    f.val.meta["role"] = "filter"
    st.ghost["filtered_keys"] = fresh_keys(st, "filtered")


@contract(ML + "MainLoop._update", property="C12", replayable=False, inline=(ML + "MainLoop.input_filter",), abstract_contains=True)
class ml_update:
    self_shape = MAINLOOP
    params = dict(keys=Custom(fresh_keys, "keys"), raw=Opaque("RawCodes"))
    raises = (BaseException,)
    setup = staticmethod(_update_setup)

    def ensures(old, s, a, result):
        yield from _update_claims(old, s, a)

    def on_raise(old, s, a, exc):
        yield from _update_claims(old, s, a)
        yield "callback-exception-propagates-unchanged", exc.cls is BaseException


def _update_claims(old, s, a):
    if True:
        st = cur()
        user = [e for e in st.trace if e[0] == "userfn"]
        procs = [e for e in s.trace if e[0] == "process_input"]
        if is_none(old._input_filter):
            yield "no-filter-keys-go-straight-to-process_input", len(user) == 0 and all(p[1] is a.keys for p in procs if len(p) > 1 and p[1] != "raised")
        else:
            yield "input-filter-first-and-once-per-batch", len(user) == 1 and user[0][2][0] is a.keys and user[0][2][1] is a.raw
            yield "process_input-gets-the-filtered-events", all(p[1] is st.ghost["filtered_keys"] for p in procs if len(p) > 1 and p[1] != "raised")
        yield "process_input-at-most-once", len(procs) <= 1


PROTOCOLS["RawCodes"] = type("RC", (Protocol,), {"kind": "RawCodes", "methods": {}})()
