"""C17 — palette registration (DESIGN.md section 6, C17: "the raw display resolves each attribute name through the palette
entry for the active colour depth ... gives the same foreground, background and style flags as the palette specifies").
`BaseScreen.register_palette_entry` / `register_palette` decide WHICH of the texts a palette entry gives ends up in the
AttrSpec recorded for each of the five colour depths.  The documented sources (docstring of register_palette_entry):

    depth 1            <- mono, None meaning 'default'   (an old-style tuple of settings is joined with commas)
    depth 16           <- foreground / background
    depth 256, 2**24   <- foreground_high / background_high, where None -- and only None -- means "use the foreground /
                          background parameter value"; '' and 'default' are colour descriptions (the default colour)
    depth 88           <- as 256, except that an 'hN' colour with N > 15 in either high field makes it the 16-colour entry

Texts are abstract strs (the character-level model of contracts/C18_colours.py); the AttrSpec constructor is used through
its VERIFIED contract (C18 `AttrSpec.__init__`: mode flags, representation invariant, how the background description is
stored).  That contract does not say how the foreground text is stored (its split loop), so for every AttrSpec built the
constructor's argument texts are also recorded (ghost), and the postconditions say from which texts each recorded spec
was built: by text for both sides, and by stored colour (kind flags and number, C18's `colour_part_clauses`) for the
background.  `signals.emit_signal` is opaque here (C14 verifies delivery; the raw display's handler is
`Screen._on_update_palette_entry`, contracts/C04_rawdisplay.py): the emission is recorded and compared."""
import z3

from pyvc import seqs as Q
from pyvc import source as SRC
from pyvc import values as V
from pyvc.api import *
from pyvc.api import REGISTRY, Contract
from pyvc.engine import PyRaise, SExc
from pyvc.shapes import Shape
from pyvc.values import SInt, cur, mk_int

from contracts.C18_colours import (ATTRSPEC_ERROR, DC, MAX_CODE, SPEC, CStr, _isint, attrspec_init, bg_number, colour_part_clauses, cs_at, cs_eq,
                                   cs_len, cs_startswith, digits_value, flag, is_dec, is_default_name, tables_setup, wf, word)

_common = SRC.module("urwid/display/common.py").real
_signals = SRC.module("urwid/signals.py").real
BASESCREEN = _common.BaseScreen
SCREEN_ERROR = _common.ScreenError
UPDATE = _common.UPDATE_PALETTE_ENTRY
ENTRY_ORDER = (16, 1, 88, 256, 2**24)  # the order of the five specs in a palette entry and in the signal's arguments
COMMA = 44


# ---------------------------------------------------------------------------------------------------------------
# Palette texts: C18's modelled str plus what `large_h` does with it -- `"," in s`, `s.split(",", 1)[0]`,
# `int(s[1:], 10)`.
#   * Every str has a position c of its first comma (c == len when it has none): 0 <= c <= len, s[c] == ',' when
#     c < len, no comma below c.  The last fact is instantiated at the index terms read (each `at(j)` states it for j).
#   * int(s, 10) on a (slice of a) palette text: exactly the value of the digits when s is 1..3 ASCII decimal digits;
#     for EVERY other s either ValueError or some unspecified int (a sound over-approximation of CPython's int(): it
#     also accepts longer numerals, signs, blanks, underscores, non-ASCII digits -- nothing can be proved from those).
#     (C18's `cs_int` is exact for up to 8 digits at the price of a fork per length; the palette contract needs the
#     number only to compare it with 15.)  Cross-check against CPython: static check `palette-text-model-agrees-with-cpython`.
# ---------------------------------------------------------------------------------------------------------------
class PStr(CStr):
    py_class = str

    def __init__(self, n, at, comma=None):
        super().__init__(n, at)
        self.comma = comma

    def py_getitem(self, ip, st, idx):
        r = super().py_getitem(ip, st, idx)
        return PStr(r.n, r.at)

    def py_contains(self, ip, st, x):
        if x == "," and self.comma is not None:
            return self.comma < self.n
        raise Unsupported(f"{x!r} in <palette text>")

    def py_call(self, ip, st, name, args, kwargs):
        if name == "split" and args == [",", 1] and not kwargs and self.comma is not None:
            c, n = self.comma, self.n
            head = PStr(c, self.at)
            if st.branch(c < n):
                return Q.LRef((head, PStr(n - c - 1, lambda j: self.at(c + 1 + j))))
            return Q.LRef((head,))
        return super().py_call(ip, st, name, args, kwargs)

    def py_int_base(self, ip, st, base):
        if base != 10:
            raise Unsupported("int(<palette text>, base) for a base other than 10")
        wf_, value = decimal_numeral(self)
        if st.branch(wf_):
            return value
        if st.fork(2) == 0:
            raise PyRaise(SExc(ValueError, ("invalid literal for int()",), site="builtin"))
        return st.fresh_int("lenient_int")

    def __repr__(self):
        return f"PStr(len={self.n!r})"


def decimal_numeral(s, start=0, stop=None, maxdigits=3):
    """(is 1..maxdigits ASCII decimal digits, their value) for s[start:stop]."""
    stop = cs_len(s) if stop is None else stop
    k = stop - start
    ok = both(k >= 1, k <= maxdigits, *[implies(i < k, is_dec(cs_at(s, start + i))) for i in range(maxdigits)])
    value = 0
    for m in range(maxdigits, 0, -1):
        value = ite(k == m, digits_value([cs_at(s, start + i) for i in range(m)], 10), value)
    return ok, value


class PalText(Shape):
    """A fresh palette text: any str (symbolic length, every character a code point), with its first-comma position."""

    def fresh(self, st, hint):
        n = st.fresh_int(hint + "_len")
        c = st.fresh_int(hint + "_comma")
        f = z3.Function(st.fresh_name(hint + "$code"), z3.IntSort(), z3.IntSort())
        st.assume(both(n >= 0, 0 <= c, c <= n))
        st.assume(z3.Implies(c.e < n.e, f(c.e) == COMMA))

        seen = {}  # index term -> (term kept alive, value): the range / first-comma facts are stated once per index term

        def at(j):
            zj = V._z(j)
            key = zj.get_id()
            st_ = cur()
            if st_.capture is None and key in seen:
                return seen[key][1]
            e = f(zj)
            st_.assume(z3.And(e >= 0, e < MAX_CODE, z3.Implies(z3.And(0 <= zj, zj < c.e), e != COMMA)))
            r = mk_int(e)
            if st_.capture is None:
                seen[key] = (zj, r)
            return r

        return PStr(n, at, comma=c)

    def __repr__(self):
        return "PalText"


def _xcheck_paltext():
    """The first-comma / split / int models on concrete strings against CPython."""
    import random

    rnd = random.Random(17)
    alphabet = "0123456789h,, #gx+- _٣"
    bad = []
    for _t in range(4000):
        s = "".join(rnd.choice(alphabet) for _ in range(rnd.randrange(0, 7)))
        c = s.find(",") if "," in s else len(s)
        if ("," in s) != (c < len(s)) or s.split(",", 1)[0] != s[:c] or (c < len(s) and s.split(",", 1)[1] != s[c + 1:]):
            bad.append(("split", s))
        codes = [ord(ch) for ch in s]
        ok, value = decimal_numeral(CStr.codes(codes))
        try:
            real = int(s, 10)
        except ValueError:
            real = None
        if bool(ok) and real != value:
            bad.append(("int", s, real, value))  # (not ok: the model allows both outcomes)
    return "palette-text-model-agrees-with-cpython", not bad, f"4000 random strs; mismatches: {bad[:3]}"


# ---------------------------------------------------------------------------------------------------------------
# The two opaque neighbours: the AttrSpec constructor (its verified C18 contract + a record of the argument texts)
# and signal emission (assumed opaque, recorded).
# ---------------------------------------------------------------------------------------------------------------
def _ctor_ensures(old, s, a, result):
    """C18's verified postconditions of AttrSpec.__init__, up to and including how a default / basic / other
    background description is classified; the clauses after those (which number a high-colour description parses to,
    per palette: large formulas) are not needed here and not generated -- assuming fewer clauses of a verified contract
    is sound."""
    cur().ghost.setdefault("c17_built", []).append((s, a.fg, a.bg, a.colors))
    for label, f in attrspec_init.ensures(old, s, a, result):
        if label.startswith("background-at-"):
            break
        yield label, f


# the verified contract of AttrSpec.__init__ (contracts/C18_colours.py), usable at `AttrSpec(...)` call sites: the new
# object is a SPEC; nothing is added to what C18 proves about it (the ghost record only names the arguments)
attrspec_new = type("attrspec_new", (type(attrspec_init),), dict(constructs=SPEC, ctor_params=("fg", "bg", "colors"), ctor_defaults={"colors": 256},
                                                                 ensures_callee=staticmethod(_ctor_ensures)))()
attrspec_new.defined_in = __name__


class _EmitPalette(Contract):
    target = "urwid/signals.py:Signals.emit"
    property = ()
    assumed = True
    notes = ("signal emission out of BaseScreen.register_palette_entry / register_palette is opaque (C14 `Signals.emit` verifies that every "
             "connected handler is called once with the emitted arguments; the raw display connects Screen._on_update_palette_entry, "
             "contracts/C04_rawdisplay.py): the handlers are assumed not to touch BaseScreen._palette and not to raise; the emission is "
             "recorded in the ghost list `c17_emits` as (sender, signal name, arguments, the palette's keys at that moment)")


REGISTRY[_EmitPalette.target + "#palette-emission"] = _EmitPalette()
REGISTRY[_EmitPalette.target + "#palette-emission"].defined_in = __name__


def join_with(sep, items):
    out = None
    for x in items:
        x = CStr.of(x)
        out = x if out is None else _concat(_concat(out, CStr.of(sep)), x)
    return out if out is not None else CStr.of("")


def _concat(a, b):
    na, nb = a.n, b.n
    if _isint(na) and _isint(nb):
        return CStr.codes([a.at(i) for i in range(na)] + [b.at(i) for i in range(nb)])
    return CStr(na + nb, lambda j: ite(j < na, a.at(j), b.at(j - na)))


def pal_call_real(ip, st, f, args, kwargs):
    if getattr(f, "__func__", None) is _signals.Signals.emit and f.__self__ is _signals._signals:
        sender = args[0]
        keys = tuple(sender.fields["_palette"].d) if isinstance(sender, Q.SObj) else None
        st.ghost.setdefault("c17_emits", []).append((sender, args[1], tuple(args[2:]), keys))
        ip.task.used_contracts.add(_EmitPalette.target + "#palette-emission")
        return st.fresh_bool("any_handler_true")
    if getattr(f, "__name__", "") == "join" and isinstance(getattr(f, "__self__", None), str) and len(args) == 1 and not kwargs:
        items = args[0].seq if isinstance(args[0], Q.LRef) else args[0]
        if isinstance(items, tuple) and all(isinstance(x, (str, CStr)) for x in items):
            return join_with(f.__self__, items)
    return NotImplemented


# ---------------------------------------------------------------------------------------------------------------
# Spec side
# ---------------------------------------------------------------------------------------------------------------
def same_text(x, y):
    """Two modelled texts are the same description: the same str, or both a way of writing the default ('' / 'default')."""
    if x is y:
        return True
    return either(_same_str(x, y), both(is_default_name(x), is_default_name(y)))


def _same_str(x, y):
    if isinstance(x, str) and isinstance(y, str):
        return x == y
    nx, ny = cs_len(x), cs_len(y)
    if _isint(nx) or _isint(ny):
        return cs_eq(x, y)
    return both(nx == ny, forall(0, nx, lambda j: cs_at(x, j) == cs_at(y, j)))


def built_record(obj):
    for rec in cur().ghost.get("c17_built", []):
        if rec[0] is obj:
            return rec
    return None


def bg_kinds(v):
    return flag(v, "_BG_BASIC_COLOR"), flag(v, "_BG_HIGH_COLOR"), flag(v, "_BG_TRUE_COLOR")


def built_from_clauses(tag, obj, depth, fg, bg):
    """`obj` is the AttrSpec built here as AttrSpec(fg, bg, depth)."""
    rec = built_record(obj) if isinstance(obj, Q.SObj) else None
    yield f"{tag}-is-an-attrspec-built-by-this-call", rec is not None
    if rec is None:
        return
    _o, rfg, rbg, rdepth = rec
    v = word(obj)
    yield f"{tag}-is-declared-for-{depth}-colours", both(rdepth == depth, flag(v, "_HIGH_88_COLOR") == (depth == 88), flag(v, "_HIGH_TRUE_COLOR") == (depth == 2**24))
    yield f"{tag}-foreground-text-is-the-documented-source", same_text(rfg, fg)
    yield f"{tag}-background-text-is-the-documented-source", same_text(rbg, bg)
    yield f"{tag}-is-well-formed", wf(v)
    kb, kh, kt = bg_kinds(v)
    for label, f in colour_part_clauses(v, bg, kb, kh, kt, bg_number(v)):
        if label.startswith("at-"):
            break  # (which number a high-colour description parses to is C18's; the text clause above fixes the description)
        yield f"{tag}-stores-the-documented-background/{label}", f


def effective(high, basic):
    """None -- and only None -- in a high-colour field means "use the 16-colour value"."""
    return basic if high is None else high


def mono_text(mono):
    if mono is None:
        return "default"
    if isinstance(mono, tuple):
        return join_with(",", mono)
    return mono


def h_number(s):
    """For a text beginning with 'h': (the part before the first comma is 'h' + 1..3 decimal digits, their value)."""
    return decimal_numeral(s, 1, s.comma)


def h_large(s):
    """Documented: "'hX' where X > 15"."""
    ok, n = h_number(s)
    return both(cs_startswith(s, "h"), ok, n > 15)


def h_not_large(s):
    ok, n = h_number(s)
    return either(neg(cs_startswith(s, "h")), both(ok, n <= 15))


def entry_clauses(a, entry):
    """The 5-tuple recorded for a.name against the documented sources."""
    yield "the-entry-is-five-specs", isinstance(entry, tuple) and len(entry) == 5
    if not (isinstance(entry, tuple) and len(entry) == 5):
        return
    fgh, bgh = effective(a.foreground_high, a.foreground), effective(a.background_high, a.background)
    yield from built_from_clauses("the-16-colour-entry", entry[0], 16, a.foreground, a.background)
    yield from built_from_clauses("the-mono-entry", entry[1], 1, mono_text(a.mono), "default")
    yield from built_from_clauses("the-256-colour-entry", entry[3], 256, fgh, bgh)
    yield from built_from_clauses("the-true-colour-entry", entry[4], 2**24, fgh, bgh)
    if entry[2] is entry[0]:
        # the 88-colour entry falls back to the 16-colour one: only for an 'hN' high colour that is not known to be <= 15
        yield "the-88-colour-entry-is-the-16-colour-one-only-for-a-high-colour-hN", either(neg(h_not_large(fgh)), neg(h_not_large(bgh)))
    else:
        yield "the-88-colour-entry-is-its-own-spec-only-without-hN-above-15", both(neg(h_large(fgh)), neg(h_large(bgh)))
        yield from built_from_clauses("the-88-colour-entry", entry[2], 88, fgh, bgh)


def emitted_once(s, a, entry):
    em = cur().ghost.get("c17_emits", [])
    yield "update-palette-entry-is-emitted-exactly-once", len(em) == 1
    if len(em) != 1:
        return
    sender, signal, args, _keys = em[0]
    yield "emitted-by-this-screen-under-the-signal-name", sender is s and signal == UPDATE
    yield "emitted-with-the-name-and-the-five-specs-recorded", len(args) == 6 and args[0] is a.name and isinstance(entry, tuple) and len(entry) == 5 and all(x is y for x, y in zip(args[1:], entry))


NAME = Union(Const("body"), Const(None))
TEXT = PalText()
OPT_TEXT = Union(Const(None), TEXT)
PAL_BASE = Obj(BASESCREEN, dict(_palette=Custom(lambda st, h: Q.DRef({}), "dict")))


LARGE_H = DC + "BaseScreen.register_palette_entry.<large_h>"


@contract(LARGE_H, property="C17", replayable=False)
class large_h:
    """The helper that decides the 88-colour fallback (documented next to it: "'hX' where X > 15 are different in
    88/256 color, use basic colors for 88-color mode").  Verified against its body; register_palette_entry uses it by
    this contract."""
    params = dict(desc=TEXT)
    result = Bool
    raises = (ValueError,)
    static_checks = [_xcheck_paltext]

    def ensures(a, result):
        ok, n = h_number(a.desc)
        yield "a-text-without-a-leading-h-is-not-large", implies(neg(cs_startswith(a.desc, "h")), neg(result))
        yield "hN-with-N-above-15-is-large", implies(h_large(a.desc), result)
        yield "hN-with-N-up-to-15-is-not-large", implies(both(cs_startswith(a.desc, "h"), ok, n <= 15), neg(result))

    def on_raise(a, exc):
        ok, _n = h_number(a.desc)
        yield "only-an-h-text-that-is-not-h-and-one-to-three-digits-is-rejected", both(cs_startswith(a.desc, "h"), neg(ok))


def _entry_ensures(old, s, a, result):
    entry = s._palette.d.get(a.name)
    yield from entry_clauses(a, entry)
    yield from emitted_once(s, a, entry)
    yield "only-this-name-is-registered", set(s._palette.d) == {a.name}
    yield "returns-nothing", result is None


def _entry_on_raise(old, s, a, exc):
    yield "a-rejected-entry-registers-nothing", set(s._palette.d) == set()
    yield "a-rejected-entry-announces-nothing", len(cur().ghost.get("c17_emits", [])) == 0


def _entry_contract(name, alias, params, requires=None, raises=(ATTRSPEC_ERROR, ValueError), doc=None):
    ns = dict(
        __doc__=doc, self_shape=PAL_BASE, params=params, modifies=("_palette",), replayable=False, raises=raises,
        contract_overrides={DC + "AttrSpec.__init__": attrspec_new}, call_real=pal_call_real, setup=tables_setup, static_checks=[_xcheck_paltext],
        ensures=_entry_ensures, on_raise=_entry_on_raise)
    if requires is not None:
        ns["requires"] = requires
    return contract(DC + "BaseScreen.register_palette_entry", property="C17", **({"alias": alias} if alias else {}))(type(name, (), ns))


# every text; every combination of None / a text in the two high-colour fields.  ValueError: int() inside large_h on an
# 'h...' text that AttrSpec accepted (C18's contract of AttrSpec.__init__ does not say which foreground texts it rejects)
register_palette_entry = _entry_contract(
    "register_palette_entry", None,
    dict(name=Const("body"), foreground=TEXT, background=TEXT, mono=Const(None), foreground_high=OPT_TEXT, background_high=OPT_TEXT))

register_palette_entry_mono = _entry_contract(
    "register_palette_entry_mono", "mono-forms",
    dict(name=NAME, foreground=TEXT, background=TEXT, mono=Union(TEXT, Tup(TEXT, TEXT)), foreground_high=Const(None), background_high=Const(None)),
    requires=lambda s, a: both(neg(cs_startswith(a.foreground, "h")), neg(cs_startswith(a.background, "h"))), raises=(ATTRSPEC_ERROR,),
    doc="The forms of `mono` (a text; the old-style tuple of settings) and of `name` (None is the default attribute), for 3- / 4-value entries whose texts do not begin with 'h'.")


# ---------------------------------------------------------------------------------------------------------------
# BaseScreen.register_palette: a list of entries; (name, like_other_name) copies an entry registered before it, the
# 3- / 4- / 6-value forms go to register_palette_entry with their values in order, anything else is refused.
# Verified on two-item palettes (the second item may name the first, an older entry, or nothing); the items' texts are
# opaque here -- what register_palette_entry does with them is its own contract above, so at this call site a stand-in
# records the arguments and registers a token entry.
# ---------------------------------------------------------------------------------------------------------------
RPE = DC + "BaseScreen.register_palette_entry"
ENTRY_PARAMS = ("name", "foreground", "background", "mono", "foreground_high", "background_high")


class _EntryCallRecorder(Contract):
    target = RPE
    property = ()
    assumed = True
    notes = ("call-site stand-in used by register_palette's contract only: records the call's arguments (ghost `c17_entry_calls`) and registers a "
             "fresh 5-tuple of AttrSpecs under the name, so that register_palette's postcondition can say WHICH values were handed over and that a "
             "later (name, like_other_name) item finds the entry; what the registration does with the values is verified by the primary contract "
             "of BaseScreen.register_palette_entry (this file)")

    def apply(self, ip, st, f, args, kwargs, site=None, check_pre=True):
        obj, *rest = args
        vals = dict(mono=None, foreground_high=None, background_high=None)
        vals.update(zip(ENTRY_PARAMS, rest))
        vals.update(kwargs)
        missing = [n for n in ENTRY_PARAMS if n not in vals]
        if missing or len(rest) > len(ENTRY_PARAMS):
            raise PyRaise(SExc(TypeError, (f"register_palette_entry(): bad arguments {missing}",), site=site))
        entry = tuple(SPEC.fresh(st, f"registered{k}") for k in range(5))
        obj.fields["_palette"].d[vals["name"]] = entry
        st.ghost.setdefault("c17_entry_calls", []).append((obj, tuple(vals[n] for n in ENTRY_PARAMS), entry))
        ip.task.used_contracts.add(RPE + "#call-recorder")
        return None


REGISTRY[RPE + "#call-recorder"] = _EntryCallRecorder()
REGISTRY[RPE + "#call-recorder"].defined_in = __name__


def _old_palette(st, hint):
    return Q.DRef({"other": tuple(SPEC.fresh(st, f"other{k}") for k in range(5))})


PAL_FILLED = Obj(BASESCREEN, dict(_palette=Custom(_old_palette, "dict")))
OPAQUE_TEXT = Opaque("PaletteText")
ITEM1 = Union(Tup(Const("body"), OPAQUE_TEXT, OPAQUE_TEXT), Tup(Const("body"), OPAQUE_TEXT, OPAQUE_TEXT, OPAQUE_TEXT),
              Tup(Const("body"), OPAQUE_TEXT, OPAQUE_TEXT, OPAQUE_TEXT, OPAQUE_TEXT, OPAQUE_TEXT), Tup(Const("body"), Const("other")))
ITEM2 = Union(Tup(Const("hl"), Const("body")), Tup(Const("hl"), Const("other")), Tup(Const("hl"), Const("missing")),
              Tup(Const(None), OPAQUE_TEXT, OPAQUE_TEXT, OPAQUE_TEXT, OPAQUE_TEXT, OPAQUE_TEXT),
              Tup(Const("hl"), OPAQUE_TEXT, OPAQUE_TEXT, OPAQUE_TEXT, OPAQUE_TEXT), Tup(Const("hl"),))


def expected_registrations(old_palette, items):
    """Reference: walk the items; returns (list of ('entry', values) / ('alias', name, entry-or-key), refused?)."""
    known = dict.fromkeys(old_palette)  # name -> None (entry present at entry) or the index of the item that registered it
    out = []
    for k, item in enumerate(items):
        if len(item) in (3, 4, 6):
            out.append(("entry", k, item))
            known[item[0]] = k
        elif len(item) == 2 and item[1] in known:
            out.append(("alias", k, item))
            known[item[0]] = known[item[1]] if known[item[1]] is not None else ("old", item[1])
        else:
            return out, True
    return out, False


def _palette_clauses(old, s, a, refused_expected):
    st = cur()
    calls = [c for c in st.ghost.get("c17_entry_calls", [])]
    emits = st.ghost.get("c17_emits", [])
    items = a.palette
    steps, refused = expected_registrations(old._palette.d, items)
    yield "refused-exactly-when-an-item-has-a-wrong-length-or-names-an-unknown-entry", refused == refused_expected
    entry_steps = [x for x in steps if x[0] == "entry"]
    alias_steps = [x for x in steps if x[0] == "alias"]
    yield "one-registration-per-3-4-or-6-value-item", len(calls) == len(entry_steps)
    for (_t, k, item), (obj, vals, _e) in zip(entry_steps, calls):
        want = tuple(item) + (None,) * (6 - len(item))
        yield f"item-{k}-is-registered-with-its-values-in-order", obj is s and len(vals) == 6 and all(x is y for x, y in zip(vals, want))
    yield "one-announcement-per-alias-item", len(emits) == len(alias_steps)
    for (_t, k, item), (sender, signal, args, _keys) in zip(alias_steps, emits):
        name, like = item
        # the entry `like` had when this item was processed: the one registered by the latest earlier item of that name, else the old one
        src = None
        for (_t2, k2, it2) in steps:
            if k2 < k and it2[0] == like:
                src = (_t2, k2, it2)
        if src is None:
            want = old._palette.d.get(like)
        elif src[0] == "entry":
            want = calls[entry_steps.index(src)][2]
        else:
            want = None  # alias of an alias: covered by the identity clause below through the final palette
        later = any(k2 > k and it2[0] in (name, like) for (_t2, k2, it2) in steps)
        if want is not None:
            yield f"item-{k}-is-announced-with-the-name-and-the-specs-of-the-entry-it-copies", sender is s and signal == UPDATE and len(args) == 6 and args[0] is name and all(x is y for x, y in zip(args[1:], want))
            if not later:
                yield f"item-{k}-records-the-very-entry-it-copies", s._palette.d.get(name) is want
    touched = {item[0] for (_t, _k, item) in steps}
    yield "no-other-name-is-touched", set(s._palette.d) == set(old._palette.d) | touched and all(s._palette.d[n] is old._palette.d[n] for n in old._palette.d if n not in touched)


@contract(DC + "BaseScreen.register_palette", property="C17", replayable=False)
class register_palette:
    self_shape = PAL_FILLED
    params = dict(palette=Tup(ITEM1, ITEM2))
    raises = (SCREEN_ERROR,)
    modifies = ("_palette",)
    contract_overrides = {RPE: REGISTRY[RPE + "#call-recorder"]}
    call_real = staticmethod(pal_call_real)

    def ensures(old, s, a, result):
        yield from _palette_clauses(old, s, a, False)
        yield "returns-nothing", result is None

    def on_raise(old, s, a, exc):
        # the items before the refused one have been processed (the documented order: an entry must appear before its alias)
        yield from _palette_clauses(old, s, a, True)
