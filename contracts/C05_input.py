"""C05 — terminal input decoding: the special readers of urwid/display/escape.py (X10 mouse reports,
cursor-position reports), the trie walk, process_keyqueue and the carry-over of Screen.parse_input.

Key codes are lists of ints 0..255 (`CODES`).  What the encoding keeps and drops is said per contract."""
import z3

from pyvc import seqs as Q
from pyvc import shapes as S
from pyvc import values as V
from pyvc.api import *
from pyvc.api import Contract
from pyvc.values import cur, mk_bool, mk_int, SOpaque
from pyvc.seqs import LRef, ModelObj
from pyvc.engine import PyRaise, SExc
from pyvc.text import char_ord

from urwid.display import escape as _esc

ES = "urwid/display/escape.py:"
CODES = ListOf(Int(0, 255))
TRIE0 = Obj(_esc.KeyqueueTrie, dict())


MOUSE_NAMES = tuple(f"{sh}{me}{ct}{mu}mouse {ac}" for sh in ("", "shift ") for me in ("", "meta ") for ct in ("", "ctrl ")
                    for mu in ("", "double ", "triple ") for ac in ("press", "release", "drag", "click"))


def _seq(r):
    return r.seq if hasattr(r, "seq") else r


def klen(r):
    return Q.seq_len(_seq(r))


def kat(r, j):
    return Q.seq_get(_seq(r), j)


def as_assumption(ens):
    """`ensures_callee` form of an `ensures`: the same clauses, evaluated with the flag that makes `every`
    produce a genuine quantifier (an assumption at a call site) instead of a Skolem instance (a goal)."""

    def g(*args):
        st = cur()
        st.ghost["c05_assuming"] = st.ghost.get("c05_assuming", 0) + 1
        # ghost call log of this path: (contract, arguments view, result) of every call made through a contract,
        # so that the caller's postcondition can relate its result to what its callees were asked and answered
        st.ghost.setdefault("c05_calls", []).append((ens.__qualname__.split(".")[0], args[-2], args[-1]))
        try:
            return list(Contract._gen(ens(*args)))
        finally:
            st.ghost["c05_assuming"] -= 1

    return staticmethod(g)


def every(lo, hi, fn):
    """For all lo <= j < hi: fn(j).  As a proof goal: fn at one fresh (arbitrary) index, which is equivalent and
    keeps a false goal decidable (a counterexample index is found at once); as an assumption: a quantifier."""
    st = cur()
    if (isinstance(lo, int) and isinstance(hi, int)) or st.ghost.get("c05_assuming", 0) or st.ghost.get("inv_assuming", 0) or st.capture is not None:
        return forall(lo, hi, fn)
    j = st.fresh_int("any_j")
    return implies(both(lo <= j, j < hi), fn(j))


def is_suffix_from(rem, keys, d):
    """rem == keys[d:]  (0 <= d <= len(keys)), element-wise."""
    n = klen(keys)
    return both(0 <= d, d <= n, klen(rem) == n - d, every(0, klen(rem), lambda j: kat(rem, j) == kat(keys, d + j)))


def bit(b, k):
    """Bit k of the (non-negative) integer b, arithmetically."""
    return (b // (2**k)) % 2 == 1


# --------------------------------------------------------------------------------------------- X10 mouse report
#
# ESC [ M  Cb Cx Cy : Cb = 32 + b, Cx = 33 + x, Cy = 33 + y  (xterm ctlseqs, "Normal tracking mode");
# b: bits 0-1 button number (3 = release), bit 2 shift, bit 3 meta, bit 4 control, bit 5 motion (drag),
# bit 6 wheel (buttons 4, 5).  The event name is a real Python string on every path (the modifiers are
# decided by branches), so the clause states the exact documented name.


def x10_name(b):
    """Documented event name for the X10 button byte b (0 <= b < 224), from the protocol layout."""
    prefix = ("shift " if bit(b, 2) else "") + ("meta " if bit(b, 3) else "") + ("ctrl " if bit(b, 4) else "")
    if b % 4 == 3:
        action = "release"
    elif bit(b, 5):
        action = "drag"
    else:
        action = "press"
    return f"{prefix}mouse {action}"


def x10_button(b):
    """Button number: 1..3 plain, 4..5 wheel, 0 when the report is a release (which button is not known)."""
    return ite(b % 4 == 3, 0, b % 4 + 1 + ite(bit(b, 6), 3, 0))


def _xcheck_and_mask():
    """Engine cross-check (CPython): the arithmetic form of `x & mask` used by pyvc for EVERY integer x."""
    from pyvc.interp import and_mask_formula

    masks = (0, 1, 3, 4, 8, 16, 32, 64, 96, 0xC0, 0xE0, 0xF0, 0xF8, 1536, 2048, 2047, 5, 0x55)
    bad = [(x, m) for x in range(-5000, 5000) for m in masks if and_mask_formula(x, m) != x & m]
    return "and-mask-formula-agrees-with-cpython", not bad, f"{10000 * len(masks)} cases, mismatches: {bad[:3]}"


@contract(ES + "KeyqueueTrie.read_mouse_info", property="C05", replayable=False)
class read_mouse_info:
    self_shape = TRIE0
    params = dict(keys=CODES, more_available=Bool)
    result = Opt(Tup(Tup(Atom(*MOUSE_NAMES), Int, Int, Int), CODES))
    raises = (_esc.MoreInputRequired,)
    static_checks = [_xcheck_and_mask]

    def ensures(old, s, a, result):
        n = klen(a.keys)
        if is_none(result):
            yield "none-only-when-truncated-and-nothing-more-can-come", both(n < 3, neg(a.more_available))
            return
        (name, button, x, y), rem = val(result)
        yield "complete-report-is-decoded", n >= 3
        yield "consumes-exactly-three-codes-left-to-right", is_suffix_from(rem, a.keys, 3)
        yield "column-and-row-are-the-bytes-less-33-wrapped-into-0-255", both(
            x == ite(kat(a.keys, 1) >= 33, kat(a.keys, 1) - 33, kat(a.keys, 1) + 223),
            y == ite(kat(a.keys, 2) >= 33, kat(a.keys, 2) - 33, kat(a.keys, 2) + 223))
        b = kat(a.keys, 0) - 32
        if b >= 0:
            yield "button-per-the-x10-layout", button == x10_button(b)
            yield "documented-name-per-the-x10-layout", eq(name, x10_name(b))
        else:
            # Cb < 32 is not an X10 button byte: nothing documented beyond "an event that is a mouse event"
            yield "malformed-button-byte-still-a-release-event", both(either(*[eq(name, nm) for nm in MOUSE_NAMES if nm.endswith("mouse release")]), 0 <= button, button <= 7)

    ensures_callee = as_assumption(ensures)

    def on_raise(old, s, a, exc):
        yield "more-input-asked-only-when-more-can-come-and-the-report-is-incomplete", both(a.more_available, klen(a.keys) < 3)


# --------------------------------------------------------------------------------------------- cursor position report
#
# ESC [ Pl ; Pc R   (CPR; Pl, Pc decimal, no leading zero since both are >= 1).  `keys` is what follows ESC.
# Spec functions over the key list (recursive definitions, instantiated groundly at the indices in play):
#   DE(a)     = end of the maximal run of ASCII digits starting at a:  DE(a) = DE(a+1) if a < n and digit(keys[a]) else a
#   DEC(a,b)  = decimal value of keys[a:b]:  DEC(a,a) = 0,  DEC(a,b+1) = 10*DEC(a,b) + keys[b] - 48


def is_digit(k):
    return both(48 <= k, k <= 57)


def _fn(keys, name, arity):
    s = _seq(keys)
    base = getattr(s, "name", None) or f"lit{id(s)}"
    return z3.Function(f"{base}${name}", *([z3.IntSort()] * (arity + 1)))


def DE(keys, a):
    return mk_int(_fn(keys, "DE", 1)(V._z(a)))


def DEC(keys, a, b):
    return mk_int(_fn(keys, "DEC", 2)(V._z(a), V._z(b)))


def unfold_digits(keys, a, j):
    """Definitional instances at index j (run starting at a): DE(j), DEC(a, a), DEC(a, j+1)."""
    st = cur()
    n = klen(keys)
    inside = both(0 <= j, j < n)
    kj = kat(keys, imax(0, imin(j, n - 1)))
    st.assume(implies(0 <= j, DE(keys, j) == ite(both(inside, is_digit(kj)), DE(keys, j + 1), j)))
    st.assume(DEC(keys, a, a) == 0)
    st.assume(implies(both(inside, a <= j), DEC(keys, a, j + 1) == 10 * DEC(keys, a, j) + kj - 48))
    return True


def cpr_shape(keys):
    """(p, q, wellformed, incomplete) of `keys` against  [ d+ ; d+ R  with non-zero leading digits."""
    n = klen(keys)
    k = lambda j: kat(keys, imax(0, imin(j, n - 1)))  # noqa: E731
    p = DE(keys, 1)
    q = DE(keys, p + 1)
    unfold_digits(keys, 1, 1)
    unfold_digits(keys, p + 1, p + 1)
    opened = both(n >= 1, k(0) == 91)
    row_ok = both(p > 1, k(1) != 48)
    sep = both(p < n, k(p) == 59)
    col_ok = both(q > p + 1, k(p + 1) != 48)
    wellformed = both(opened, row_ok, sep, col_ok, q < n, k(q) == 82)
    incomplete = either(n == 0, both(opened, p == n, either(n == 1, k(1) != 48)),
                        both(opened, row_ok, sep, q == n, either(q == p + 1, k(p + 1) != 48)))
    return p, q, wellformed, incomplete


def _cpr_loop0(v):
    keys, n = v.keys, klen(v.keys)
    unfold_digits(keys, 1, v.i)
    unfold_digits(keys, 1, v.i - 1)
    yield "index-tracks-the-iteration", both(v.i == 1 + v.i_, v.i <= n)
    yield "row-is-the-decimal-value-read-so-far", both(v.y == DEC(keys, 1, v.i), v.y >= 0)
    yield "only-digits-so-far", DE(keys, 1) == DE(keys, v.i)
    yield "no-leading-zero", implies(v.i > 1, both(v.y >= 1, kat(keys, 1) != 48))
    yield "nothing-read-yet-means-zero", implies(v.i == 1, v.y == 0)


def _cpr_loop1(v):
    keys, n = v.keys, klen(v.keys)
    i1 = v.at_entry.i
    unfold_digits(keys, i1, v.i)
    unfold_digits(keys, i1, v.i - 1)
    yield "index-tracks-the-iteration", both(v.i == i1 + v.i_, v.i <= n)
    yield "column-is-the-decimal-value-read-so-far", both(v.x == DEC(keys, i1, v.i), v.x >= 0)
    yield "only-digits-so-far", DE(keys, i1) == DE(keys, v.i)
    yield "no-leading-zero", implies(v.i > i1, both(v.x >= 1, kat(keys, imin(i1, n - 1)) != 48))
    yield "nothing-read-yet-means-zero", implies(v.i == i1, v.x == 0)


def _xcheck_char_predicates():
    from pyvc.text import xcheck_char_predicates

    return ("single-character-str-predicates-agree-with-cpython", *xcheck_char_predicates())


@contract(ES + "KeyqueueTrie.read_cursor_position", property="C05", replayable=False)
class read_cursor_position:
    self_shape = TRIE0
    params = dict(keys=CODES, more_available=Bool)
    result = Opt(Tup(Tup(Const("cursor position"), Int, Int), CODES))
    raises = (_esc.MoreInputRequired,)
    # a digit of a report is an ASCII digit, 48 <= k <= 57 (`is_digit`); a body that classifies bytes with str
    # predicates (chr(k).isdigit() / .isnumeric() / ...) is verified against CPython's exact answers for 0..255
    static_checks = [_xcheck_char_predicates]

    def ensures(old, s, a, result):
        p, q, wellformed, incomplete = cpr_shape(a.keys)
        if is_none(result):
            yield "none-only-when-not-a-report", neg(wellformed)
            yield "none-on-a-truncated-report-only-when-nothing-more-can-come", implies(incomplete, neg(a.more_available))
            return
        (name, x, y), rem = val(result)
        yield "reported-exactly-on-wellformed-reports", wellformed
        yield "documented-name", name == "cursor position"
        yield "row-and-column-are-the-decimal-values-less-one", both(y == DEC(a.keys, 1, p) - 1, x == DEC(a.keys, p + 1, q) - 1)
        yield "coordinates-non-negative", both(x >= 0, y >= 0)
        yield "consumes-through-the-R-left-to-right", is_suffix_from(rem, a.keys, q + 1)

    ensures_callee = as_assumption(ensures)

    def on_raise(old, s, a, exc):
        p, q, wellformed, incomplete = cpr_shape(a.keys)
        yield "more-input-asked-only-when-more-can-come", a.more_available
        yield "more-input-asked-only-on-a-proper-prefix-of-a-report", incomplete

    loops = {0: Loop(invariant=_cpr_loop0), 1: Loop(invariant=_cpr_loop1)}


# --------------------------------------------------------------------------------------------- the trie walk
#
# The trie (`KeyqueueTrie.data`, built at import time from `input_sequences`) is modelled as an opaque dictionary
# protocol — the facts `get_recurse` relies on and nothing else:
#   * a node is either a mapping (opaque `TrieMap`) or a leaf, and a leaf is a str: one of the result names of
#     `input_sequences` (checked against the real table by the static check `leaves-of-the-real-trie`);
#   * `k in node`, `node[k]` for a mapping node are uninterpreted functions of (node, k); `node[k]` raises KeyError
#     when `k not in node` (so the code's `not in` test is what makes the subscript safe); a child is again a
#     mapping or a leaf.
# Dropped: which sequences the table contains (decided by the bounded check over every table entry).
from pyvc.api import PROTOCOLS  # noqa: E402
from pyvc.engine import PyRaise, SExc  # noqa: E402
from pyvc.protocol import PMethod, Protocol  # noqa: E402
from pyvc.values import SAtom, SOpaque, SOpt  # noqa: E402

LEAVES = tuple(sorted({r for _s, r in _esc.input_sequences}))
_TM = S.opaque_sort("TrieMap")
_T_HAS = z3.Function("TrieMap.has", _TM, z3.IntSort(), z3.BoolSort())
_T_CHILD_IS_MAP = z3.Function("TrieMap.child_is_map", _TM, z3.IntSort(), z3.BoolSort())
_T_CHILD = z3.Function("TrieMap.child", _TM, z3.IntSort(), _TM)
_T_LEAF = z3.Function("TrieMap.leaf", _TM, z3.IntSort(), z3.IntSort())


class TrieMapProtocol(Protocol):
    kind = "TrieMap"
    methods = {}

    def contains(self, st, obj, x):
        return mk_bool(_T_HAS(obj.e, V._z(x)))

    def subscript(self, ip, st, obj, idx):
        zi = V._z(idx)
        st.partial(mk_bool(_T_HAS(obj.e, zi)), KeyError, "key not in trie node")
        if st.branch(_T_CHILD_IS_MAP(obj.e, zi)):
            return SOpaque("TrieMap", _T_CHILD(obj.e, zi))
        e = _T_LEAF(obj.e, zi)
        st.assume(z3.Or(*[e == V.atom_code(d) for d in LEAVES]))
        return SAtom(e, LEAVES)

    def isinstance(self, ip, st, obj, cls):
        return issubclass(dict, cls)


PROTOCOLS["TrieMap"] = TrieMapProtocol()


def _real_trie_leaves():
    out, maps_ok = set(), True

    def walk(d):
        nonlocal maps_ok
        for k, v in d.items():
            maps_ok = maps_ok and isinstance(k, int)
            if isinstance(v, dict):
                walk(v)
            else:
                out.add(v)

    walk(_esc.input_trie.data)
    ok = maps_ok and out <= set(LEAVES) and all(isinstance(x, str) for x in out)
    return "leaves-of-the-real-trie-are-the-modelled-names-and-keys-are-ints", ok, f"{len(out)} leaf names"


# Key events.  At the interfaces of get_recurse / get / process_keyqueue an event is an opaque individual
# (`KeyEvent`): the encoding keeps *that* an event is returned and how many codes it consumed, and drops *which*
# (the exact names / coordinates are stated on read_mouse_info, read_cursor_position, read_sgrmouse_info themselves
# and, for the table, by the bounded check).  Three facts about an event are uninterpreted functions of it:
# whether it is a str, whether it equals a given constant, and the result of `.find(sub)`.
_KE = S.opaque_sort("KeyEvent")
_KE_IS_STR = z3.Function("KeyEvent.is_str", _KE, z3.BoolSort())
_KE_EQ = z3.Function("KeyEvent.eq_const", _KE, z3.IntSort(), z3.BoolSort())


class KeyEventProtocol(Protocol):
    kind = "KeyEvent"
    methods = {"find": PMethod(Int(-1, None), params=["sub"])}

    def isinstance(self, ip, st, obj, cls):
        if cls is str:
            return mk_bool(_KE_IS_STR(obj.e))
        raise Unsupported(f"isinstance(KeyEvent, {cls})")

    def eq_const(self, st, obj, const):
        r = mk_bool(_KE_EQ(obj.e, z3.IntVal(V.atom_code(const))))
        if isinstance(const, str):
            st.assume(implies(r, mk_bool(_KE_IS_STR(obj.e))))
        return r


PROTOCOLS["KeyEvent"] = KeyEventProtocol()
EVENT = Opaque("KeyEvent")
READ = Opt(Tup(EVENT, CODES))  # what a reader returns at a call site: None or (event, remaining codes)



def split_read(result):
    """(event, remaining) of a non-None reader result — a plain tuple on the verified function's own paths, an
    optional at a call site."""
    r = val(result)
    return r[0], r[1]


def consumed(keys, rem):
    return klen(keys) - klen(rem)


def _is_map(root):
    return isinstance(root, SOpaque)


@contract(ES + "KeyqueueTrie.get_recurse", property="C05", replayable=False)
class get_recurse:
    self_shape = TRIE0
    params = dict(root=Union(Opaque("TrieMap"), Atom(*LEAVES)), keys=CODES, more_available=Bool)
    result = READ
    raises = (_esc.MoreInputRequired,)
    static_checks = [_real_trie_leaves]

    def decreases(s, a):
        return klen(a.keys)

    def ensures(old, s, a, result):
        n = klen(a.keys)
        if is_none(result):
            if _is_map(a.root):
                yield "exhausted-keys-give-none-only-when-nothing-more-can-come", implies(n == 0, neg(a.more_available))
            else:
                yield "a-leaf-gives-none-only-for-a-truncated-x10-report-when-nothing-more-can-come-or-a-bad-sgr-report", either(
                    both(a.root == "mouse", n < 3, neg(a.more_available)), a.root == "sgrmouse")
            return
        ev, rem = split_read(result)
        d = consumed(a.keys, rem)
        yield "remaining-is-a-suffix-left-to-right", is_suffix_from(rem, a.keys, d)
        if _is_map(a.root):
            yield "a-match-below-a-mapping-consumes-at-least-one-code", both(d >= 1, n >= 1, mk_bool(_T_HAS(a.root.e, V._z(kat(a.keys, 0)))))
        else:
            yield "a-plain-leaf-is-reported-as-it-is-consuming-nothing", implies(both(a.root != "mouse", a.root != "sgrmouse"), both(d == 0, eq(ev, a.root)))
            yield "an-x10-report-consumes-three-codes", implies(a.root == "mouse", d == 3)
            yield "an-sgr-report-consumes-through-its-final-letter", implies(a.root == "sgrmouse", d >= 1)

    ensures_callee = as_assumption(ensures)

    def on_raise(old, s, a, exc):
        yield "more-input-asked-only-when-more-can-come", a.more_available


# --------------------------------------------------------------------------------------------- SGR (1006) mouse report
#
# ESC [ <  Pb ; Px ; Py (M|m)    `keys` is what follows "[<".  FM(a) = index of the first 'M'/'m' at or after a
# (n when there is none): FM(a) = a if a < n and keys[a] in {77, 109} else (FM(a+1) if a < n else n).


def is_final(k):
    return either(k == 77, k == 109)


def FM(keys, a):
    return mk_int(_fn(keys, "FM", 1)(V._z(a)))


def unfold_final(keys, j):
    st = cur()
    n = klen(keys)
    kj = kat(keys, imax(0, imin(j, n - 1)))
    st.assume(implies(0 <= j, FM(keys, j) == ite(j >= n, n, ite(is_final(kj), j, FM(keys, j + 1)))))
    return True


def qall(lo, hi, fn):
    """`forall` of pyvc.values without its solver call for "is the range empty" (which only times out once the path
    condition carries quantifiers): for all lo <= j < hi: fn(j), facts assumed while evaluating fn(j) kept."""
    if isinstance(lo, int) and isinstance(hi, int):
        return forall(lo, hi, fn)
    st = cur()
    j = z3.Int(st.fresh_name("q"))
    saved, st.capture = st.capture, []
    try:
        body = fn(V.SInt(j))
        facts = list(st.capture)
    finally:
        st.capture = saved
    rng = z3.And(V._z(lo) <= j, j < V._z(hi))
    if facts:
        st.assume(z3.ForAll([j], z3.Implies(rng, z3.And(*facts))))
    return mk_bool(z3.ForAll([j], z3.Implies(rng, V._zb(body) if isinstance(body, (V.SBool, bool)) else z3.BoolVal(bool(body)))))


def is_ascii_digit(k):
    return both(48 <= k, k <= 57)


def sgr_wf(keys, s1, s2, m):
    """keys[0:m] is  d+ ; d+ ; d+  with the separators at s1 < s2, and keys[m] is the final letter."""
    n = klen(keys)
    k = lambda j: kat(keys, imax(0, imin(j, n - 1)))  # noqa: E731
    return both(m < n, s1 >= 1, s2 > s1 + 1, m > s2 + 1, k(s1) == 59, k(s2) == 59,
                qall(0, m, lambda j: either(j == s1, j == s2, is_ascii_digit(kat(keys, j)))))


def sgr_name(b, final):
    prefix = ("shift " if bit(b, 2) else "") + ("meta " if bit(b, 3) else "") + ("ctrl " if bit(b, 4) else "")
    if final == 109:
        action = "release"
    elif bit(b, 5):
        action = "drag"
    else:
        action = "press"
    return f"{prefix}mouse {action}"


SGR_NAMES = tuple(nm for nm in MOUSE_NAMES if "double" not in nm and "triple" not in nm and "click" not in nm)

# A str built from key codes is modelled as a VIEW on the key list: KStr(keys, lo, hi) = "".join(chr(k) for k in
# keys[lo:hi]).  Modelled operations (each a builtin model, cross-checked against CPython by the static check
# `kstr-models-agree-with-cpython`): s + chr(keys[hi]) (the view grows by one), len, s[a:b], s[i], s.split(";")
# (three fields exactly when there are exactly two separators), s.isascii(), s.isdigit(), int(s) (the decimal
# value for a non-empty ASCII-digit string, ValueError possible otherwise).
DIGIT_ORDS = tuple(k for k in range(256) if chr(k).isdigit())  # '0'..'9' and the superscripts ² ³ ¹


class KStr(ModelObj):
    def __init__(self, keys, lo, hi):
        self.keys, self.lo, self.hi = keys, lo, hi

    def at(self, j):
        return kat(self.keys, self.lo + j)

    def py_len(self, st):
        return self.hi - self.lo

    def py_truth(self, st):
        return self.hi > self.lo

    def py_getitem(self, ip, st, idx):
        from pyvc.builtins_model import norm_index
        from pyvc.text import chr_of

        n = self.hi - self.lo
        if isinstance(idx, Q.SSlice):
            start, stop, step = Q.slice_indices(idx, n)
            if not (isinstance(step, int) and step == 1):
                raise Unsupported("extended slice of a modelled str")
            return KStr(self.keys, self.lo + start, self.lo + imax(start, stop))
        j = norm_index(st, idx, n, "string index out of range")
        code = self.at(j)
        w = st.choose([code == 77, code == 109, both(code != 77, code != 109)])
        return ("M", "m", None)[w] if w < 2 else chr_of(code)

    def all_(self, pred):
        return qall(self.lo, self.hi, lambda j: pred(kat(self.keys, j)))

    def py_call(self, ip, st, name, args, kwargs):
        if name == "isascii" and not args:
            return self.all_(lambda k: k < 128)
        if name == "isdigit" and not args:
            return both(self.hi > self.lo, self.all_(lambda k: either(*[k == d for d in DIGIT_ORDS])))
        if name == "split" and args == [";"] and not kwargs:
            if st.fork(2) == 0:
                s1, s2 = st.fresh_int("sep1"), st.fresh_int("sep2")
                st.assume(both(self.lo <= s1, s1 < s2, s2 < self.hi, kat(self.keys, s1) == 59, kat(self.keys, s2) == 59))
                st.assume(qall(self.lo, self.hi, lambda j: either(j == s1, j == s2, kat(self.keys, j) != 59)))
                st.ghost["c05_split"] = (s1, s2)
                return LRef((KStr(self.keys, self.lo, s1), KStr(self.keys, s1 + 1, s2), KStr(self.keys, s2 + 1, self.hi)))
            # any other number of separators: some number of fields other than three (their content is not modelled);
            # "not exactly two separators" is kept as a fact for the caller's postcondition
            m = st.fresh_int("nfields")
            st.assume(both(m >= 1, m != 3))
            keys, lo, hi = self.keys, self.lo, self.hi
            st.ghost["c05_not_two_separators"] = lambda t1, t2: neg(both(
                lo <= t1, t1 < t2, t2 < hi, kat(keys, t1) == 59, kat(keys, t2) == 59,
                qall(lo, hi, lambda j: either(j == t1, j == t2, kat(keys, j) != 59))))

            def getter(j):
                raise Unsupported("content of the fields of a split that did not give three fields")

            return LRef(Q.SSeq(m, getter, None, None, "fields"))
        raise Unsupported(f"str.{name} on a modelled str")

    def py_int(self, ip, st):
        ok = both(self.hi > self.lo, self.all_(is_ascii_digit))
        if not st.branch(ok):
            if st.fork(2) == 0:
                raise PyRaise(SExc(ValueError, ("invalid literal for int()",), site="builtin"))
            return st.fresh_int("lenient_int")  # int() also accepts signs, blanks, underscores, other digits
        unfold_digits(self.keys, self.lo, self.lo)
        return DEC(self.keys, self.lo, self.hi)


def _sgr_binop(ip, st, op, a, b):
    import ast as _ast

    if isinstance(op, _ast.Add) and (a == "" if isinstance(a, str) else isinstance(a, KStr)) and isinstance(b, SOpaque) and b.kind == "Char":
        keys = st.ghost["c05_keys"]
        lo, hi = (0, 0) if isinstance(a, str) else (a.lo, a.hi)
        code = char_ord(b)
        fits = both(hi < klen(keys), kat(keys, imax(0, imin(hi, klen(keys) - 1))) == code)
        r, _m = st._check(z3.Not(V._zb(fits)), st.cfg.branch_timeout_ms)
        if r != z3.unsat:
            raise Unsupported("str + chr(k): k is not provably the next key code (the str model is a view on the key list)")
        return KStr(keys, lo, hi + 1)
    return NotImplemented


def _sgr_setup(st, self_obj, vals):
    st.ghost["c05_keys"] = vals["keys"]


def _vbounds(value):
    return (0, 0) if isinstance(value, str) else (value.lo, value.hi)


def _sgr_loop0(v):
    keys = v.keys
    lo, hi = _vbounds(v.value)
    unfold_final(keys, v.i_)
    yield "value-is-the-codes-read-so-far", both(lo == 0, hi == v.i_) if isinstance(v.value, KStr) else v.i_ == 0
    yield "position-tracks-the-iteration", v.pos_m == v.i_
    yield "no-final-letter-so-far", both(neg(v.found_m), FM(keys, 0) == FM(keys, v.i_))


def _xcheck_kstr():
    """CPython cross-check of the str models on concrete codes: isascii / isdigit / split(';') field count and
    content / int() of ASCII-digit strings (decimal recursion) — 4000 pseudo-random and boundary strings."""
    import random

    rnd = random.Random(5)
    alphabet = [48, 49, 57, 59, 59, 77, 109, 32, 43, 95, 178, 185, 200, 58, 47]
    bad = []
    for t in range(4000):
        codes = [rnd.choice(alphabet) for _ in range(rnd.randrange(0, 9))]
        sv = "".join(chr(k) for k in codes)
        if sv.isascii() != all(k < 128 for k in codes):
            bad.append(("isascii", codes))
        if sv.isdigit() != (len(codes) > 0 and all(k in DIGIT_ORDS for k in codes)):
            bad.append(("isdigit", codes))
        seps = [j for j, k in enumerate(codes) if k == 59]
        fields = sv.split(";")
        if (len(fields) == 3) != (len(seps) == 2):
            bad.append(("split-count", codes))
        if len(seps) == 2 and fields != [sv[: seps[0]], sv[seps[0] + 1 : seps[1]], sv[seps[1] + 1 :]]:
            bad.append(("split-fields", codes))
        if codes and all(48 <= k <= 57 for k in codes):
            dec = 0
            for k in codes:
                dec = 10 * dec + k - 48
            if int(sv) != dec:
                bad.append(("int", codes))
    return "kstr-models-agree-with-cpython", not bad, f"4000 strings, mismatches: {bad[:3]}"


@contract(ES + "KeyqueueTrie.read_sgrmouse_info", property="C05", replayable=False)
class read_sgrmouse_info:
    self_shape = TRIE0
    params = dict(keys=CODES, more_available=Bool)
    result = Opt(Tup(Tup(Atom(*SGR_NAMES), Int, Int, Int), CODES))
    raises = (_esc.MoreInputRequired,)
    setup = staticmethod(_sgr_setup)
    binop = staticmethod(_sgr_binop)
    branch_timeout_ms = 300
    static_checks = [_xcheck_kstr]

    def ensures(old, s, a, result):
        st = cur()
        n = klen(a.keys)
        m = FM(a.keys, 0)
        unfold_final(a.keys, 0)
        if is_none(result):
            yield "none-on-an-unterminated-report-only-when-nothing-more-can-come", implies(m == n, neg(a.more_available))
            if not st.ghost.get("c05_assuming", 0):
                # "None only on a malformed report": for arbitrary separator positions t1 < t2 the report is not
                # well-formed (the positions are fresh constants: a universally quantified goal)
                t1, t2 = st.fresh_int("t1"), st.fresh_int("t2")
                nts = st.ghost.get("c05_not_two_separators")
                if nts is not None:
                    st.assume(nts(t1, t2))
                yield "none-only-on-a-malformed-or-unterminated-report", neg(sgr_wf(a.keys, t1, t2, m))
            return
        (name, button, x, y), rem = val(result)
        if st.ghost.get("c05_assuming", 0):
            s1, s2 = st.fresh_int("sep1"), st.fresh_int("sep2")  # "there are separator positions such that ..."
        else:
            s1, s2 = st.ghost["c05_split"]  # witnesses: where split() found the separators on this path
        yield "reported-only-on-wellformed-reports", sgr_wf(a.keys, s1, s2, m)
        b = DEC(a.keys, 0, s1)
        yield "column-and-row-are-the-decimal-fields-less-one", both(x == DEC(a.keys, s1 + 1, s2) - 1, y == DEC(a.keys, s2 + 1, m) - 1)
        yield "button-is-low-two-bits-plus-one-wheel-adds-three", button == b % 4 + 1 + ite(bit(b, 6), 3, 0)
        yield "documented-name-per-the-sgr-layout", eq(name, sgr_name(b, kat(a.keys, imax(0, imin(m, n - 1)))))
        yield "consumes-through-the-final-letter-left-to-right", is_suffix_from(rem, a.keys, m + 1)

    ensures_callee = as_assumption(ensures)

    def on_raise(old, s, a, exc):
        yield "more-input-asked-only-when-more-can-come", a.more_available
        unfold_final(a.keys, 0)
        yield "more-input-asked-only-while-the-final-letter-is-missing", FM(a.keys, 0) == klen(a.keys)

    loops = {0: Loop(invariant=_sgr_loop0, shapes={"value": Custom(lambda st, hint: KStr(st.ghost["c05_keys"], 0, st.fresh_int("vhi")), "KStr")})}


TRIE = Obj(_esc.KeyqueueTrie, dict(data=Opaque("TrieMap")))


@contract(ES + "KeyqueueTrie.get", property="C05", replayable=False)
class trie_get:
    self_shape = TRIE
    params = dict(keys=CODES, more_available=Bool)
    result = READ
    raises = (_esc.MoreInputRequired,)

    def ensures(old, s, a, result):
        n = klen(a.keys)
        if is_none(result):
            p, q, wellformed, incomplete = cpr_shape(a.keys)
            yield "none-only-when-not-a-cursor-position-report", neg(wellformed)
            yield "none-on-exhausted-keys-only-when-nothing-more-can-come", implies(n == 0, neg(a.more_available))
            return
        ev, rem = split_read(result)
        d = consumed(a.keys, rem)
        yield "remaining-is-a-proper-suffix-left-to-right", both(d >= 1, is_suffix_from(rem, a.keys, d))

    ensures_callee = as_assumption(ensures)

    def on_raise(old, s, a, exc):
        yield "more-input-asked-only-when-more-can-come", a.more_available


# --------------------------------------------------------------------------------------------- process_keyqueue
#
# One step of the decoder: (events, remaining) = process_keyqueue(codes, more_available), codes non-empty.
# Event values on the function's own paths: chr(code) (an abstract character with its ordinal), a constant name from
# `_keyconv`, an opaque formatted text ("ctrl x", "<nnn>", "meta ..." — f-strings over symbolic values: their
# content is DROPPED, only that one event is produced is kept), the str decoded from a UTF-8 group, whatever the
# trie/readers return, and — from the recursive ESC-prefix step — opaque `KeyEvent`s.
# The byte encoding is the module global `str_util._byte_encoding` (all three modes).
from pyvc.text import SText, char_ord  # noqa: E402
from urwid import str_util as _su  # noqa: E402

SU = "urwid/str_util.py:"
ENC = dict(_byte_encoding=Atom("utf8", "narrow", "wide"))
STEP = Tup(ListOf(EVENT, min_len=1), CODES)


def _bytes_of(st, items, n):
    """bytes(list) for a list of ints 0..255 whose length n is concrete on this path: a bytes text with those bytes."""
    t = SText("bytes", n, st.fresh_name("bytes"))
    for j in range(n):
        st.assume(t.get(j) == Q.seq_get(items, j))
    return t


def _pk_real(ip, st, f, args, kwargs):
    if f is bytes and len(args) == 1 and isinstance(args[0], LRef):
        items = args[0].seq
        n = Q.seq_len(items)
        if not isinstance(n, int):
            # the slices codes[:2], codes[:need_more+1] have a concrete length once len(codes) is known to reach it
            for c in (1, 2, 3, 4):
                r, _m = st._check(z3.Not(V._zb(n == c)), st.cfg.branch_timeout_ms)
                if r == z3.unsat:
                    n = c
                    break
            else:
                raise Unsupported("bytes() of a list whose length is not determined on this path")
        return _bytes_of(st, items, n)
    if getattr(f, "__self__", None) is _esc.input_trie and getattr(f, "__name__", "") == "get":
        # the module-level trie object: an instance whose `data` is an (opaque) mapping node
        from pyvc.interp import FnVal
        from pyvc import source as SRC

        me = TRIE.fresh(st, "input_trie")
        return trie_get.apply(ip, st, FnVal(SRC.resolve(trie_get.target)), [me, *args], kwargs, site="urwid/display/escape.py:input_trie.get")
    return NotImplemented


def utf8_len(code):
    """Length of the UTF-8 group announced by a lead byte (1 for anything that is not a lead byte)."""
    return ite(both(0xC0 <= code, code <= 0xDF), 2, ite(both(0xE0 <= code, code <= 0xEF), 3, ite(both(0xF0 <= code, code <= 0xF7), 4, 1)))


def is_cont(k):
    return both(0x80 <= k, k <= 0xBF)


@contract(ES + "process_keyqueue", property="C05", replayable=False, globals_=ENC, inline=(SU + "get_byte_encoding",))
class process_keyqueue:
    params = dict(codes=CODES, more_available=Bool)
    result = STEP
    raises = (_esc.MoreInputRequired,)
    call_real = staticmethod(_pk_real)

    def requires(a):
        return klen(a.codes) >= 1

    def decreases(a):
        return klen(a.codes)

    def ensures(a, result):
        n = klen(a.codes)
        events, rem = result
        d = consumed(a.codes, rem)
        code = kat(a.codes, 0)
        enc = a.g__byte_encoding
        k = lambda j: kat(a.codes, imax(0, imin(j, n - 1)))  # noqa: E731
        yield "at-least-one-event", klen(events) >= 1
        yield "remaining-is-a-proper-suffix-left-to-right", both(d >= 1, is_suffix_from(rem, a.codes, d))
        ascii_or_control = both(code != 27, code <= 127)
        yield "ascii-and-control-codes-are-one-event-consuming-one-code", implies(ascii_or_control, both(d == 1, klen(events) == 1))
        yield "single-byte-mode-passes-every-non-escape-byte-through-alone", implies(both(enc == "narrow", code != 27), both(d == 1, klen(events) == 1))
        L = utf8_len(code)
        u8 = both(enc == "utf8", code >= 128)
        yield "utf8-consumes-the-whole-group-or-the-lead-byte-alone", implies(u8, both(klen(events) == 1, either(d == 1, both(L > 1, d == L))))
        yield "utf8-group-taken-only-with-all-continuation-bytes", implies(both(u8, d > 1), both(n >= L, is_cont(k(1)), implies(L >= 3, is_cont(k(2))), implies(L >= 4, is_cont(k(3)))))
        yield "utf8-stray-continuation-or-bad-continuation-passes-the-lead-byte-alone", implies(
            both(u8, either(L == 1, both(n >= 2, neg(is_cont(k(1)))), both(L >= 3, n >= 3, neg(is_cont(k(2)))), both(L >= 4, n >= 4, neg(is_cont(k(3)))))), d == 1)
        yield "wide-mode-takes-one-or-two-bytes", implies(both(enc == "wide", code != 27), both(klen(events) == 1, d <= 2))
        if not cur().ghost.get("c05_assuming", 0) and klen(events) >= 1:
            # ESC-prefixed input: the trie / the inner step were asked about exactly codes[1:], and the ESC step
            # consumes one code more than they did (nothing re-read, nothing skipped)
            calls = [c for c in cur().ghost.get("c05_calls", []) if c[0] in ("trie_get", "process_keyqueue")]
            for who, ca, cr in calls:
                asked = ca.keys if who == "trie_get" else ca.codes
                yield f"esc-prefix-asks-{who}-about-exactly-the-codes-after-esc", both(code == 27, is_suffix_from(asked, a.codes, 1))
            if calls:
                who, ca, cr = calls[-1]  # the call whose answer is returned
                asked = ca.keys if who == "trie_get" else ca.codes
                if who == "trie_get" and is_none(cr):
                    yield "a-lone-esc-is-the-esc-key", both(d == 1, klen(events) == 1, eq(Q.seq_get(_seq(events), 0), "esc"))
                else:
                    inner_rem = split_read(cr)[1] if who == "trie_get" else cr[1]
                    yield "esc-prefix-consumes-one-more-than-what-follows-it", d == 1 + consumed(asked, inner_rem)
                if who == "process_keyqueue":
                    yield "esc-prefix-keeps-every-inner-event", klen(events) >= klen(cr[0])
            e0 = Q.seq_get(_seq(events), 0)
            if isinstance(e0, SOpaque) and e0.kind == "Char":
                yield "a-single-character-event-is-that-byte", both(d == 1, char_ord(e0) == code)
            printable = both(32 <= code, code <= 126)
            yield "printable-ascii-is-reported-as-its-character", implies(printable, isinstance(e0, SOpaque) and e0.kind == "Char")

    ensures_callee = as_assumption(ensures)

    def on_raise(a, exc):
        n = klen(a.codes)
        code = kat(a.codes, 0)
        enc = a.g__byte_encoding
        k = lambda j: kat(a.codes, imax(0, imin(j, n - 1)))  # noqa: E731
        L = utf8_len(code)
        yield "more-input-asked-only-when-more-can-come", a.more_available
        yield "more-input-asked-only-inside-a-multi-byte-group-or-an-escape-sequence", either(
            code == 27,
            both(enc == "utf8", code >= 128, L > 1, n < L, implies(n >= 2, is_cont(k(1))), implies(n >= 3, is_cont(k(2)))),
            both(enc == "wide", code >= 128, n == 1))


# --------------------------------------------------------------------------------------------- Screen.parse_input
#
# Carry-over of an incomplete sequence between reads.  The event loop and the callback are opaque:
#   * `InputLoop`: alarm(seconds, callback) -> handle, remove_alarm(handle) -> bool; neither raises;
#   * `InputCallback`: callback(keys, raw) is logged (ghost) and ASSUMED not to raise — an exception of the user's
#     callback is the caller's business (C12), not a decoding failure.
# Dropped: the content of the decoded events (opaque `KeyEvent`s from process_keyqueue; the literal
# "window resize" is kept), logging.  The closure `_parse_incomplete_input` handed to alarm() is not run here.
from urwid.display import _raw_display_base as _rdb  # noqa: E402

RD = "urwid/display/_raw_display_base.py:"


class InputLoopProtocol(Protocol):
    kind = "InputLoop"
    methods = {
        "alarm": PMethod(Opaque("InputAlarm"), params=["seconds", "callback"]),
        "remove_alarm": PMethod(Bool, params=["handle"]),
    }


class InputCallbackProtocol(Protocol):
    kind = "InputCallback"
    methods = {}

    def call(self, ip, st, f, args, kwargs):
        if len(args) != 2 or kwargs:
            raise PyRaise(SExc(TypeError, ("callback(keys, raw)",)))
        st.event("input-callback", f, args[0].snapshot(), args[1].snapshot() if hasattr(args[1], "snapshot") else args[1])
        return None


PROTOCOLS["InputLoop"] = InputLoopProtocol()
PROTOCOLS["InputCallback"] = InputCallbackProtocol()
PROTOCOLS["InputAlarm"] = type("IA", (Protocol,), {"kind": "InputAlarm", "methods": {}})()

SCREEN = Obj(_rdb.Screen, dict(_input_timeout=Opt(Opaque("InputAlarm")), _partial_codes=CODES, _resized=Bool, complete_wait=Int(0, 10)))
DECODED = ListOf(EVENT)


def _pi_loop0(v):
    orig, codes = v.original_codes, v.codes
    off = klen(orig) - klen(codes)
    yield "still-to-decode-is-a-suffix-of-the-input", is_suffix_from(codes, orig, off)
    yield "events-exactly-when-something-was-consumed", both(implies(off == 0, klen(v.decoded_codes) == 0), implies(off > 0, klen(v.decoded_codes) >= 1))


def _trace_calls(st, name):
    return [ev for ev in st.trace if ev[0] == "call" and ev[2] == name]


@contract(RD + "Screen.parse_input", property="C05", replayable=False, globals_=ENC)
class parse_input:
    self_shape = SCREEN
    params = dict(event_loop=Opt(Opaque("InputLoop")), callback=Opt(Opaque("InputCallback")), codes=CODES, wait_for_more=Bool)
    raises = ()
    modifies = ("_input_timeout", "_partial_codes", "_resized")

    def ensures(old, s, a, result):
        st = cur()
        n = klen(a.old.codes)
        cbs = [ev for ev in st.trace if ev[0] == "input-callback"]
        if is_none(a.callback):
            yield "without-a-callback-the-pair-is-returned", result is not None and len(cbs) == 0
            decoded, raw = result
        else:
            yield "with-a-callback-it-is-called-exactly-once-and-none-is-returned", result is None and len(cbs) == 1
            decoded, raw = cbs[0][2], cbs[0][3]
        part = s._partial_codes
        r = klen(raw)
        yield "raw-then-pending-is-the-input-nothing-lost-or-duplicated", both(
            r + klen(part) == n, every(0, r, lambda j: kat(raw, j) == kat(a.old.codes, j)), is_suffix_from(part, a.old.codes, r))
        yield "a-flush-leaves-nothing-pending", implies(neg(a.wait_for_more), klen(part) == 0)
        yield "events-exactly-when-input-was-consumed", both(implies(r == 0, klen(decoded) == ite(old._resized, 1, 0)), implies(r > 0, klen(decoded) >= ite(old._resized, 2, 1)))
        yield "resize-reported-once-and-flag-cleared", both(s._resized == False, implies(old._resized, klen(decoded) >= 1))  # noqa: E712
        if old._resized:
            yield "resize-is-the-last-event", eq(kat(decoded, klen(decoded) - 1), "window resize")
        alarms = _trace_calls(st, "alarm")
        removed = _trace_calls(st, "remove_alarm")
        pending = klen(part) > 0
        if is_none(a.event_loop):
            yield "no-loop-no-alarm", len(alarms) == 0 and len(removed) == 0
        else:
            if pending:
                yield "pending-input-arms-the-completion-alarm", len(alarms) == 1 and bool(eq(alarms[0][3]["seconds"], old.complete_wait)) and not is_none(s._input_timeout) and bool(eq(val(s._input_timeout), alarms[0][4]))
            else:
                yield "no-alarm-without-pending-input", len(alarms) == 0
            if not is_none(old._input_timeout):
                yield "a-previous-completion-alarm-is-removed-first", len(removed) == 1 and bool(eq(removed[0][3]["handle"], val(old._input_timeout)))
                if not pending:
                    yield "and-forgotten", is_none(s._input_timeout)

    loops = {0: Loop(invariant=_pi_loop0, decreases=lambda v: klen(v.codes), shapes={"decoded_codes": DECODED, "codes": CODES})}


# --------------------------------------------------------------------------------------------- get_available_raw_input
import selectors as _selectors  # noqa: E402

from pyvc.seqs import ModelObj  # noqa: E402


class _DrainSelector(ModelObj):
    """selectors.DefaultSelector() as used to drain the resize pipe: register() has no visible effect, select(0)
    returns an arbitrary (possibly empty) list — the readiness oracle is the operating system's."""

    def py_enter(self, ip, st):
        return self

    def py_exit(self, ip, st, exc):
        return False

    def py_havoc(self, st):
        pass

    def py_call(self, ip, st, name, args, kwargs):
        if name == "register":
            return None
        if name == "select":
            n = st.fresh_int("nready")
            st.assume(n >= 0)
            return Q.SSeq(n, lambda j: 0, Int, None, "ready")
        raise Unsupported(f"selector.{name}")


class _PipeProtocol(Protocol):
    kind = "ResizePipe"
    methods = {"recv": PMethod(Opaque("Bytes"), params=["size"])}


PROTOCOLS["ResizePipe"] = _PipeProtocol()
PROTOCOLS["Bytes"] = type("BY", (Protocol,), {"kind": "Bytes", "methods": {}})()

SCREEN_IN = Obj(_rdb.Screen, dict(_partial_codes=CODES, _resize_pipe_rd=Opaque("ResizePipe")))


@contract(RD + "Screen._get_input_codes", property="C05", assumed=True, replayable=False,
          notes="TRUSTED: reads the terminal (os.read / msvcrt through _get_keyboard_codes, a generator over I/O); "
                "assumed to return a fresh list of byte values 0..255, to leave _partial_codes alone and not to raise.")
class get_input_codes:
    self_shape = SCREEN_IN
    params = dict()
    result = CODES

    def ensures(old, s, a, result):
        yield "bytes", klen(result) >= 0

    ensures_callee = as_assumption(ensures)


def _gari_real(ip, st, f, args, kwargs):
    if f is _selectors.DefaultSelector:
        return _DrainSelector()
    return NotImplemented


@contract(RD + "Screen.get_available_raw_input", property="C05", replayable=False)
class get_available_raw_input:
    self_shape = SCREEN_IN
    params = dict()
    result = CODES
    raises = ()
    modifies = ("_partial_codes",)
    call_real = staticmethod(_gari_real)

    def ensures(old, s, a, result):
        reads = [c for c in cur().ghost.get("c05_calls", []) if c[0] == "get_input_codes"]
        yield "the-terminal-is-read-exactly-once", len(reads) == 1
        fresh = reads[0][2]
        p = klen(old._partial_codes)
        yield "pending-codes-come-first-then-the-new-input", both(
            klen(result) == p + klen(fresh),
            every(0, p, lambda j: kat(result, j) == kat(old._partial_codes, j)),
            every(0, klen(fresh), lambda j: kat(result, p + j) == kat(fresh, j)))
        yield "pending-codes-are-handed-over-not-kept", klen(s._partial_codes) == 0

    # loop 0 drains the resize pipe: no termination claim (how long the pipe stays readable is the OS's business)
    loops = {0: Loop(invariant=lambda v: True)}


# --------------------------------------------------------------------------------------------- Screen.get_input
#
# The synchronous path (no event loop): nothing but get_input itself can time out an incomplete sequence.
# The statement's clause "when the timeout does expire the pending bytes are decoded as they stand rather than
# lost" becomes the FLUSH DECISION: get_input may return holding pending codes only when its last action was a
# completion wait that reported more input ready (the next call reads it at once); otherwise - whatever keys the
# read already produced - the pending codes were decoded with wait_for_more=False in THIS call.
# Callees are known by contract only; a ghost call log (`c05_gi_calls`, filled by `logged`) records, in order, which
# of _wait_for_input_ready / get_available_raw_input / parse_input were called, with what, what they answered and
# how many codes were pending afterwards.
# Dropped: the content of the decoded events (opaque `KeyEvent`s), which branch the resize throttling takes on them
# (`abstract_contains`), logging, real time (a wait is an oracle answering "ready" or "not ready"; a timeout is an
# integer in some unit of which only the identity matters: which of the three waits was used).
TIME = Int(0, 1000)
SCREEN_GI = Obj(_rdb.Screen, dict(
    _started=Bool, _next_timeout=Opt(TIME), complete_wait=TIME, resize_wait=TIME, prev_input_resize=Int(0, 2),
    _partial_codes=CODES, _resized=Bool, _input_timeout=Opt(Opaque("InputAlarm")), _resize_pipe_rd=Opaque("ResizePipe")))


def logged(name, ens):
    """`ensures_callee` form of `ens` (see as_assumption) that also appends the call to the ghost log of get_input."""

    def g(old, s, a, result):
        st = cur()
        st.ghost["c05_assuming"] = st.ghost.get("c05_assuming", 0) + 1
        try:
            out = list(Contract._gen(ens(old, s, a, result)))
        finally:
            st.ghost["c05_assuming"] -= 1
        entry = dict(name=name, a=a, result=result, pending_after=klen(s._partial_codes))
        if name == "parse":
            # lengths AT THE TIME of the call (the caller goes on to extend the very lists it was handed)
            entry["n_decoded"], entry["n_raw"] = klen(val(result)[0]), klen(val(result)[1])
        st.ghost.setdefault("c05_gi_calls", []).append(entry)
        return out

    return staticmethod(g)


def _wait_ens(old, s, a, result):
    yield "descriptors", klen(result) >= 0


@contract(RD + "Screen._wait_for_input_ready", property="C05", assumed=True, replayable=False,
          notes="TRUSTED: select() on the input descriptors (operating system); assumed to return a fresh list of "
                "descriptors (empty = the timeout expired with nothing readable), to change nothing and not to raise.")
class wait_for_input_ready:
    self_shape = SCREEN_GI
    params = dict(timeout=Opt(TIME))
    result = ListOf(Int(0, 1 << 20))
    ensures = _wait_ens
    ensures_callee = logged("wait", _wait_ens)


def _gari_callee(old, s, a, result):
    """get_available_raw_input as seen by a caller: the pending codes, then whatever the terminal had."""
    p = klen(old._partial_codes)
    yield "pending-codes-come-first", klen(result) >= p  # (lengths only: callers reason about how much is pending, not what)
    yield "pending-codes-are-handed-over-not-kept", klen(s._partial_codes) == 0


get_available_raw_input.ensures_callee = logged("read", _gari_callee)


def _pi_callee(old, s, a, result):
    """parse_input as seen by a caller that passes no callback: (decoded, raw) is returned (clauses of its
    postcondition that do not speak about the events of its body)."""
    n = klen(a.old.codes)
    yield "without-a-callback-the-pair-is-returned", both(is_none(a.callback), neg(is_none(result)))
    decoded, raw = val(result)
    part = s._partial_codes
    r = klen(raw)
    yield "raw-then-pending-is-the-input-nothing-lost-or-duplicated", r + klen(part) == n  # (lengths only, quantifier-free)
    yield "a-flush-leaves-nothing-pending", implies(neg(a.wait_for_more), klen(part) == 0)
    yield "events-exactly-when-input-was-consumed", both(implies(r == 0, klen(decoded) == ite(old._resized, 1, 0)), implies(r > 0, klen(decoded) >= ite(old._resized, 2, 1)))
    yield "resize-flag-cleared", s._resized == False  # noqa: E712


parse_input.result = Opt(Tup(DECODED, CODES))
# (without a callback the pair is returned: no case split on the result at such a call site)
parse_input.result_shape = staticmethod(lambda vals: Tup(DECODED, CODES) if vals.get("callback") is None else None)
parse_input.ensures_callee = logged("parse", _pi_callee)


def _same_term(x, y):
    """Ghost-level: the value passed is syntactically the given field (which of the timeouts was used)."""
    if x is None or y is None or isinstance(x, SOpt) or isinstance(y, SOpt):
        return False
    return str(V._z(x)) == str(V._z(y))


def _same_codes(x, y):
    return both(klen(x) == klen(y), every(0, klen(x), lambda j: kat(x, j) == kat(y, j)))


class _GetInput:
    self_shape = SCREEN_GI
    params = dict(raw_keys=Bool)
    raises = (RuntimeError,)
    modifies = ("_partial_codes", "_resized", "prev_input_resize")
    abstract_contains = True  # `"window resize" in new_keys` (resize throttling): both answers are explored
    no_xcheck = "every path of a started screen waits on the operating system (assumed _wait_for_input_ready) and the logger is dropped: no native run from plain fields"

    def ensures(old, s, a, result):
        calls = cur().ghost.get("c05_gi_calls", [])
        names = [c["name"] for c in calls]
        yield "started", old._started
        # the resize throttling (after the main part) is recognised by its waits: they pass self.resize_wait
        thr = [i for i, c in enumerate(calls) if c["name"] == "wait" and _same_term(c["a"].timeout, old.resize_wait)]
        main = calls[: thr[0]] if thr else calls
        mnames = [c["name"] for c in main]
        yield "waits-with-the-idle-timeout-then-reads-and-decodes", mnames[:3] == ["wait", "read", "parse"] and bool(eq(main[0]["a"].timeout, old._next_timeout))
        for i, c in enumerate(calls):
            if c["name"] == "read":
                yield f"call{i}-what-was-read-pending-codes-first-is-decoded-at-once-without-loop-or-callback", (
                    both(_same_codes(calls[i + 1]["a"].old.codes, c["result"]), is_none(calls[i + 1]["a"].event_loop), is_none(calls[i + 1]["a"].callback))
                    if i + 1 < len(calls) and names[i + 1] == "parse" else False)
        # THE FLUSH DECISION (main part)
        pend = main[-1]["pending_after"] if main else 0
        if mnames == ["wait", "read", "parse"]:
            yield "pending-codes-are-never-left-without-a-completion-wait", pend == 0
        elif mnames == ["wait", "read", "parse", "wait"]:
            yield "pending-codes-are-held-only-when-the-completion-wait-reported-more-input", both(klen(main[3]["result"]) > 0, main[3]["a"].timeout == old.complete_wait)
        elif mnames == ["wait", "read", "parse", "wait", "read", "parse"]:
            yield "an-expired-completion-wait-is-followed-by-decoding-the-pending-codes-as-they-stand", both(
                klen(main[3]["result"]) == 0, main[3]["a"].timeout == old.complete_wait, neg(main[5]["a"].wait_for_more), pend == 0)
        else:
            yield "main-part-is-read-decode-optionally-completion-wait-and-flush", False
        if not thr:
            keys = result[0] if isinstance(result, tuple) else result
            parses = [c for c in calls if c["name"] == "parse"]
            yield "every-decoded-event-is-returned-none-lost", klen(keys) == sum((c["n_decoded"] for c in parses), 0)
            if isinstance(result, tuple):
                yield "every-raw-code-is-returned-none-lost", klen(result[1]) == sum((c["n_raw"] for c in parses), 0)
        else:
            # (failed on the tree before /repo 3aded5d: resize, silence, resize, ESC 1 ms later - inside the throttling wait -,
            # silence, 'b' gave ['window resize'], ['window resize'] with ESC left pending, then ['meta b'])
            yield "resize-throttling-pending-codes-are-held-only-when-a-completion-wait-reported-more-input", implies(
                klen(s._partial_codes) > 0, both(klen(calls[-1]["result"]) > 0, calls[-1]["a"].timeout == old.complete_wait) if names[-1] == "wait" else False)
            for i, c in enumerate(calls):
                if i > thr[-1] and c["name"] == "wait":
                    yield "resize-throttling-an-expired-completion-wait-is-followed-by-decoding-as-it-stands", (
                        both(klen(c["result"]) == 0, neg(calls[i + 2]["a"].wait_for_more), calls[i + 2]["pending_after"] == 0) if i + 2 < len(calls) and names[i + 1 : i + 3] == ["read", "parse"]
                        else klen(c["result"]) > 0)

    def on_raise(old, s, a, exc):
        yield "only-when-not-started", neg(old._started)
        yield "nothing-was-read", len(cur().ghost.get("c05_gi_calls", [])) == 0


# The body is verified in two instances that together cover every receiver state (the path space of the throttling
# branch is ~40 times that of the rest): the previous call did not / did return a lone "window resize".
@contract(RD + "Screen.get_input", property="C05", replayable=False)
class get_input(_GetInput):
    self_shape, params, raises, modifies, abstract_contains, no_xcheck = _GetInput.self_shape, _GetInput.params, _GetInput.raises, _GetInput.modifies, True, _GetInput.no_xcheck
    ensures, on_raise = _GetInput.ensures, _GetInput.on_raise

    def requires(s, a):
        return s.prev_input_resize == 0


@contract(RD + "Screen.get_input", property="C05", replayable=False, alias="after-a-resize")
class get_input_after_a_resize(_GetInput):
    self_shape, params, raises, modifies, abstract_contains, no_xcheck = _GetInput.self_shape, _GetInput.params, _GetInput.raises, _GetInput.modifies, True, _GetInput.no_xcheck
    ensures, on_raise = _GetInput.ensures, _GetInput.on_raise

    def requires(s, a):
        return s.prev_input_resize >= 1
