"""C05 — terminal input decoding: the special readers of urwid/display/escape.py (X10 mouse reports,
cursor-position reports), the trie walk, process_keyqueue and the carry-over of Screen.parse_input.

Key codes are lists of ints 0..255 (`CODES`).  What the encoding keeps and drops is said per contract."""
import z3

from pyvc import seqs as Q
from pyvc import shapes as S
from pyvc import values as V
from pyvc.api import *
from pyvc.api import Contract
from pyvc.values import cur, mk_bool, mk_int

from urwid.display import escape as _esc

ES = "urwid/display/escape.py:"
CODES = ListOf(Int(0, 255))
TRIE0 = Obj(_esc.KeyqueueTrie, dict())


def _seq(r):
    return r.seq if hasattr(r, "seq") else r


def klen(r):
    return Q.seq_len(_seq(r))


def kat(r, j):
    return Q.seq_get(_seq(r), j)


def as_assumption(ens):
    """`ensures_callee` form of an `ensures`: the same clauses, evaluated with the flag that makes `every`
    produce a genuine quantifier (an assumption at a call site) instead of a Skolem instance (a goal)."""

    def g(*args):
        st = cur()
        st.ghost["c05_assuming"] = st.ghost.get("c05_assuming", 0) + 1
        try:
            return list(Contract._gen(ens(*args)))
        finally:
            st.ghost["c05_assuming"] -= 1

    return staticmethod(g)


def every(lo, hi, fn):
    """For all lo <= j < hi: fn(j).  As a proof goal: fn at one fresh (arbitrary) index, which is equivalent and
    keeps a false goal decidable (a counterexample index is found at once); as an assumption: a quantifier."""
    st = cur()
    if st.ghost.get("c05_assuming", 0) or st.capture is not None:
        return forall(lo, hi, fn)
    j = st.fresh_int("any_j")
    return implies(both(lo <= j, j < hi), fn(j))


def is_suffix_from(rem, keys, d):
    """rem == keys[d:]  (0 <= d <= len(keys)), element-wise."""
    n = klen(keys)
    return both(0 <= d, d <= n, klen(rem) == n - d, every(0, klen(rem), lambda j: kat(rem, j) == kat(keys, d + j)))


def bit(b, k):
    """Bit k of the (non-negative) integer b, arithmetically."""
    return (b // (2**k)) % 2 == 1


# --------------------------------------------------------------------------------------------- X10 mouse report
#
# ESC [ M  Cb Cx Cy : Cb = 32 + b, Cx = 33 + x, Cy = 33 + y  (xterm ctlseqs, "Normal tracking mode");
# b: bits 0-1 button number (3 = release), bit 2 shift, bit 3 meta, bit 4 control, bit 5 motion (drag),
# bit 6 wheel (buttons 4, 5).  The event name is a real Python string on every path (the modifiers are
# decided by branches), so the clause states the exact documented name.


def x10_name(b):
    """Documented event name for the X10 button byte b (0 <= b < 224), from the protocol layout."""
    prefix = ("shift " if bit(b, 2) else "") + ("meta " if bit(b, 3) else "") + ("ctrl " if bit(b, 4) else "")
    if b % 4 == 3:
        action = "release"
    elif bit(b, 5):
        action = "drag"
    else:
        action = "press"
    return f"{prefix}mouse {action}"


def x10_button(b):
    """Button number: 1..3 plain, 4..5 wheel, 0 when the report is a release (which button is not known)."""
    return ite(b % 4 == 3, 0, b % 4 + 1 + ite(bit(b, 6), 3, 0))


def _xcheck_and_mask():
    """Engine cross-check (CPython): the arithmetic form of `x & mask` used by pyvc for EVERY integer x."""
    from pyvc.interp import and_mask_formula

    masks = (0, 1, 3, 4, 8, 16, 32, 64, 96, 0xC0, 0xE0, 0xF0, 0xF8, 1536, 2048, 2047, 5, 0x55)
    bad = [(x, m) for x in range(-5000, 5000) for m in masks if and_mask_formula(x, m) != x & m]
    return "and-mask-formula-agrees-with-cpython", not bad, f"{10000 * len(masks)} cases, mismatches: {bad[:3]}"


@contract(ES + "KeyqueueTrie.read_mouse_info", property="C05", replayable=False)
class read_mouse_info:
    self_shape = TRIE0
    params = dict(keys=CODES, more_available=Bool)
    raises = (_esc.MoreInputRequired,)
    static_checks = [_xcheck_and_mask]

    def ensures(old, s, a, result):
        n = klen(a.keys)
        if result is None:
            yield "none-only-when-truncated-and-nothing-more-can-come", both(n < 3, neg(a.more_available))
            return
        (name, button, x, y), rem = result
        yield "complete-report-is-decoded", n >= 3
        yield "consumes-exactly-three-codes-left-to-right", is_suffix_from(rem, a.keys, 3)
        yield "column-and-row-are-the-bytes-less-33-wrapped-into-0-255", both(
            x == ite(kat(a.keys, 1) >= 33, kat(a.keys, 1) - 33, kat(a.keys, 1) + 223),
            y == ite(kat(a.keys, 2) >= 33, kat(a.keys, 2) - 33, kat(a.keys, 2) + 223))
        b = kat(a.keys, 0) - 32
        if b >= 0:
            yield "button-per-the-x10-layout", button == x10_button(b)
            yield "documented-name-per-the-x10-layout", name == x10_name(b)
        else:
            # Cb < 32 is not an X10 button byte: nothing documented beyond "an event that is a mouse event"
            yield "malformed-button-byte-still-a-release-event", both(name.endswith("mouse release"), 0 <= button, button <= 7)

    def on_raise(old, s, a, exc):
        yield "more-input-asked-only-when-more-can-come-and-the-report-is-incomplete", both(a.more_available, klen(a.keys) < 3)
