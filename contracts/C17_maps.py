"""C17/C02 — attribute maps compose: the REAL bodies of CompositeCanvas.fill_attr_apply / fill_attr over the real
shard structure, and AttrMap's validation of the maps it is given.

Statement (C17): "An attribute map replaces exactly the attributes it lists, leaves others untouched, and nested maps
compose so that the outer map is applied to the result of the inner one."  With

    apply(m, a) = m[a] if a in m else a                 (m a dict;  apply(None, a) = a)

the clause for fill_attr_apply(mapping) is, for EVERY cview of every shard and EVERY attribute a,

    apply(new_map, a) == apply(mapping, apply(old_map, a))

`a in m` is membership, not truthiness of m[a]: a mapping to a FALSY attribute (None, 0, '') is a mapping (the slip
`mapping.get(v) or v` is caught by the None target).  Statement (C02, canvas protocol): attribute remapping changes
nothing else -- the shard heights, every cview's rectangle and source canvas, the cursor / pop-up coordinates.

Model: the shard list is the real nested structure  [(num_rows, [cview, ...]), ...]  with
cview = (trim_left, trim_top, cols, rows, attr_map | None, canvas); attribute maps are dicts with SYMBOLIC keys
(pyvc/fmap.py; None is a legal key); attributes are arbitrary hashable values or None (Opt(Opaque("Attr")) -- the type
of fill_attr_apply's parameter is dict[Hashable | None, Hashable]; AttrMap validates it, see set_attr_map below) whose
truthiness is uninterpreted (an attribute may be falsy without being None).  "For every shard / cview / attribute" is
proved for arbitrary constants I, J, A (universal generalisation: nothing is assumed about them), which keeps every
query quantifier-free; the finite-map axioms are instantiated at the terms read (pyvc/fmap.py)."""
import z3

from pyvc import seqs as Q
from pyvc import shapes as S
from pyvc import values as V
from pyvc.api import *
from pyvc.api import PROTOCOLS, REGISTRY
from pyvc.engine import SExc
from pyvc.fmap import MapOf, SFMap, _ite_any, as_mapval, xcheck_fmap
from pyvc.protocol import Protocol
from pyvc.seqs import DRef, LRef
from pyvc.values import SOpt, cur, mk_bool

from contracts.C02_canvas import _fresh_coords, _finalized_error, popup_moved
from urwid import canvas as _canvas

CV = "urwid/canvas.py:"

_TRUTHY = z3.Function("Attr.truthy", S.opaque_sort("Attr"), z3.BoolSort())


def _attr_truth(st, v):
    return mk_bool(_TRUTHY(v.e))


class _AttrP(Protocol):
    """Display attributes: opaque hashable values.  `isinstance(a, Hashable)` is an uninterpreted predicate (a VALUE of
    a user-supplied dict may be unhashable; a key never is: has(k) => hashable(k), asserted where items are read)."""

    kind = "Attr"
    methods = {}

    def isinstance(self, ip, st, obj, cls):
        from collections.abc import Hashable

        if cls is Hashable:
            return hashable(obj)
        if cls is object:
            return True
        raise Unsupported(f"isinstance(<attribute>, {getattr(cls, '__name__', cls)})")


if "Attr" not in PROTOCOLS:
    PROTOCOLS["Attr"] = _AttrP()
for _k in ("LeafCanvas", "WidgetInfo", "PopUpData"):
    if _k not in PROTOCOLS:
        PROTOCOLS[_k] = type(_k + "P", (Protocol,), {"kind": _k, "methods": {}})()

_HASHABLE = z3.Function("Attr.hashable", S.opaque_sort("Attr"), z3.BoolSort())


def hashable(x):
    """isinstance(x, Hashable) for an attribute value (None is hashable)."""
    if x is None:
        return True
    if isinstance(x, SOpt):
        return either(mk_bool(x.isnone), mk_bool(_HASHABLE(x.val.e)))
    return mk_bool(_HASHABLE(x.e))


ATTRV = Opt(Opaque("Attr", truth=_attr_truth))
AMAP = MapOf(ATTRV, ATTRV)
CVIEW_R = Tup(Int, Int, Int, Int, Opt(AMAP), Opaque("LeafCanvas"))
CVIEWS = ListOf(CVIEW_R)
SHARDS = ListOf(Tup(Int, CVIEWS))
REAL_CC2 = Obj(_canvas.CompositeCanvas, dict(shards=SHARDS, coords=S.Custom(_fresh_coords, "coords"), _widget_info=Opt(Opaque("WidgetInfo"))))


def aeq(x, y):
    return opt_eq(x, y)


def mapval(m):
    return as_mapval(m, ATTRV, ATTRV)


def apply(m, a):
    """apply(m, a) = m[a] if a in m else a, for a dict model m (SFMap, MapVal, constant-key DRef)."""
    mv = mapval(m)
    return _ite_any(mv.has(a), mv.val(a), a)


def apply_opt(om, a):
    """apply through an optional map: None maps nothing."""
    if om is None:
        return a
    if isinstance(om, SOpt):
        return _ite_any(mk_bool(om.isnone), a, apply(om.val, a))
    return apply(om, a)


def arb_attr(name="A"):
    """An arbitrary attribute: one unconstrained constant per (path, name) -- see pyvc.values.arbitrary."""
    d = cur().ghost.setdefault("arbitrary_attr", {})
    if name not in d:
        d[name] = ATTRV.fresh(cur(), name)
    return d[name]


def _in(j, n):
    return both(V._cmp(">=", j, 0), V._cmp("<", j, n))


def same_geometry(new, old):
    """The cview shows the same rectangle of the same canvas."""
    return both(new[0] == old[0], new[1] == old[1], new[2] == old[2], new[3] == old[3], eq(new[5], old[5]))


def cv_composed(new, old, mapping, A):
    """new's map is a dict (never None) that acts on A as `mapping` applied to the result of old's map."""
    if len(new) != 6:
        return False
    nm = new[4]
    not_none = neg(opt_isnone(nm)) if isinstance(nm, SOpt) else (nm is not None)
    return both(not_none, aeq(apply(val(nm), A), apply(mapping, apply_opt(old[4], A))))


def _empty(seq):
    seq = seq.seq if isinstance(seq, LRef) else seq
    return isinstance(seq, tuple) and not seq


def cviews_ok(new, old, upto, mapping, J, A, what):
    if _empty(new) or _empty(old):
        return neg(_in(J, upto))
    return implies(_in(J, upto), what(Q.seq_get(new, J), Q.seq_get(old, J), mapping, A))


def _cv_geometry(new, old, mapping, A):
    return len(new) == 6 and same_geometry(new, old)


def _cv_all(new, old, mapping, A):
    return len(new) == 6 and both(same_geometry(new, old), cv_composed(new, old, mapping, A))


def _inner_inv(v):
    J, A = V.arbitrary("J"), arb_attr()
    yield "one-new-cview-per-cview-seen", Q.seq_len(v.new_cviews) == v.i_
    yield "cviews-so-far-keep-their-rectangle-and-compose-the-maps", cviews_ok(v.new_cviews, v.original_cviews, v.i_, v.mapping, J, A, _cv_all)
    yield "mapping-argument-untouched", _arg_untouched(v, v.old.old.mapping)


def _shard_ok(new, old, mapping, J, A):
    return both(new[0] == old[0], Q.seq_len(new[1]) == Q.seq_len(old[1]), cviews_ok(new[1], old[1], Q.seq_len(old[1]), mapping, J, A, _cv_all))


def _outer_inv(v):
    I, J, A = V.arbitrary("I"), V.arbitrary("J"), arb_attr()
    yield "one-new-shard-per-shard-seen", Q.seq_len(v.shards) == v.i_
    yield "shards-so-far-keep-their-geometry-and-compose-the-maps", neg(_in(I, v.i_)) if _empty(v.shards) else implies(_in(I, v.i_), _shard_ok(Q.seq_get(v.shards, I), Q.seq_get(v.iter_, I), v.mapping, J, A))
    yield "mapping-argument-untouched", _arg_untouched(v, v.old.old.mapping)


def _arg_untouched(a, at_entry=None):
    """The dict passed as `mapping` still holds the value it had at entry."""
    m, m0 = a.mapping, at_entry if at_entry is not None else a.old.mapping
    assert m is not m0
    if isinstance(m, DRef):
        return m.d.keys() == m0.d.keys() and all(m.d[k] is m0.d[k] for k in m.d)
    return m.v is m0.v


def _remember_shard_list(st, self_obj, vals):
    st.ghost["shards_at_entry"] = (self_obj.fields["shards"], self_obj.fields["shards"].seq)


def _entry_list_untouched():
    ref, seq0 = cur().ghost["shards_at_entry"]
    return ref.seq is seq0


def _coords_same(old, s):
    return both(s.coords is not None, s.coords.d.keys() == old.coords.d.keys(), *[V.struct_eq(s.coords.d[k], old.coords.d[k]) for k in old.coords.d if k in s.coords.d])


def _xcheck():
    ok, detail = xcheck_fmap()
    return "finite-map-model-agrees-with-cpython-dict", ok, detail


@contract(CV + "CompositeCanvas.fill_attr_apply", property=("C17", "C02"), alias="real-fields", inline=("Canvas.widget_info",), missing_field=_finalized_error, replayable=False)
class real_fill_attr_apply:
    """The real body over the real shard list.  Callers (AttrMap.render ...) keep seeing the canvas-protocol contract
    `cc_fill_attr_apply` ("attributes only": no field of the protocol model changes); the clauses below are what that
    assumption means on the real fields -- shard heights, cview rectangles and sources, coords unchanged -- plus the
    C17 composition law."""

    self_shape = REAL_CC2
    params = dict(mapping=AMAP)
    raises = (_canvas.CanvasError,)
    modifies = ("shards",)
    setup = staticmethod(_remember_shard_list)
    static_checks = [_xcheck]

    def ensures(old, s, a, result):
        I, J, A = V.arbitrary("I"), V.arbitrary("J"), arb_attr()
        n = Q.seq_len(old.shards)
        yield "returns-none", result is None
        yield "only-an-unfinalized-canvas-is-changed", is_none(old._widget_info)
        yield "same-number-of-shards", Q.seq_len(s.shards) == n
        new_sh, old_sh = Q.seq_get(s.shards, I), Q.seq_get(old.shards, I)
        yield "shard-heights-unchanged", implies(_in(I, n), new_sh[0] == old_sh[0])
        yield "same-number-of-cviews-per-shard", implies(_in(I, n), Q.seq_len(new_sh[1]) == Q.seq_len(old_sh[1]))
        m = Q.seq_len(old_sh[1])
        yield "every-cview-keeps-its-rectangle-and-source-canvas", implies(_in(I, n), cviews_ok(new_sh[1], old_sh[1], m, a.mapping, J, A, _cv_geometry))
        yield "outer-map-applied-to-the-result-of-the-inner-map", implies(_in(I, n), cviews_ok(new_sh[1], old_sh[1], m, a.mapping, J, A, cv_composed))
        yield "cursor-and-pop-up-unchanged", _coords_same(old, s)
        yield "stays-unfinalized", is_none(s._widget_info)
        yield "mapping-argument-not-mutated", _arg_untouched(a)
        yield "the-shard-list-held-at-entry-is-not-mutated", _entry_list_untouched()

    def on_raise(old, s, a, exc):
        yield "canvas-error-only-when-finalized", not is_none(old._widget_info)
        yield "finalized-canvas-unchanged", both(s.shards is old_shards_ref(), _entry_list_untouched(), _coords_same(old, s), _arg_untouched(a))

    loops = {
        0: Loop(invariant=_outer_inv, shapes={"shards": SHARDS}),
        1: Loop(invariant=_inner_inv, shapes={"new_cviews": CVIEWS}),
    }


def old_shards_ref():
    return cur().ghost["shards_at_entry"][0]


@contract(CV + "CompositeCanvas.fill_attr", property=("C17", "C02"), alias="real-fields", contract_overrides={CV + "CompositeCanvas.fill_attr_apply": real_fill_attr_apply}, replayable=False)
class real_fill_attr:
    """fill_attr(a): areas whose attribute is None get `a`, every other attribute is left intact -- i.e. the map
    {None: a} composed as in fill_attr_apply; nothing but the maps changes."""

    self_shape = REAL_CC2
    params = dict(a=ATTRV)
    raises = (_canvas.CanvasError,)
    modifies = ("shards",)
    setup = staticmethod(_remember_shard_list)

    def ensures(old, s, a, result):
        I, J, A = V.arbitrary("I"), V.arbitrary("J"), arb_attr()
        n = Q.seq_len(old.shards)
        fill = DRef({None: a.a})
        yield "returns-none", result is None
        yield "only-an-unfinalized-canvas-is-changed", is_none(old._widget_info)
        yield "same-number-of-shards", Q.seq_len(s.shards) == n
        new_sh, old_sh = Q.seq_get(s.shards, I), Q.seq_get(old.shards, I)
        m = Q.seq_len(old_sh[1])
        yield "shard-heights-and-cview-counts-unchanged", implies(_in(I, n), both(new_sh[0] == old_sh[0], Q.seq_len(new_sh[1]) == m))
        yield "every-cview-keeps-its-rectangle-and-source-canvas", implies(_in(I, n), cviews_ok(new_sh[1], old_sh[1], m, fill, J, A, _cv_geometry))

        def none_filled(nw, ol, mp, at_):
            nm = nw[4]
            before = apply_opt(ol[4], at_)
            return both(neg(opt_isnone(nm)) if isinstance(nm, SOpt) else nm is not None, aeq(apply(val(nm), at_), _ite_any(opt_isnone(before) if isinstance(opt_isnone(before), V.SBool) else mk_bool(z3.BoolVal(bool(opt_isnone(before)))), a.a, before)))

        yield "none-becomes-the-fill-attribute-others-stay", implies(_in(I, n), cviews_ok(new_sh[1], old_sh[1], m, fill, J, A, none_filled))
        yield "cursor-and-pop-up-unchanged", _coords_same(old, s)

    def on_raise(old, s, a, exc):
        yield "canvas-error-only-when-finalized", not is_none(old._widget_info)
        yield "finalized-canvas-unchanged", both(_entry_list_untouched(), _coords_same(old, s))
