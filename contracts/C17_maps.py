"""C17/C02 — attribute maps compose: the REAL bodies of CompositeCanvas.fill_attr_apply / fill_attr over the real
shard structure, and AttrMap's validation of the maps it is given.

Statement (C17): "An attribute map replaces exactly the attributes it lists, leaves others untouched, and nested maps
compose so that the outer map is applied to the result of the inner one."  With

    apply(m, a) = m[a] if a in m else a                 (m a dict;  apply(None, a) = a)

the clause for fill_attr_apply(mapping) is, for EVERY cview of every shard and EVERY attribute a,

    apply(new_map, a) == apply(mapping, apply(old_map, a))

`a in m` is membership, not truthiness of m[a]: a mapping to a FALSY attribute (None, 0, '') is a mapping (the slip
`mapping.get(v) or v` is caught by the None target).  Statement (C02, canvas protocol): attribute remapping changes
nothing else -- the shard heights, every cview's rectangle and source canvas, the cursor / pop-up coordinates.

Model: the shard list is the real nested structure  [(num_rows, [cview, ...]), ...]  with
cview = (trim_left, trim_top, cols, rows, attr_map | None, canvas); attribute maps are dicts with SYMBOLIC keys
(pyvc/fmap.py; None is a legal key); attributes are arbitrary hashable values or None (Opt(Opaque("Attr")) -- the type
of fill_attr_apply's parameter is dict[Hashable | None, Hashable]; AttrMap validates it, see set_attr_map below) whose
truthiness is uninterpreted (an attribute may be falsy without being None).  "For every shard / cview / attribute" is
proved for arbitrary constants I, J, A (universal generalisation: nothing is assumed about them), which keeps every
query quantifier-free; the finite-map axioms are instantiated at the terms read (pyvc/fmap.py)."""
import z3

from pyvc import seqs as Q
from pyvc import shapes as S
from pyvc import values as V
from pyvc.api import *
from pyvc.api import PROTOCOLS, REGISTRY
from pyvc.engine import SExc
from pyvc.fmap import MapOf, SFMap, _ite_any, as_mapval, xcheck_fmap
from pyvc.protocol import Protocol
from pyvc.seqs import DRef, LRef
from pyvc.values import SOpt, cur, mk_bool

from contracts.C02_canvas import _fresh_coords, _finalized_error, popup_moved
from urwid import canvas as _canvas

CV = "urwid/canvas.py:"

_TRUTHY = z3.Function("Attr.truthy", S.opaque_sort("Attr"), z3.BoolSort())


def _attr_truth(st, v):
    return mk_bool(_TRUTHY(v.e))


class _AttrP(Protocol):
    """Display attributes: opaque hashable values.  `isinstance(a, Hashable)` is an uninterpreted predicate (a VALUE of
    a user-supplied dict may be unhashable; a key never is: has(k) => hashable(k), asserted where items are read)."""

    kind = "Attr"
    methods = {}

    def isinstance(self, ip, st, obj, cls):
        from collections.abc import Hashable

        if cls is Hashable:
            return hashable(obj)
        if cls is object:
            return True
        raise Unsupported(f"isinstance(<attribute>, {getattr(cls, '__name__', cls)})")


if "Attr" not in PROTOCOLS:
    PROTOCOLS["Attr"] = _AttrP()
for _k in ("LeafCanvas", "WidgetInfo", "PopUpData"):
    if _k not in PROTOCOLS:
        PROTOCOLS[_k] = type(_k + "P", (Protocol,), {"kind": _k, "methods": {}})()

_HASHABLE = z3.Function("Attr.hashable", S.opaque_sort("Attr"), z3.BoolSort())


def hashable(x):
    """isinstance(x, Hashable) for an attribute value (None is hashable)."""
    if x is None:
        return True
    if isinstance(x, (SFMap, DRef, LRef)):
        return False  # dicts and lists are unhashable
    if isinstance(x, SOpt):
        return either(mk_bool(x.isnone), mk_bool(_HASHABLE(x.val.e)))
    return mk_bool(_HASHABLE(x.e))


ATTRV = Opt(Opaque("Attr", truth=_attr_truth))
AMAP = MapOf(ATTRV, ATTRV)
CVIEW_R = Tup(Int, Int, Int, Int, Opt(AMAP), Opaque("LeafCanvas"))
CVIEWS = ListOf(CVIEW_R)
SHARDS = ListOf(Tup(Int, CVIEWS))
REAL_CC2 = Obj(_canvas.CompositeCanvas, dict(shards=SHARDS, coords=S.Custom(_fresh_coords, "coords"), _widget_info=Opt(Opaque("WidgetInfo"))))


def aeq(x, y):
    return opt_eq(x, y)


def mapval(m):
    return as_mapval(m, ATTRV, ATTRV)


def apply(m, a):
    """apply(m, a) = m[a] if a in m else a, for a dict model m (SFMap, MapVal, constant-key DRef)."""
    mv = mapval(m)
    return _ite_any(mv.has(a), mv.val(a), a)


def apply_opt(om, a):
    """apply through an optional map: None maps nothing."""
    if om is None:
        return a
    if isinstance(om, SOpt):
        return _ite_any(mk_bool(om.isnone), a, apply(om.val, a))
    return apply(om, a)


def arb_attr(name="A"):
    """An arbitrary attribute: one unconstrained constant per (path, name) -- see pyvc.values.arbitrary."""
    d = cur().ghost.setdefault("arbitrary_attr", {})
    if name not in d:
        d[name] = ATTRV.fresh(cur(), name)
    return d[name]


def _in(j, n):
    return both(V._cmp(">=", j, 0), V._cmp("<", j, n))


def same_geometry(new, old):
    """The cview shows the same rectangle of the same canvas."""
    return both(new[0] == old[0], new[1] == old[1], new[2] == old[2], new[3] == old[3], eq(new[5], old[5]))


def cv_composed(new, old, mapping, A):
    """new's map is a dict (never None) that acts on A as `mapping` applied to the result of old's map."""
    if len(new) != 6:
        return False
    nm = new[4]
    not_none = neg(opt_isnone(nm)) if isinstance(nm, SOpt) else (nm is not None)
    return both(not_none, aeq(apply(val(nm), A), apply(mapping, apply_opt(old[4], A))))


def _empty(seq):
    seq = seq.seq if isinstance(seq, LRef) else seq
    return isinstance(seq, tuple) and not seq


def cviews_ok(new, old, upto, mapping, J, A, what):
    if _empty(new) or _empty(old):
        return neg(_in(J, upto))
    return implies(_in(J, upto), what(Q.seq_get(new, J), Q.seq_get(old, J), mapping, A))


def _cv_geometry(new, old, mapping, A):
    return len(new) == 6 and same_geometry(new, old)


def _cv_all(new, old, mapping, A):
    return len(new) == 6 and both(same_geometry(new, old), cv_composed(new, old, mapping, A))


def _inner_inv(v):
    J, A = V.arbitrary("J"), arb_attr()
    yield "one-new-cview-per-cview-seen", Q.seq_len(v.new_cviews) == v.i_
    yield "cviews-so-far-keep-their-rectangle-and-compose-the-maps", cviews_ok(v.new_cviews, v.original_cviews, v.i_, v.mapping, J, A, _cv_all)
    yield "mapping-argument-untouched", _arg_untouched(v, v.old.old.mapping)


def _shard_ok(new, old, mapping, J, A):
    return both(new[0] == old[0], Q.seq_len(new[1]) == Q.seq_len(old[1]), cviews_ok(new[1], old[1], Q.seq_len(old[1]), mapping, J, A, _cv_all))


def _outer_inv(v):
    I, J, A = V.arbitrary("I"), V.arbitrary("J"), arb_attr()
    yield "one-new-shard-per-shard-seen", Q.seq_len(v.shards) == v.i_
    yield "shards-so-far-keep-their-geometry-and-compose-the-maps", neg(_in(I, v.i_)) if _empty(v.shards) else implies(_in(I, v.i_), _shard_ok(Q.seq_get(v.shards, I), Q.seq_get(v.iter_, I), v.mapping, J, A))
    yield "mapping-argument-untouched", _arg_untouched(v, v.old.old.mapping)


def _arg_untouched(a, at_entry=None):
    """The dict passed as `mapping` still holds the value it had at entry."""
    m, m0 = a.mapping, at_entry if at_entry is not None else a.old.mapping
    assert m is not m0
    if isinstance(m, DRef):
        return m.d.keys() == m0.d.keys() and all(m.d[k] is m0.d[k] for k in m.d)
    return m.v is m0.v


def _remember_shard_list(st, self_obj, vals):
    st.ghost["shards_at_entry"] = (self_obj.fields["shards"], self_obj.fields["shards"].seq)


def _entry_list_untouched():
    ref, seq0 = cur().ghost["shards_at_entry"]
    return ref.seq is seq0


def _coords_same(old, s):
    return both(s.coords is not None, s.coords.d.keys() == old.coords.d.keys(), *[V.struct_eq(s.coords.d[k], old.coords.d[k]) for k in old.coords.d if k in s.coords.d])


def _xcheck():
    ok, detail = xcheck_fmap()
    return "finite-map-model-agrees-with-cpython-dict", ok, detail


@contract(CV + "CompositeCanvas.fill_attr_apply", property=("C17", "C02"), alias="real-fields", inline=("Canvas.widget_info",), missing_field=_finalized_error, replayable=False)
class real_fill_attr_apply:
    """The real body over the real shard list.  Callers (AttrMap.render ...) keep seeing the canvas-protocol contract
    `cc_fill_attr_apply` ("attributes only": no field of the protocol model changes); the clauses below are what that
    assumption means on the real fields -- shard heights, cview rectangles and sources, coords unchanged -- plus the
    C17 composition law."""

    self_shape = REAL_CC2
    params = dict(mapping=AMAP)
    raises = (_canvas.CanvasError,)
    modifies = ("shards",)
    setup = staticmethod(_remember_shard_list)
    static_checks = [_xcheck]

    def ensures(old, s, a, result):
        I, J, A = V.arbitrary("I"), V.arbitrary("J"), arb_attr()
        n = Q.seq_len(old.shards)
        yield "returns-none", result is None
        yield "only-an-unfinalized-canvas-is-changed", is_none(old._widget_info)
        yield "same-number-of-shards", Q.seq_len(s.shards) == n
        new_sh, old_sh = Q.seq_get(s.shards, I), Q.seq_get(old.shards, I)
        yield "shard-heights-unchanged", implies(_in(I, n), new_sh[0] == old_sh[0])
        yield "same-number-of-cviews-per-shard", implies(_in(I, n), Q.seq_len(new_sh[1]) == Q.seq_len(old_sh[1]))
        m = Q.seq_len(old_sh[1])
        yield "every-cview-keeps-its-rectangle-and-source-canvas", implies(_in(I, n), cviews_ok(new_sh[1], old_sh[1], m, a.mapping, J, A, _cv_geometry))
        yield "outer-map-applied-to-the-result-of-the-inner-map", implies(_in(I, n), cviews_ok(new_sh[1], old_sh[1], m, a.mapping, J, A, cv_composed))
        yield "cursor-and-pop-up-unchanged", _coords_same(old, s)
        yield "stays-unfinalized", is_none(s._widget_info)
        yield "mapping-argument-not-mutated", _arg_untouched(a)
        yield "the-shard-list-held-at-entry-is-not-mutated", _entry_list_untouched()

    def on_raise(old, s, a, exc):
        yield "canvas-error-only-when-finalized", not is_none(old._widget_info)
        yield "finalized-canvas-unchanged", both(s.shards is old_shards_ref(), _entry_list_untouched(), _coords_same(old, s), _arg_untouched(a))

    loops = {
        0: Loop(invariant=_outer_inv, shapes={"shards": SHARDS}),
        1: Loop(invariant=_inner_inv, shapes={"new_cviews": CVIEWS}),
    }


def old_shards_ref():
    return cur().ghost["shards_at_entry"][0]


@contract(CV + "CompositeCanvas.fill_attr", property=("C17", "C02"), alias="real-fields", contract_overrides={CV + "CompositeCanvas.fill_attr_apply": real_fill_attr_apply}, replayable=False)
class real_fill_attr:
    """fill_attr(a): areas whose attribute is None get `a`, every other attribute is left intact -- i.e. the map
    {None: a} composed as in fill_attr_apply; nothing but the maps changes."""

    self_shape = REAL_CC2
    params = dict(a=ATTRV)
    raises = (_canvas.CanvasError,)
    modifies = ("shards",)
    setup = staticmethod(_remember_shard_list)

    def ensures(old, s, a, result):
        I, J, A = V.arbitrary("I"), V.arbitrary("J"), arb_attr()
        n = Q.seq_len(old.shards)
        fill = DRef({None: a.a})
        yield "returns-none", result is None
        yield "only-an-unfinalized-canvas-is-changed", is_none(old._widget_info)
        yield "same-number-of-shards", Q.seq_len(s.shards) == n
        new_sh, old_sh = Q.seq_get(s.shards, I), Q.seq_get(old.shards, I)
        m = Q.seq_len(old_sh[1])
        yield "shard-heights-and-cview-counts-unchanged", implies(_in(I, n), both(new_sh[0] == old_sh[0], Q.seq_len(new_sh[1]) == m))
        yield "every-cview-keeps-its-rectangle-and-source-canvas", implies(_in(I, n), cviews_ok(new_sh[1], old_sh[1], m, fill, J, A, _cv_geometry))

        def none_filled(nw, ol, mp, at_):
            nm = nw[4]
            before = apply_opt(ol[4], at_)
            return both(neg(opt_isnone(nm)) if isinstance(nm, SOpt) else nm is not None, aeq(apply(val(nm), at_), _ite_any(opt_isnone(before) if isinstance(opt_isnone(before), V.SBool) else mk_bool(z3.BoolVal(bool(opt_isnone(before)))), a.a, before)))

        yield "none-becomes-the-fill-attribute-others-stay", implies(_in(I, n), cviews_ok(new_sh[1], old_sh[1], m, fill, J, A, none_filled))
        yield "cursor-and-pop-up-unchanged", _coords_same(old, s)

    def on_raise(old, s, a, exc):
        yield "canvas-error-only-when-finalized", not is_none(old._widget_info)
        yield "finalized-canvas-unchanged", both(_entry_list_untouched(), _coords_same(old, s))


# ================================================================================================================
# AttrMap: the maps it is given.  set_attr_map / set_focus_map accept a dict whose every entry is hashable (keys of a
# dict always are; a VALUE may not be -- it would later be used as a key when maps are composed in
# CompositeCanvas.fill_attr_apply) and store THAT dict object; __init__ turns a single attribute into {None: attr}
# and copies a given Mapping.
from collections.abc import Mapping as _Mapping  # noqa: E402

import urwid as _urwid  # noqa: E402
from urwid.widget import attr_map as _am  # noqa: E402

from contracts.proto_widget import *  # noqa: E402,F401,F403  (Widget protocol, Widget._invalidate, Widget.__init__)

AM = "urwid/widget/attr_map.py:"
AMOBJ = Obj(_am.AttrMap, dict(_original_widget=Opaque("Widget"), _attr_map=AMAP, _focus_map=Opt(AMAP)))


def _attr_isinstance(self, ip, st, obj, cls):
    from collections.abc import Hashable

    if cls is Hashable:
        return hashable(obj)
    if cls is _Mapping:
        # a Mapping argument of AttrMap.__init__ is modelled by the dict alternative of its parameter shape; the
        # individuals of kind Attr are the other objects
        return False
    if cls is object:
        return True
    raise Unsupported(f"isinstance(<attribute>, {getattr(cls, '__name__', cls)})")


type(PROTOCOLS["Attr"]).isinstance = _attr_isinstance


def all_entries_hashable_at(m, A):
    """Instance at the attribute A of: every entry of m has a hashable key and a hashable value."""
    mv = mapval(m)
    return implies(mv.has(A), both(hashable(A), hashable(mv.val(A))))


def _keys_hashable(m, A):
    """Dict keys are hashable (CPython refuses to store an unhashable key): the instance at A."""
    mv = mapval(m)
    cur().assume(implies(mv.has(A), hashable(A)))


def _same_obj(x, y):
    """Field value x (now) and y (in the entry snapshot) are the same thing: snapshots copy a dict object, so dicts
    are compared by the value they hold."""
    if isinstance(x, SFMap) and isinstance(y, SFMap):
        return x.v is y.v
    if isinstance(x, DRef) and isinstance(y, DRef):
        return x.d.keys() == y.d.keys() and all(x.d[k] is y.d[k] for k in x.d)
    return x is y


def _validation_inv(name):
    def inv(v):
        A = arb_attr()
        m = getattr(v, name)
        if isinstance(m, SOpt):
            m = m.val
        mv = mapval(m)
        _keys_hashable(m, A)
        yield "entries-seen-so-far-are-hashable", implies(both(mv.has(A), mv.idx(A) < v.i_), hashable(mv.val(A)))
        yield "nothing-stored-or-invalidated-yet", both(count_ev(v.self.trace, "_invalidate") == 0, _same_obj(v.self.fields[f"_{name}"], v.old.self.fields[f"_{name}"]))

    return inv


def _witness(m, exc):
    """An entry that made the validation fail: the loop element at the raise (verification of the body), a fresh
    witness (use of the contract at a call site)."""
    st = cur()
    mv = mapval(m)
    if exc.args == ("<from callee contract>",):
        W = ATTRV.fresh(st, "unhashable_entry")
        st.ghost["unhashable_witness"] = W  # (the caller's exceptional postcondition may name it)
        return both(mv.has(W), neg(hashable(mv.val(W))))
    k, v = st.ghost["loop_elem"]
    return both(mv.has(k), aeq(mv.val(k), v), neg(both(hashable(k), hashable(v))))


def _setter(field, param, optional):
    class C:
        self_shape = AMOBJ
        params = {param: Opt(AMAP) if optional else AMAP}
        raises = (_am.AttrMapError,)
        modifies = (field,)
        loops = {0: Loop(invariant=_validation_inv(param))}

        def effects(old, s, a, result):
            s.fields[field] = getattr(a, param)  # the dict object itself is stored (no copy)
            s.trace.append(("_invalidate",))

        def ensures(old, s, a, result):
            A = arb_attr()
            m = getattr(a, param)
            yield "returns-none", result is None
            if optional and is_none(m):
                yield "none-is-stored-as-none", s.fields[field] is None
            else:
                m = val(m)
                _keys_hashable(m, A)
                yield "every-entry-is-hashable", all_entries_hashable_at(m, A)
                yield "the-given-dict-is-stored", s.fields[field] is m
            yield "invalidated-once-after-the-store", count_ev(s.trace, "_invalidate") == 1
            yield "other-fields-untouched", both(*[_same_obj(s.fields[f], old.fields[f]) for f in ("_original_widget", "_attr_map", "_focus_map") if f != field and f in old.fields])

        def on_raise(old, s, a, exc):
            m = getattr(a, param)
            yield "only-for-an-entry-that-is-not-hashable", (not (optional and is_none(m))) and _witness(val(m), exc)
            yield "nothing-stored-nothing-invalidated", both(_same_obj(s.fields.get(field), old.fields.get(field)), count_ev(s.trace, "_invalidate") == 0)

        def on_raise_callee(old, s, a, exc):
            # at a call site the receiver was havocked before the exceptional clauses are assumed: put the untouched
            # field back (the clause `nothing-stored-nothing-invalidated`, proved against the body), then the witness
            if field in old.fields:
                s.fields[field] = old.fields[field]
            else:
                s.fields.pop(field, None)
            m = getattr(a, param)
            yield "only-for-an-entry-that-is-not-hashable", (not (optional and is_none(m))) and _witness(val(m), exc)

    return C


set_attr_map = contract(AM + "AttrMap.set_attr_map", property="C17", replayable=False)(_setter("_attr_map", "attr_map", False))
set_focus_map = contract(AM + "AttrMap.set_focus_map", property="C17", replayable=False)(_setter("_focus_map", "focus_map", True))


def _same_entries_at(m_new, m_given, A):
    if not isinstance(m_new, (SFMap, DRef)):
        return False
    mn, mg = mapval(m_new), mapval(m_given)
    return both(mk_bool(V._zb(mn.has(A)) == V._zb(mg.has(A))), implies(mg.has(A), aeq(mn.val(A), mg.val(A))))


def _single_entry_at(m_new, attr, A):
    if not isinstance(m_new, (SFMap, DRef)) or isinstance(attr, (SFMap, DRef)):
        return False
    if isinstance(m_new, DRef) and any(isinstance(x, (SFMap, DRef)) for x in m_new.d.values()):
        return False
    mn = mapval(m_new)
    return both(mk_bool(V._zb(mn.has(A)) == V._zb(opt_isnone(A) if isinstance(opt_isnone(A), V.SBool) else z3.BoolVal(bool(opt_isnone(A))))), aeq(mn.val(None), attr), Q.seq_len(()) == 0)


@contract(AM + "AttrMap.__init__", property="C17", inline=("WidgetDecoration.__init__",), replayable=False)
class attrmap_init:
    """`attr_map` / `focus_map`: a Mapping (modelled: a dict with symbolic keys) or a single attribute (None included;
    for focus_map None means "no focus map")."""

    self_shape = Obj(_am.AttrMap, {})
    params = dict(w=Opaque("Widget"), attr_map=Union(AMAP, ATTRV), focus_map=Union(AMAP, ATTRV))
    raises = (_am.AttrMapError,)

    def ensures(old, s, a, result):
        A = arb_attr()
        yield "wraps-the-widget", eq(s._original_widget, a.w)
        if isinstance(a.attr_map, SFMap):
            yield "a-given-mapping-is-copied", both(s._attr_map is not a.attr_map, _same_entries_at(s._attr_map, a.attr_map, A))
        else:
            yield "a-single-attribute-becomes-the-map-from-none", _single_entry_at(s._attr_map, a.attr_map, A)
        if isinstance(a.focus_map, SFMap):
            yield "a-given-focus-mapping-is-copied", both(s._focus_map is not a.focus_map, _same_entries_at(s._focus_map, a.focus_map, A))
        elif is_none(a.focus_map):
            yield "no-focus-map", s._focus_map is None
        else:
            yield "a-single-focus-attribute-becomes-the-map-from-none", _single_entry_at(s._focus_map, a.focus_map, A)
        yield "arguments-not-mutated", both(*[getattr(a, k).v is getattr(a.old, k).v for k in ("attr_map", "focus_map") if isinstance(getattr(a, k), SFMap)])

    def on_raise(old, s, a, exc):
        W = cur().ghost.get("unhashable_witness")
        yield "raised-by-the-validation-of-a-map", W is not None
        if W is not None:
            culprits = []
            for arg in (a.attr_map, a.focus_map):
                if isinstance(arg, SFMap):
                    culprits.append(both(arg.v.has(W), neg(hashable(arg.v.val(W)))))
                else:
                    culprits.append(neg(hashable(arg)))
            yield "only-when-a-given-attribute-or-map-value-is-not-hashable", either(*culprits)


# ---- AttrWrap: the single-attribute front end delegates to the map setters
from urwid.widget import attr_wrap as _aw  # noqa: E402

AW = "urwid/widget/attr_wrap.py:"
AWOBJ = Obj(_aw.AttrWrap, dict(_original_widget=Opaque("Widget"), _attr_map=AMAP, _focus_map=Opt(AMAP)))


def _wrap_setter(field, param):
    class C:
        self_shape = AWOBJ
        params = {param: ATTRV}
        raises = (_am.AttrMapError,)
        modifies = (field,)

        def ensures(old, s, a, result):
            A = arb_attr()
            yield "returns-none", result is None
            yield "the-map-from-none-to-the-attribute-is-stored", _single_entry_at(val(s.fields[field]) if isinstance(s.fields[field], SOpt) else s.fields[field], getattr(a, param), A)
            yield "invalidated-once", count_ev(s.trace, "_invalidate") == 1
            yield "other-fields-untouched", both(*[_same_obj(s.fields[f], old.fields[f]) for f in ("_original_widget", "_attr_map", "_focus_map") if f != field])

        def on_raise(old, s, a, exc):
            yield "only-for-an-attribute-that-is-not-hashable", neg(hashable(getattr(a, param)))
            yield "nothing-stored-nothing-invalidated", both(_same_obj(s.fields[field], old.fields[field]), count_ev(s.trace, "_invalidate") == 0)

    return C


wrap_set_attr = contract(AW + "AttrWrap.set_attr", property="C17", replayable=False)(_wrap_setter("_attr_map", "attr"))
wrap_set_focus_attr = contract(AW + "AttrWrap.set_focus_attr", property="C17", replayable=False)(_wrap_setter("_focus_map", "focus_attr"))
